"""osv — static analysis of openskill.py against properties C01..C20.

Nothing from the analysed repository is ever imported or executed; the package
reads source text with ``ast`` (and, for one cross-check, ``compile`` + ``dis``).
"""

__all__ = []
