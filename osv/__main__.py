"""CLI:  python -m osv check <ID> [--tier quick|thorough]   |   python -m osv replay <file>"""

from __future__ import annotations

import argparse
import importlib
import json
import os
import sys
import traceback

from .frontend import AnalysisError, Program
from .report import Report

LEVELS = {
    "C13": "proof",
    "C14": "proof",
    "C15": "proof",
    "C18": "proof",
}


def run_check(prop: str, tier: str, seed: int) -> int:
    level = LEVELS.get(prop, "other")
    rep = Report(prop, tier, level)
    selftest = None
    try:
        mod = importlib.import_module(f"osv.rules.{prop.lower()}")
    except ModuleNotFoundError:
        print(f"ANALYSIS-ERROR property={prop} no rule module")
        return 2
    try:
        prog = Program()
        rep.extra["repo_digest"] = prog.digest()
        rep.extra["modules_parsed"] = sorted(prog.modules)
        mod.run(prog, rep, tier)
        if tier == "thorough":
            from .selftest import run_selftest

            selftest = run_selftest(prop, mod, rep, seed)
    except AnalysisError as e:
        rep.error(f"{e}")
    except Exception as e:  # the checker itself broke: never a silent pass, never a violation
        tb = traceback.format_exc()
        rep.error(f"checker exception {type(e).__name__}: {e}\n{tb}")
    try:
        return rep.finish(seed=seed, selftest=selftest)
    except Exception as e:  # pragma: no cover
        print(f"ANALYSIS-ERROR property={prop} report failure {type(e).__name__}: {e}")
        traceback.print_exc()
        return 2


def main(argv=None) -> int:
    if argv is None and os.environ.get("PYTHONHASHSEED") != "0":
        # reproducible runs: the iteration order of sets of strings must not depend on the per-process hash seed
        os.environ["PYTHONHASHSEED"] = "0"
        os.execv(sys.executable, [sys.executable, "-m", "osv"] + sys.argv[1:])
    ap = argparse.ArgumentParser(prog="osv")
    sub = ap.add_subparsers(dest="cmd", required=True)
    c = sub.add_parser("check")
    c.add_argument("prop")
    c.add_argument("--tier", default=os.environ.get("VERIF_TIER", "quick"), choices=["quick", "thorough"])
    r = sub.add_parser("replay")
    r.add_argument("path")
    sub.add_parser("selfcheck")
    args = ap.parse_args(argv)
    seed = int(os.environ.get("VERIF_SEED", "0") or 0)
    if args.cmd == "check":
        return run_check(args.prop.upper(), args.tier, seed)
    if args.cmd == "selfcheck":
        from .selfcheck import main as sc_main

        return sc_main()
    if args.cmd == "replay":
        with open(args.path) as fh:
            rec = json.load(fh)
        print(f"replaying {rec['property']} {rec['rule']} {rec['key']}")
        code = run_check(rec["property"], "quick", seed)
        return code
    return 2


if __name__ == "__main__":
    sys.exit(main())
