"""Call transfer functions for builtins / stdlib callables (part of the Builtins class)."""

from __future__ import annotations

import ast
import math
from dataclasses import replace
from fractions import Fraction
from statistics import NormalDist as _ND  # the analyser's own stdlib, used only on interval end points
from typing import Any, Dict, List, Optional, Tuple

from .domains import lift_const
from .state import Build, Cell, DictObj, ExtInst, InstObj, IterObj, ListObj, State
from .values import (
    INF,
    POLY,
    STAR,
    Bool,
    Bottom,
    ClassV,
    ExtV,
    FuncV,
    Interval,
    Length,
    NoneV,
    Num,
    Opaque,
    Ptr,
    Seq,
    Str,
    SuperV,
    Top,
    TupleV,
    Union,
    Val,
    bool_to_num,
    iperm,
    ivar,
    join_val,
    mk_sym,
    short,
    subst_val,
    sym_const,
)

F0 = Fraction(0)
FLOAT = frozenset({"float"})
INT = frozenset({"int"})
EXP_MAX = 709.78
_STD = _ND()

TYPEERR = ("TypeError", "Exception")
VALERR = ("ValueError", "Exception")


def _prov(*vals) -> frozenset:
    p = frozenset()
    for v in vals:
        p |= getattr(v, "prov", frozenset())
    return p


class BuiltinCalls:
    # ==================================================================================
    def call(self, fv: ExtV, args: List[Any], kwargs: Dict[str, Val], node, state: State) -> Val:
        I = self.I
        q = fv.qual
        star = [a for a in args if isinstance(a, tuple)]
        I.event("ext-call", node, qual=q, args=[a for a in args if not isinstance(a, tuple)], bound=fv.bound)
        if star and q not in ("builtin.zip", "itertools.zip_longest", "builtin.print", "builtin.max", "builtin.min"):
            I.note_undecided(f"*args of unknown length passed to {q}", node)
            return Top("star call")
        name = q.split(".", 1)[1] if "." in q else q
        if q.startswith("builtin."):
            m = getattr(self, "b_" + name, None)
            if m is not None:
                return m(args, kwargs, node, state)
            I.note_undecided(f"builtin {name} not modelled", node)
            return Top(f"builtin {name}")
        if q.startswith("math."):
            return self.math_call(name, args, node, state)
        if q.startswith("list."):
            return self.list_method(name, fv.bound, args, kwargs, node, state)
        if q.startswith("dict."):
            return self.dict_method(name, fv.bound, args, kwargs, node, state)
        if q.startswith("iter."):
            return self.iter_method(name, fv.bound, args, node, state)
        if q.startswith("str."):
            for a in args:
                if isinstance(a, Val):
                    pass
            if name in ("startswith", "endswith", "isdigit", "isalpha", "isspace", "isupper", "islower"):
                return Bool(None, _prov(fv.bound))
            if name in ("split", "splitlines"):
                return I.new_list_from_seq(state, Seq(Length(None, 1, INF), Str(None, _prov(fv.bound)), "k"), node)
            if name in ("find", "index", "count", "rfind"):
                return Num(kinds=INT, prov=_prov(fv.bound))
            return Str(None, _prov(fv.bound, *[a for a in args if isinstance(a, Val)]))
        if q.startswith("number."):
            if name == "is_integer":
                return Bool(None, _prov(fv.bound))
            if name in ("hex", "__str__", "__repr__", "__format__"):
                return Str(None, _prov(fv.bound))
            if name in ("conjugate", "__float__", "__abs__"):
                return fv.bound
            return Top("number method")
        if q.startswith("tuple."):
            if name in ("count", "index"):
                return Num(kinds=INT, deg=F0)
            return Top("tuple method")
        if q == "copy.deepcopy":
            I.event("deepcopy", node, src=args[0] if args else None)
            return self.deepcopy(args[0], state, node) if args else Bottom()
        if q == "copy.copy":
            return self.shallow_copy(args[0], state, node) if args else Bottom()
        if q.startswith("uuid."):
            I.hook("nondet-source", node, "RANDOM")
            if name in ("uuid4", "uuid1", "uuid3", "uuid5", "UUID"):
                return I.alloc(state, ExtInst("uuid.UUID"), node, "uuid")
            return Str(None, frozenset({"RANDOM"}))
        if q.startswith("uuid.UUID."):
            return Str(None, frozenset({"RANDOM"}))
        if q.startswith("random.") or q.startswith("time.") or q.startswith("datetime.") or q.startswith("os.") or q.startswith("secrets."):
            I.hook("nondet-source", node, q)
            I.event("nondet", node, qual=q)
            return Num(kinds=FLOAT, prov=frozenset({"NONDET:" + q.split(".")[0]}))
        if q == "functools.reduce":
            return self.reduce(args, node, state)
        if q == "itertools.permutations":
            return self.permutations(args, node, state, ordered=True)
        if q == "itertools.combinations":
            return self.permutations(args, node, state, ordered=False)
        if q == "itertools.zip_longest":
            return self.b_zip(args, kwargs, node, state, longest=True)
        if q == "itertools.chain":
            out = None
            for a in args:
                s = I.to_seq(a, state, node)
                if s is None:
                    return Bottom()
                out = s if out is None else I.maybe_seq(self.concat(state, out, s, node), state)
            return replace(out, kind="iter") if out is not None else Seq(Length.const(0))
        if q == "itertools.chain.from_iterable" and len(args) == 1:
            outer = I.to_seq(args[0], state, node)
            if outer is None:
                return Bottom()
            if outer.fixed is not None:
                out = None
                for a in outer.fixed:
                    s = I.to_seq(a, state, node)
                    if s is None:
                        return Bottom()
                    out = s if out is None else I.maybe_seq(self.concat(state, out, s, node), state)
                return replace(out, kind="iter") if out is not None else Seq(Length.const(0))
            inner = I.to_seq(subst_val(outer.elem, {outer.kvar: STAR}), state, node) if outer.length.hi != 0 else None
            if inner is None:
                return Seq(Length.const(0)) if outer.length.hi == 0 else Bottom()
            return Seq(Length(None, 0, INF), subst_val(inner.elem, {inner.kvar: STAR}), "k", None, None, frozenset(inner.flags) | frozenset(outer.flags) | {"flattened", "unmodelled"}, "iter")
        if q == "itertools.accumulate" or q.startswith("itertools."):
            I.note_undecided(f"{q} not modelled", node)
            return Top(q)
        if q.startswith("statistics.NormalDist."):
            return self.normal_method(name.split(".")[-1], fv.bound, args, node, state)
        if q == "operator.itemgetter()":
            return I.load_subscript(args[0], fv.bound, node, state) if args else Bottom()
        if q == "operator.attrgetter()":
            if args and isinstance(fv.bound, Str) and fv.bound.const is not None and "." not in fv.bound.const:
                return I.load_attr(args[0], fv.bound.const, node, state)
            I.note_undecided("operator.attrgetter with a non-constant or dotted name", node)
            return Top("attrgetter")
        if q.startswith("operator."):
            return self.operator_call(name, args, node, state)
        if q.startswith("sys."):
            I.event("sys-access", node, qual=q)
            return Top(q)
        if q.startswith("typing."):
            return args[-1] if args and name == "cast" else Opaque("typing", True)
        if q.startswith("callback."):
            return self.callback(name, args, kwargs, node, state)
        if q.startswith("object."):
            # methods of `object` reached through super()
            if name in ("__init__", "__init_subclass__", "__post_init__"):
                return NoneV()
            if name == "__setattr__" and len(args) == 2 and isinstance(args[0], Str) and args[0].const is not None and fv.bound is not None:
                I.store_attr(fv.bound, args[0].const, args[1], state, node)
                return NoneV()
            if name in ("__repr__", "__str__"):
                return Str(None, frozenset({"IDENTITY"}))
            I.note_undecided(f"object.{name} through super() not modelled", node)
            return Top(q)
        if q.startswith("warnings.") or q.startswith("logging."):
            I.event("io", node, qual=q)
            return NoneV()
        I.note_undecided(f"external callable {q} not modelled", node)
        return Top(q)

    # ==================================================================================
    # external classes
    # ==================================================================================
    def call_ext_class(self, ext: str, args, kwargs, node, state: State) -> Val:
        I = self.I
        name = ext.split(".", 1)[1] if "." in ext else ext
        args = [a for a in args]
        if ext == "builtin.float" or ext == "builtin.int":
            if not args:
                return lift_const(0.0 if name == "float" else 0)
            return self.convert_number(name, args[0], node, state)
        if ext == "builtin.bool":
            if not args:
                return Bool(False)
            t = I.truth(state, args[0])
            return Bool(t, _prov(args[0]))
        if ext == "builtin.str":
            return Str(None, _prov(*args))
        if ext == "builtin.list" or ext == "builtin.tuple":
            if not args:
                return I.new_list(state, [], node) if name == "list" else TupleV(())
            s = I.to_seq(args[0], state, node)
            if s is None or state.bottom:
                return Bottom()
            if "set-order" in s.flags:
                I.event("set-iteration", node, elem=s.elem, seq=s)
                if I.explicit and (s.fixed is None or len(s.fixed) >= 2):
                    I.note_undecided("the order of list(set(...)) is unspecified (an implementation detail of hashing): a result that depends on it is not modelled", node)
            if name == "tuple":
                if s.fixed is not None:
                    return TupleV(tuple(s.fixed))
                return replace(s, kind="tuple")
            return I.new_list_from_seq(state, s, node, "list()")
        if ext == "builtin.dict":
            if not args and not kwargs:
                return I.alloc(state, DictObj(), node, "dict")
            I.note_undecided("dict(...) constructor with arguments not modelled", node)
            return Top("dict()")
        if ext in ("builtin.set", "builtin.frozenset"):
            if not args:
                return Seq(Length.const(0), Top("empty"), "k", (), None, frozenset({"set-order"}), "set")
            s = I.to_seq(args[0], state, node)
            if s is None or state.bottom:
                return Bottom()
            return self.make_set(s, node, state)
        if ext == "builtin.object":
            return Opaque("object", True)
        if ext == "builtin.type":
            return self.class_of(args[0], state) if len(args) == 1 else Top("type()")
        if ext == "collections.defaultdict":
            p_ = I.alloc(state, DictObj(flags=frozenset({"defaultdict"})), node, "defaultdict")
            I.default_factories[p_.loc] = args[0] if args else NoneV()
            return p_
        if ext == "collections.Counter" and len(args) <= 1 and not kwargs:
            return self.counter_new(state, args, node)
        if ext == "collections.OrderedDict" and not args and not kwargs:
            return I.alloc(state, DictObj(), node, "dict")
        if ext == "statistics.NormalDist":
            return I.alloc(state, ExtInst("statistics.NormalDist", tuple(args) + tuple(kwargs.values())), node, "NormalDist", origin="global" if not I.stack or I.stack[-1].fi is None else None)
        if name in ("TypeError", "ValueError") or name.endswith("Error") or name.endswith("Exception") or name.endswith("Warning"):
            return Opaque("exception:" + name, True)
        I.note_undecided(f"external class {ext} not modelled", node)
        return Top(ext)

    def convert_number(self, name: str, v: Val, node, state: State) -> Val:
        I = self.I
        n = I.as_num(v)
        if n is not None:
            I.hook("convert", node, name, n)
            if name == "float":
                return Num(kinds=FLOAT, rng=n.rng, deg=n.deg, prov=n.prov, sym=n.sym if n.kinds == FLOAT else mk_sym("call", "float", n.sym), const=float(n.const) if n.const is not None else None, wt=n.wt)
            rng = None
            if n.rng is not None:
                rng = Interval(math.floor(n.rng.lo) if n.rng.lo > -INF else -INF, math.ceil(n.rng.hi) if n.rng.hi < INF else INF, n.rng.lo == -INF, n.rng.hi == INF)
            return Num(kinds=INT, rng=rng, deg=n.deg, prov=n.prov, sym=n.sym if n.kinds and n.kinds <= {"int", "bool"} else mk_sym("call", "int", n.sym), const=int(n.const) if n.const is not None else None)
        if isinstance(v, Str):
            # may raise ValueError for a non-numeric string
            st = state.copy()
            I.do_raise(st, "ValueError", node, implicit=True, mro=VALERR)
            return Num(kinds=FLOAT if name == "float" else INT, prov=v.prov)
        if isinstance(v, Top):
            return Num(kinds=FLOAT if name == "float" else INT)
        if isinstance(v, Union):
            out: Val = Bottom()
            alive = False
            for o in v.opts:
                st = state.copy()
                r = self.convert_number(name, o, node, st)
                if not st.bottom:
                    alive = True
                    out = join_val(out, r)
            if not alive:
                state.bottom = True
            return out
        I.do_raise(state, "TypeError", node, implicit=True, mro=TYPEERR)
        return Bottom()

    # ==================================================================================
    # builtins
    # ==================================================================================
    def b_len(self, args, kwargs, node, state):
        I = self.I
        if len(args) != 1:
            I.do_raise(state, "TypeError", node, implicit=True, mro=TYPEERR)
            return Bottom()
        v = args[0]
        if isinstance(v, Union):
            out: Val = Bottom()
            alive = False
            for o in v.opts:
                st = state.copy()
                r = self.b_len([o], kwargs, node, st)
                if not st.bottom:
                    alive = True
                    out = join_val(out, r)
            if not alive:
                state.bottom = True
            return out
        length = None
        if isinstance(v, Ptr):
            d = I.deref(state, v)
            if d is not None and isinstance(d[0], DictObj):
                length = d[0].length
            elif d is not None and isinstance(d[0], InstObj):
                m = d[0].cls.lookup("__len__")
                if m is not None:
                    return I.call_function(FuncV(fi=m, node=m.node, self_val=v, module=m.module), [], {}, node, state)
        if length is None:
            s = I.maybe_seq(v, state)
            if s is not None and s.kind != "iter":
                length = s.length
        if length is None and isinstance(v, Str):
            n = len(v.const) if v.const is not None else None
            return Num(kinds=INT, rng=Interval.point(n) if n is not None else Interval(0, INF, False, True), deg=F0, const=n)
        if length is None:
            if isinstance(v, Top):
                return Num(kinds=INT, rng=Interval(0, INF, False, True), deg=F0)
            I.event("len-of-unsized", node, val=v)
            I.do_raise(state, "TypeError", node, implicit=True, mro=TYPEERR)
            return Bottom()
        k = length.known()
        sym = None
        t = length.term
        if k is not None:
            return replace(lift_const(k), deg=F0)
        if t is not None:
            sym = ("lenterm", t) if t[0] != "num" else t[1]
        I.hook("len", node, v, length)
        return Num(kinds=INT, rng=Interval(float(length.lo), float(length.hi), False, length.hi == INF), deg=F0, sym=sym)

    def b_isinstance(self, args, kwargs, node, state):
        I = self.I
        if len(args) != 2:
            I.do_raise(state, "TypeError", node, implicit=True, mro=TYPEERR)
            return Bottom()
        r = I.class_matches(state, args[0], args[1])
        prov = frozenset()
        sep = None
        vprov = getattr(args[0], "prov", frozenset())
        if I.type_test_tags and vprov & set(I.type_test_tags):
            # does the tested class set tell validated numeric kinds (bool/int/float) apart?
            matched = set()
            for c in args[1].items if isinstance(args[1], TupleV) else (args[1],):
                if isinstance(c, ClassV):
                    matched |= {"builtin.int": {"int", "bool"}, "builtin.float": {"float"}, "builtin.bool": {"bool"}, "builtin.object": {"int", "bool", "float"}}.get(c.ext, set())
            sep = bool(matched) and matched != {"int", "bool", "float"}
            if sep:
                prov = frozenset(I.type_test_tags[t] for t in vprov if t in I.type_test_tags)
        I.hook("isinstance", node, args[0], args[1], r)
        I.event("isinstance", node, val=args[0], cls=args[1], result=r, separates=sep)
        return Bool(r, prov)

    def b_issubclass(self, args, kwargs, node, state):
        return Bool(None)

    def b_callable(self, args, kwargs, node, state):
        v = args[0]
        return Bool(True if isinstance(v, (FuncV, ClassV, ExtV)) else None)

    def b_type(self, args, kwargs, node, state):
        return self.class_of(args[0], state) if len(args) == 1 else Top("type()")

    def b_id(self, args, kwargs, node, state):
        self.I.hook("nondet-source", node, "IDENTITY")
        return Num(kinds=INT, prov=frozenset({"IDENTITY"}))

    def b_hash(self, args, kwargs, node, state):
        self.I.hook("nondet-source", node, "HASH")
        return Num(kinds=INT, prov=frozenset({"HASH"}) | _prov(*args))

    def b_repr(self, args, kwargs, node, state):
        return Str(None, _prov(*args))

    b_format = b_repr
    b_ascii = b_repr

    def b_print(self, args, kwargs, node, state):
        self.I.event("io", node, qual="print")
        return NoneV()

    def b_enumerate(self, args, kwargs, node, state):
        I = self.I
        s = I.to_seq(args[0], state, node)
        if s is None or state.bottom:
            return Bottom()
        start = args[1] if len(args) > 1 else kwargs.get("start")
        kv = s.kvar
        if start is None or (isinstance(start, Num) and start.const == 0):
            idx = Num(kinds=INT, rng=Interval(0.0, max(s.length.hi - 1, 0) if s.length.hi < INF else INF, False, s.length.hi == INF), deg=F0, sym=("idx", ivar(kv)), prov=I.pos_tags(s.length))
            flags = s.flags
        else:
            idx = Num(kinds=INT, rng=Interval(0.0, INF, False, True) if isinstance(start, Num) and start.rng is not None and start.rng.ge0() else None, deg=F0)
            flags = s.flags | {"offset-index"}
        wit = None
        if s.witness is not None:
            wit = TupleV((Num(kinds=INT, deg=F0, rng=idx.rng), s.witness))
        fixed = None
        if s.fixed is not None and (start is None or (isinstance(start, Num) and start.const == 0)):
            fixed = tuple(TupleV((replace(lift_const(i), deg=F0), x)) for i, x in enumerate(s.fixed))
        return Seq(s.length, TupleV((idx, s.elem)), kv, fixed, wit, flags, "iter")

    def b_zip(self, args, kwargs, node, state, longest=False):
        I = self.I
        if len(args) == 1 and isinstance(args[0], tuple):
            return self.zip_star(args[0][1], node, state, longest)
        if any(isinstance(a, tuple) for a in args):
            I.note_undecided("zip with mixed *args", node)
            return Top("zip*")
        if len(args) >= 2 and isinstance(args[0], Ptr) and all(a == args[0] for a in args):
            d0 = I.deref(state, args[0])
            if d0 is not None and isinstance(d0[0], IterObj):
                # zip(it, it, ...) on ONE iterator consumes it in turn: consecutive chunks (the *[iter(L)] * k idiom with a constant k)
                return self.zip_star(Seq(Length.const(len(args)), args[0], "k", tuple(args), None, frozenset(), "list"), node, state, longest)
        seqs = []
        for a in args:
            s = I.to_seq(a, state, node)
            if s is None or state.bottom:
                return Bottom()
            seqs.append(s)
        if not seqs:
            return Seq(Length.const(0), Top("empty"), "k", (), None, frozenset(), "iter")
        fx = [len(s.fixed) for s in seqs if s.fixed is not None]
        if fx and len(set(fx)) == 1 and len(fx) < len(seqs):
            # an operand whose length is known to be the same number gets its positions spelled out
            seqs = [s if s.fixed is not None else (self.concretise(s, fx[0]) or s) for s in seqs]
        if all(s.fixed is not None for s in seqs) and len({len(s.fixed) for s in seqs}) == 1:
            items = tuple(TupleV(tuple(s.fixed[i] for s in seqs)) for i in range(len(seqs[0].fixed)))
            elem: Val = Bottom()
            for x in items:
                elem = join_val(elem, x)
            return Seq(Length.const(len(items)), elem if items else Top("empty"), "k", items, None, frozenset(), "iter")
        kv = seqs[0].kvar
        elems = [s.elem if s.kvar == kv else subst_val(s.elem, {s.kvar: ivar(kv)}) for s in seqs]
        same = all(s.length.same(seqs[0].length) for s in seqs)
        flags = frozenset().union(*[s.flags for s in seqs])
        if same:
            length = seqs[0].length
            for s in seqs:
                if s.length.term is not None:
                    length = Length(s.length.term, max(length.lo, s.length.lo), min(length.hi, s.length.hi))
                    break
        elif longest:
            length = Length(None, max(s.length.lo for s in seqs), max(s.length.hi for s in seqs))
            fill = kwargs.get("fillvalue", NoneV())
            elems = [join_val(e, fill) for e in elems]
            flags = flags | {"length-mismatch"}
        else:
            length = Length(None, min(s.length.lo for s in seqs), min(s.length.hi for s in seqs))
            flags = flags | {"partial", "length-mismatch"}
        I.hook("zip", node, seqs, same, longest)
        wit = None
        if seqs[0].witness is not None and same:
            wit = TupleV(tuple([seqs[0].witness] + [subst_val(e, {kv: STAR}) for e in elems[1:]]))
        return Seq(length, TupleV(tuple(elems)), kv, None, wit, flags, "iter")

    @staticmethod
    def concretise(s: Seq, k: int) -> Optional[Seq]:
        """A sequence known to have exactly k (small) elements, positions modelled: the same sequence with its k elements listed."""
        if s.fixed is not None:
            return s if len(s.fixed) == k else None
        if s.length.lo != k or s.length.hi != k or k > 6 or s.witness is not None or s.flags & {"reordered", "building", "weak-append", "unmodelled", "dict-order"}:
            return None
        items = tuple(subst_val(s.elem, {s.kvar: ("c", i)}) for i in range(k))
        return replace(s, fixed=items)

    def zip_star(self, sq: Seq, node, state, longest: bool) -> Val:
        """zip(*M): transposition when the rows have a statically known width; chunking idiom for
        zip(*[iter(L)] * k)."""
        I = self.I
        el = sq.elem
        if sq.fixed is not None and len(sq.fixed) >= 1 and isinstance(sq.fixed[0], Ptr) and all(x == sq.fixed[0] for x in sq.fixed):
            d0 = I.deref(state, sq.fixed[0])
            if d0 is not None and isinstance(d0[0], IterObj):
                # [iter(L)] * k with a constant k: k references to one iterator
                sq = replace(sq, flags=sq.flags | {"repeat"}, fixed=None, elem=sq.fixed[0])
                el = sq.elem
        if "repeat" in sq.flags and isinstance(el, Ptr):
            d = I.deref(state, el)
            if d is not None and isinstance(d[0], IterObj):
                inner = d[0].seq
                inner = subst_val(inner, d[1]) if d[1] else inner
                k = sq.length
                I.axiom("zip(*[iter(L)] * k) yields consecutive k-chunks of L")
                kk = k.known()
                if I.explicit and inner.fixed is not None and kk is not None and kk >= 1:
                    # a listed sequence and a constant chunk size: the chunks are listed (zip drops a short tail, zip_longest pads it with None)
                    items = list(inner.fixed)
                    chunks = []
                    for at in range(0, len(items), kk):
                        c = items[at:at + kk]
                        if len(c) < kk:
                            if not longest:
                                break
                            c = c + [NoneV()] * (kk - len(c))
                        chunks.append(TupleV(tuple(c)))
                    elem_j: Val = Bottom()
                    for x in chunks:
                        elem_j = join_val(elem_j, x)
                    return Seq(Length.const(len(chunks)), elem_j if chunks else Top("empty"), "k", tuple(chunks), None, frozenset(), "iter")
                r = self.chunk_pairs(inner, k, node, state, longest)
                if r is not None:
                    return r
                chunk = Seq(Length(k.term, k.lo, k.hi), subst_val(inner.elem, {inner.kvar: STAR}), "c", None, None, frozenset({"chunk"}), "tuple")
                n_lo = 0 if k.hi in (0, INF) else int(inner.length.lo // max(k.hi, 1))
                n_hi = INF if k.lo == 0 or inner.length.hi == INF else math.ceil(inner.length.hi / max(k.lo, 1))
                res = Seq(Length(("chunks", inner.length.term, k.term), n_lo, n_hi), chunk, "k", None, None, frozenset({"chunks"}), "iter")
                I.event("chunking", node, inner=inner, k=k, result=res, longest=longest)
                h = I.hooks.get("chunking")
                if h:
                    r = h(I, node, inner, k, longest, state)
                    if r is not None:
                        return r
                return res
        rows = None
        if isinstance(el, Ptr):
            rows = I.list_seq(state, el)
        elif isinstance(el, TupleV):
            rows = I.maybe_seq(el, state)
        elif isinstance(el, Seq):
            rows = el
        if rows is not None and rows.fixed is not None:
            cols = []
            for j, x in enumerate(rows.fixed):
                cols.append(Seq(sq.length, x, sq.kvar, None, None, sq.flags, "tuple"))
            elem: Val = Bottom()
            for c in cols:
                elem = join_val(elem, c)
            return Seq(Length.const(len(cols)), elem if cols else Top("empty"), "k", tuple(cols), None, frozenset(), "iter")
        if sq.length.hi == 0:
            return Seq(Length.const(0), Top("empty"), "k", (), None, frozenset(), "iter")
        I.note_undecided("zip(*rows) with rows of unknown width", node)
        return Top("zip*")

    def chunk_pairs(self, inner: Seq, k: Length, node, state: State, longest: bool):
        """permutations(S, 2) cut into consecutive chunks of len(S) - 1: chunk j holds exactly the pairs whose first
        component is S[j] (documented order of itertools.permutations). Returns None when the shape does not match."""
        from ..poly import p_add, p_atom, p_const, to_poly
        from .values import map_val_indices

        I = self.I
        lt = inner.length.term
        if lt is None or lt[0] != "pairs" or inner.flags & {"cond-append", "multi-append", "reordered", "building", "partial", "weak-append", "tail-append"}:
            return None
        base_term = lt[1]
        base = I.pairs_base.get(base_term)
        if base is None:
            return None
        if k.known() is not None and base.lo == base.hi == k.known() + 1:
            pass  # the number of teams is an exact constant in this run and the chunk length is that constant minus one
        elif k.term is None or k.term[0] != "num":
            return None
        else:
            want = p_add(p_atom(("lenterm", base_term)), p_const(1), -1)
            got = to_poly(k.term[1])
            if got != want:
                I.event("chunk-mismatch", node, k=k.term, base=base_term)
                return None
        kv = inner.kvar
        okv = f"kc{I.site_id('chunk', node)}"
        ikv = f"kd{I.site_id('chunk', node)}"

        def fn(t):
            if t == ("pa", ivar(kv)):
                return ivar(okv)
            if t == ("pb", ivar(kv)):
                return ("oth", ivar(ikv))
            if t == ivar(kv):
                return STAR
            return None

        elem = map_val_indices(inner.elem, fn)
        chunk = Seq(Length(("add", base_term, -1), max(base.lo - 1, 0), base.hi - 1), elem, ikv, None, None, frozenset({"chunk", "row-of-pairs"}), "tuple")
        res = Seq(base, chunk, okv, None, None, frozenset({"rows-of-pairs"}), "iter")
        I.axiom("chunk j of permutations(S, 2) cut into chunks of len(S) - 1 = the pairs (S[j], S[b]), b != j")
        I.event("chunking", node, inner=inner, k=k, result=res, longest=longest, aligned=True)
        return res

    def b_map(self, args, kwargs, node, state):
        I = self.I
        if len(args) < 2:
            I.do_raise(state, "TypeError", node, implicit=True, mro=TYPEERR)
            return Bottom()
        f = args[0]
        z = self.b_zip(args[1:], {}, node, state) if len(args) > 2 else I.to_seq(args[1], state, node)
        if z is None or state.bottom or not isinstance(z, Seq):
            return Bottom() if state.bottom else Top("map")
        multi = len(args) > 2
        acc = I.new_list(state, [], node, "map")
        holder = {}

        def bind(elem, s):
            holder["e"] = elem

        def body(s):
            e = holder["e"]
            a = list(e.items) if multi and isinstance(e, TupleV) else [e]
            r = I.call_value(f, a, {}, node, s)
            if not s.bottom:
                I.list_append(s, acc, r, node)

        I.run_loop(z, node, state, bind, body)
        if state.bottom:
            return Bottom()
        res = I.list_seq(state, acc)
        state.heap.pop(acc.loc, None)
        return replace(res, kind="iter")

    def b_filter(self, args, kwargs, node, state):
        I = self.I
        f = args[0]
        z = I.to_seq(args[1], state, node)
        if z is None or state.bottom:
            return Bottom()
        acc = I.new_list(state, [], node, "filter")
        holder = {}

        def bind(elem, s):
            holder["e"] = elem

        def body(s):
            e = holder["e"]
            if isinstance(f, NoneV):
                t = I.truth(s, e)
            else:
                r = I.call_value(f, [e], {}, node, s)
                if s.bottom:
                    return
                t = I.truth(s, r)
            if t is not False:
                if t is None:
                    skip = s.copy()
                    I.list_append(s, acc, e, node)
                    s.assign_from(I.join(s, skip))
                else:
                    I.list_append(s, acc, e, node)

        I.run_loop(z, node, state, bind, body)
        if state.bottom:
            return Bottom()
        res = I.list_seq(state, acc)
        state.heap.pop(acc.loc, None)
        # lemma L-A (reflexive count): when an enclosing loop walks the same sequence and the predicate holds for that
        # loop's current element, the current element itself passes the filter, so the result is non-empty
        if res.length.lo == 0 and not isinstance(f, NoneV):
            for lc in reversed(I.loops):
                ls = lc.seq
                if ls is None or not ls.length.same(z.length):
                    continue
                if subst_val(ls.elem, {ls.kvar: ivar("$same")}) != subst_val(z.elem, {z.kvar: ivar("$same")}):
                    continue
                e_self = subst_val(z.elem, {z.kvar: ivar(lc.token)})
                saved = (I.events, I.diags, I.obligations, I.raises, I.hooks, I.undecided)
                I.events, I.diags, I.obligations, I.raises, I.hooks, I.undecided = [], {}, {}, [], {}, []
                try:
                    stq = state.copy()
                    r = I.call_value(f, [e_self], {}, node, stq)
                    t = None if stq.bottom else I.truth(stq, r)
                finally:
                    I.events, I.diags, I.obligations, I.raises, I.hooks, I.undecided = saved
                if t is True:
                    res = replace(res, length=Length(res.length.term, 1, res.length.hi))
                    I.event("lemma", node, name="L-A", why="the filter predicate is reflexive on the enclosing loop's own element: the filtered sequence contains it")
                    break
        I.event("filter", node, src=z, result=res, pred=f)
        return replace(res, kind="iter")

    def b_sum(self, args, kwargs, node, state):
        I = self.I
        s = I.to_seq(args[0], state, node)
        if s is None or state.bottom:
            return Bottom()
        start = args[1] if len(args) > 1 else kwargs.get("start", replace(lift_const(0), deg=POLY))
        if "set-order" in s.flags:
            I.event("set-iteration", node, elem=s.elem, seq=s)
        e = subst_val(s.elem, {s.kvar: STAR}) if s.length.hi != 0 else replace(lift_const(0), deg=POLY)
        if s.fixed is not None:
            acc = start
            for x in s.fixed:
                acc = I.binop(ast.Add(), acc, x, node, state)
            return acc
        en = I.as_num(e)
        sn = I.as_num(start)
        if en is None or sn is None:
            if isinstance(e, Top):
                return Num()
            I.do_raise(state, "TypeError", node, implicit=True, mro=TYPEERR)
            return Bottom()
        I.hook("fold", node, "sum", s, en)
        rng = None
        if en.rng is not None and sn.rng is not None:
            rng = en.rng.scale_count(s.length.lo, s.length.hi).add(sn.rng)
        deg = en.deg if sn.deg == POLY or sn.deg is None or en.deg is None or sn.deg == en.deg else en.deg
        if sn.deg not in (POLY, None) and en.deg not in (POLY, None) and sn.deg != en.deg:
            I.diag("degree", "mismatch", node, f"sum start has degree {sn.deg}, elements {en.deg}", ok=False)
        kinds = en.kinds if en.kinds else frozenset()
        if kinds == frozenset({"bool"}):
            kinds = INT
        fv = f"$f{I.site_id('fold', node)}"
        esym = subst_val(s.elem, {s.kvar: ivar(fv)})
        esym = esym.sym if isinstance(esym, Num) else None
        full = not (s.flags & {"partial", "reordered", "building", "weak-append", "cond-append", "multi-append", "unmodelled"})
        sym = mk_sym("fold", ("const", "+"), ("const", fv), esym, ("lenterm", s.length.term)) if s.length.term is not None and esym is not None and full else None
        if sym is not None and not (sn.const is not None and sn.const == 0):
            sym = mk_sym("add", sn.sym, sym) if sn.sym is not None else None  # the start value is part of the sum
        I.event("fold", node, how="sum", seq=s, elem=en, sym=sym, full=full)
        wt = None
        if I.shift_mode:
            from . import shift

            wt = shift.fold_sum(I, en, s.length.term, node)
        return Num(kinds=kinds, rng=rng, deg=deg, prov=en.prov | sn.prov, sym=sym, wt=wt)

    def b_abs(self, args, kwargs, node, state):
        n = self.I.as_num(args[0])
        if n is None:
            if isinstance(args[0], Top):
                return Num()
            self.I.do_raise(state, "TypeError", node, implicit=True, mro=TYPEERR)
            return Bottom()
        return self.I.ops.abs(n, node)

    def _minmax(self, args, kwargs, node, state, is_max: bool):
        I = self.I
        vals = None
        if len(args) == 1 and not isinstance(args[0], tuple):
            s = I.to_seq(args[0], state, node)
            if s is None or state.bottom:
                return Bottom()
            if s.fixed is not None and s.fixed:
                vals = list(s.fixed)
            else:
                ok = s.length.lo >= 1
                if "default" not in kwargs:
                    I.oblige("nonempty", node, ok, f"{'max' if is_max else 'min'}() of a sequence with length in [{s.length.lo},{s.length.hi}]")
                e = subst_val(s.elem, {s.kvar: STAR})
                if "key" in kwargs:
                    return e
                n = I.as_num(e)
                if n is None:
                    return e
                I.hook("fold", node, "max" if is_max else "min", s, n)
                if n.const is not None and s.length.lo >= 1:
                    return n  # every element is the same constant
                return replace(n, sym=None, const=None)
        else:
            vals = [a for a in args if not isinstance(a, tuple)]
        if "key" in kwargs:
            out: Val = Bottom()
            for v in vals:
                out = join_val(out, v)
            return out
        nums = [I.as_num(v) for v in vals]
        if any(n is None for n in nums):
            if any(isinstance(v, Top) for v in vals):
                return Num()
            I.do_raise(state, "TypeError", node, implicit=True, mro=TYPEERR)
            return Bottom()
        acc = nums[0]
        for n in nums[1:]:
            I.ops._deg_same(acc, n, node, "max/min")
            rng = None
            if acc.rng is not None and n.rng is not None:
                rng = acc.rng.max(n.rng) if is_max else acc.rng.min(n.rng)
            const = None
            if acc.const is not None and n.const is not None:
                const = max(acc.const, n.const) if is_max else min(acc.const, n.const)
            deg = acc.deg if acc.deg not in (POLY, None) else n.deg
            acc = Num(
                kinds=(acc.kinds | n.kinds) if acc.kinds and n.kinds else frozenset(),
                rng=rng,
                deg=deg,
                prov=acc.prov | n.prov,
                sym=mk_sym("max" if is_max else "min", acc.sym, n.sym),
                const=const,
            )
        I.hook("minmax", node, is_max, nums, acc)
        if I.shift_mode:
            from . import shift

            acc = replace(acc, wt=shift.same(I, "max/min", nums, node))
        return acc

    def b_max(self, args, kwargs, node, state):
        return self._minmax(args, kwargs, node, state, True)

    def b_min(self, args, kwargs, node, state):
        return self._minmax(args, kwargs, node, state, False)

    def b_round(self, args, kwargs, node, state):
        n = self.I.as_num(args[0])
        if n is None:
            return Num()
        self.I.hook("convert", node, "round", n)
        rng = None
        if n.rng is not None:
            rng = Interval(n.rng.lo - 0.5, n.rng.hi + 0.5, True, True) if n.rng.finite() else Interval.top()
        return Num(kinds=INT if len(args) == 1 else FLOAT, rng=rng, deg=n.deg, prov=n.prov, sym=mk_sym("call", "round", n.sym))

    def b_pow(self, args, kwargs, node, state):
        return self.I.binop(ast.Pow(), args[0], args[1], node, state)

    def b_divmod(self, args, kwargs, node, state):
        return TupleV((self.I.binop(ast.FloorDiv(), args[0], args[1], node, state), self.I.binop(ast.Mod(), args[0], args[1], node, state)))

    def b_range(self, args, kwargs, node, state):
        I = self.I
        nums = [I.as_num(a) for a in args]
        if any(n is None for n in nums):
            I.do_raise(state, "TypeError", node, implicit=True, mro=TYPEERR)
            return Bottom()
        if len(nums) == 1:
            n = nums[0]
            if n.const is not None and 0 <= n.const <= 4:
                items = tuple(replace(lift_const(i), deg=F0) for i in range(int(n.const)))
                elem: Val = Bottom()
                for x in items:
                    elem = join_val(elem, x)
                return Seq(Length.const(len(items)), elem if items else Top("empty"), "k", items, None, frozenset(), "iter")
            term = None
            if n.sym is not None and n.sym[0] == "lenterm":
                term = n.sym[1]
            elif n.sym is not None:
                term = ("num", n.sym)
            lo = max(int(n.rng.lo), 0) if n.rng is not None and n.rng.lo > -INF else 0
            hi = max(n.rng.hi, 0) if n.rng is not None else INF
            if n.const is not None:
                term, lo, hi = ("const", int(n.const)), int(n.const), int(n.const)
            idx = Num(kinds=INT, rng=Interval(0.0, max(hi - 1, 0) if hi < INF else INF, False, hi == INF), deg=F0, sym=("idx", ivar("k")), prov=I.pos_tags(Length(term, lo, hi)))
            return Seq(Length(term, lo, hi), idx, "k", None, None, frozenset(), "iter")
        lo_n, hi_n = nums[0], nums[1]
        if len(nums) >= 3:
            # range(start, stop, step): exact when all three are integer constants, otherwise only "some integers"
            cs = [n_.const for n_ in nums[:3]]
            if all(isinstance(c_, int) and not isinstance(c_, bool) for c_ in cs) and cs[2] != 0:
                vals = list(range(cs[0], cs[1], cs[2]))
                if len(vals) <= 4:
                    items = tuple(replace(lift_const(i), deg=F0) for i in vals)
                    elem = Bottom()
                    for x in items:
                        elem = join_val(elem, x)
                    return Seq(Length.const(len(items)), elem if items else Top("empty"), "k", items, None, frozenset(), "iter")
                return Seq(Length.const(len(vals)), Num(kinds=INT, rng=Interval(float(min(vals)), float(max(vals)), False, False), deg=F0), "k", None, None, frozenset({"range", "reordered"}), "iter")
            if isinstance(cs[2], int) and cs[2] == 0:
                I.do_raise(state, "ValueError", node, implicit=True, mro=("ValueError", "Exception"))
                return Bottom()
            st_ = self._stride_range(nums, node)
            if st_ is not None:
                return st_
            lo_b = min(x.rng.lo for x in nums[:2]) if all(x.rng is not None for x in nums[:2]) else -INF
            hi_b = max(x.rng.hi for x in nums[:2]) if all(x.rng is not None for x in nums[:2]) else INF
            return Seq(Length(None, 0, INF), Num(kinds=INT, rng=Interval(lo_b, hi_b, False, False), deg=F0, prov=_prov(*nums)), "k", None, None, frozenset({"range", "reordered"}), "iter")
        if len(nums) == 2 and isinstance(lo_n.const, int) and isinstance(hi_n.const, int) and not isinstance(lo_n.const, bool) and 0 <= hi_n.const - lo_n.const <= 4:
            items = tuple(replace(lift_const(i), deg=F0) for i in range(lo_n.const, hi_n.const))
            elem = Bottom()
            for x in items:
                elem = join_val(elem, x)
            return Seq(Length.const(len(items)), elem if items else Top("empty"), "k", items, None, frozenset(), "iter")
        rng = None
        if lo_n.rng is not None and hi_n.rng is not None:
            rng = Interval(lo_n.rng.lo, hi_n.rng.hi, lo_n.rng.lo_open, True)
        cnt_hi = INF
        cnt_lo = 0
        if lo_n.rng is not None and hi_n.rng is not None and len(nums) == 2:
            cnt_hi = max(hi_n.rng.hi - lo_n.rng.lo, 0)
            cnt_lo = max(int(hi_n.rng.lo - lo_n.rng.hi), 0) if hi_n.rng.lo > -INF and lo_n.rng.hi < INF else 0
        return Seq(Length(None, cnt_lo, cnt_hi), Num(kinds=INT, rng=rng, deg=F0, prov=_prov(*nums)), "k", None, None, frozenset({"range"}), "iter")

    def _stride_range(self, nums, node):
        """range(0, len(L), k) with a positive k: the starts 0, k, 2k, ... of the consecutive k-chunks of L. Element j is named
        j * k; when L is permutations(S, 2) and k = len(S) - 1 there are exactly len(S) of them (see chunk_pairs)."""
        from ..poly import p_add, p_atom, p_const, to_poly
        from .values import mk_sym

        I = self.I
        lo_n, hi_n, k_n = nums[:3]
        ksym = k_n.sym if k_n.sym is not None else (("const", k_n.const) if isinstance(k_n.const, int) and not isinstance(k_n.const, bool) else None)
        if lo_n.const != 0 or isinstance(lo_n.const, bool) or hi_n.sym is None or hi_n.sym[0] != "lenterm" or ksym is None:
            return None
        if k_n.rng is None or not (k_n.rng.lo >= 1):
            return None
        stop_term = hi_n.sym[1]
        length = None
        if isinstance(stop_term, tuple) and stop_term and stop_term[0] == "pairs":
            base = I.pairs_base.get(stop_term[1])
            if base is not None and (to_poly(ksym) == p_add(p_atom(("lenterm", stop_term[1])), p_const(1), -1) or (k_n.const is not None and base.lo == base.hi == k_n.const + 1)):
                length = base
        if length is None:
            n_hi = INF if hi_n.rng is None or hi_n.rng.hi == INF else math.ceil(hi_n.rng.hi / max(k_n.rng.lo, 1))
            length = Length(("chunks", stop_term, ("num", ksym)), 0, n_hi)
        sym = ("idx", ivar("k")) if k_n.const == 1 else mk_sym("mul", ("idx", ivar("k")), ksym)
        if sym is None:
            return None
        elem = Num(kinds=INT, rng=Interval(0.0, hi_n.rng.hi if hi_n.rng is not None else INF, False, True), deg=F0, sym=sym, prov=_prov(*nums))
        return Seq(length, elem, "k", None, None, frozenset({"range", "stride"}), "iter")

    def b_iter(self, args, kwargs, node, state):
        I = self.I
        s = I.to_seq(args[0], state, node)
        if s is None or state.bottom:
            return Bottom()
        return I.alloc(state, IterObj(s), node, "iter")

    def b_next(self, args, kwargs, node, state):
        I = self.I
        s = I.to_seq(args[0], state, node)
        if s is None or state.bottom:
            return Bottom()
        return subst_val(s.elem, {s.kvar: STAR})

    def make_set(self, s: Seq, node, state) -> Seq:
        """A set built from a sequence: the distinct elements, in an order that depends on their hashes. For a listed sequence of
        numbers whose pairwise equality is decided (explicit mode) the distinct elements are listed; otherwise one summary element
        at an unknown position and a length between 1 and the source's."""
        I = self.I
        I.event("set-display", node, src=s)
        if s.fixed is not None and all(isinstance(x, Num) for x in s.fixed):
            reps: List[Num] = []
            decided = True
            for x in s.fixed:
                dup = False
                for r in reps:
                    st = state.copy()
                    eq = I.ops.compare(ast.Eq(), x, r, node, st)
                    if eq.tv is True:
                        dup = True
                        break
                    if eq.tv is None:
                        decided = False
                if not dup:
                    reps.append(x)
            if decided:
                elem: Val = Bottom()
                for x in reps:
                    elem = join_val(elem, x)
                return Seq(Length.const(len(reps)), elem if reps else Top("empty"), "k", tuple(reps), None, frozenset({"set-order"}), "set")
        lo = 1 if s.length.lo >= 1 else 0
        return Seq(Length(None, lo, s.length.hi), subst_val(s.elem, {s.kvar: STAR}) if s.length.hi != 0 else Top("empty"), s.kvar, None, s.witness,
                   frozenset(s.flags) | {"set-order", "reordered"}, "set")

    def b_sorted(self, args, kwargs, node, state):
        I = self.I
        s = I.to_seq(args[0], state, node)
        if s is None or state.bottom:
            return Bottom()
        res = self.sort_seq(s, kwargs.get("key"), kwargs.get("reverse"), node, state)
        if state.bottom:
            return Bottom()
        return I.new_list_from_seq(state, res, node, "sorted")

    def sort_seq(self, s: Seq, key, reverse, node, state: State) -> Seq:
        """Abstract stable sort: a fresh permutation symbol, or the inverse of a known permutation when the
        key at position j is pi(j)."""
        I = self.I
        rev = False
        if reverse is not None:
            t = I.truth(state, reverse)
            rev = True if t is True else (None if t is None else False)
        sid = I.site_id("sort", node)
        tok = f"s{sid}"
        e_t = subst_val(s.elem, {s.kvar: ivar(tok)})
        keyval = e_t
        if (key is None or isinstance(key, NoneV)) and isinstance(e_t, TupleV) and e_t.items and isinstance(e_t.items[0], Num):
            # tuples compare lexicographically: the first component decides (completely so when it is a permutation of positions)
            keyval = e_t.items[0]
        if key is not None and not isinstance(key, NoneV):
            st = state.copy()
            keyval = I.call_value(key, [e_t], {}, node, st)
            if st.bottom:
                state.bottom = True
                return s
            # the key function runs once per element; effects (none expected) are joined in
            state.assign_from(I.join(state, st))
        pid = f"p{sid}"
        info = {"node": node, "func": I.cur_func(), "key_given": key is not None and not isinstance(key, NoneV), "reverse": rev,
                "keyval": keyval, "src": s, "length": s.length, "inverse_of": None, "tok": tok}
        inner = None
        if isinstance(keyval, Num) and keyval.sym is not None and keyval.sym[0] == "idx" and rev is False:
            it = keyval.sym[1]
            # key(position j) = pi(j) with pi a known permutation term over the token
            if it[0] == "perm" and it[3] == ivar(tok):
                inner = iperm(it[1], not it[2], ivar(s.kvar))
                info["inverse_of"] = (it[1], it[2])
            elif it == ivar(tok):
                inner = ivar(s.kvar)  # sorting by own position: identity
                info["inverse_of"] = ("id", False)
        if inner is None:
            inner = ("perm", pid, False, ivar(s.kvar))
        I.perms[pid] = info
        I.event("sort", node, pid=pid, info=info)
        I.hook("sort", node, pid, info)
        flags = set(s.flags)
        if s.fixed is not None and len(s.fixed) <= 1:
            return s
        if s.fixed is not None and len(s.fixed) <= 6 and rev is not None:
            conc = self._concrete_sort(s, key, node, state, descending=bool(rev))
            if conc is not None:
                return conc
        elem = subst_val(s.elem, {s.kvar: inner})
        wit = s.witness
        return Seq(s.length, elem, s.kvar, None, wit, frozenset(flags), s.kind)

    def _concrete_sort(self, s: Seq, key, node, state: State, descending: bool = False) -> Optional[Seq]:
        """Stable sort (ascending, or descending as with reverse=True: equal elements keep their order) of a short explicit list
        when every comparison it needs is decided (constants, or the relations assumed between the elements' terms). None when
        some comparison is open."""
        I = self.I
        items = list(s.fixed)
        if key is not None and not isinstance(key, NoneV):
            keys = []
            for x in items:
                st = state.copy()
                kv = I.call_value(key, [x], {}, node, st)
                if st.bottom:
                    return None
                keys.append(kv)
        else:
            keys = items

        def rel(a, b):
            """'LT' / 'EQ' / 'GT' / None (open)"""
            if isinstance(a, TupleV) and isinstance(b, TupleV):
                for x, y in zip(a.items, b.items):
                    r = rel(x, y)
                    if r != "EQ":
                        return r
                return "EQ" if len(a.items) == len(b.items) else ("LT" if len(a.items) < len(b.items) else "GT")
            an, bn = I.as_num(a), I.as_num(b)
            if an is None or bn is None:
                return None
            st = state.copy()
            lt = I.ops.compare(ast.Lt(), an, bn, node, st)
            if lt.tv is True:
                return "LT"
            gt = I.ops.compare(ast.Gt(), an, bn, node, st)
            if gt.tv is True:
                return "GT"
            eq = I.ops.compare(ast.Eq(), an, bn, node, st)
            if eq.tv is True:
                return "EQ"
            return None

        order: List[int] = []
        for i in range(len(items)):
            pos = len(order)
            for j, o in enumerate(order):
                r = rel(keys[i], keys[o])
                if r is None:
                    return None
                if r == ("GT" if descending else "LT"):
                    pos = j
                    break
            # every element after pos must be decided too (stability needs the first strictly greater one)
            order.insert(pos, i)
        out = tuple(items[i] for i in order)
        elem: Val = Bottom()
        for x in out:
            elem = join_val(elem, x)
        return Seq(Length.const(len(out)), elem, s.kvar, out, None, frozenset(s.flags), s.kind)

    def b_reversed(self, args, kwargs, node, state):
        I = self.I
        s = I.to_seq(args[0], state, node)
        if s is None or state.bottom:
            return Bottom()
        if s.fixed is not None:
            items = tuple(reversed(s.fixed))
            return replace(s, fixed=items, kind="iter")
        I.event("reorder", node, how="reversed")
        return Seq(s.length, subst_val(s.elem, {s.kvar: STAR}), s.kvar, None, s.witness, s.flags | {"reordered", "reversed"}, "iter")

    def b_all(self, args, kwargs, node, state):
        return self._allany(args, node, state, True)

    def b_any(self, args, kwargs, node, state):
        return self._allany(args, node, state, False)

    def _allany(self, args, node, state, is_all: bool):
        I = self.I
        s = I.to_seq(args[0], state, node)
        if s is None or state.bottom:
            return Bottom()
        if s.fixed is not None:
            ts = [I.truth(state, x) for x in s.fixed]
            if is_all:
                tv = False if any(t is False for t in ts) else True if all(t is True for t in ts) else None
            else:
                tv = True if any(t is True for t in ts) else False if all(t is False for t in ts) else None
            return Bool(tv, _prov(*s.fixed))
        et = I.truth(state, subst_val(s.elem, {s.kvar: STAR})) if s.length.hi != 0 else (True if is_all else False)
        wt = I.truth(state, s.witness) if s.witness is not None else None
        covering = not (s.flags & {"partial"})
        tv = None
        if is_all:
            if s.witness is not None and wt is False and covering:
                tv = False
            elif et is True and (s.witness is None or wt is True):
                tv = True
            elif et is False and s.length.lo >= 1:
                tv = False
        else:
            if s.witness is not None and wt is True and covering:
                tv = True
            elif et is False and (s.witness is None or wt is False):
                tv = False
            elif et is True and s.length.lo >= 1:
                tv = True
        return Bool(tv, _prov(s.elem))

    def b_super(self, args, kwargs, node, state):
        I = self.I
        if len(args) == 2 and isinstance(args[0], ClassV) and args[0].ci is not None:
            return SuperV(after=args[0].ci, self_val=args[1])
        if not args:
            for fr in reversed(I.stack):
                fi = fr.fi
                if fi is None or fr.node is not fi.node:
                    continue  # comprehension / module frames
                owner = fi
                while owner is not None and owner.cls is None:
                    owner = getattr(owner, "parent", None)
                if owner is None or owner is not fi or not fi.node.args.args:
                    break
                first = state.vars.get((fr.fid, fi.node.args.args[0].arg))
                if first is None:
                    break
                return SuperV(after=fi.cls, self_val=first)
        I.note_undecided("super() outside a method (or with unsupported arguments)", node)
        return Top("super")

    def b_getattr(self, args, kwargs, node, state):
        I = self.I
        I.event("dynamic-attr", node, how="getattr")
        if len(args) >= 2 and isinstance(args[1], Str) and args[1].const is not None:
            st = state.copy()
            v = I.load_attr(args[0], args[1].const, node, st)
            if st.bottom and len(args) == 3:
                return args[2]
            state.assign_from(st)
            return v
        I.note_undecided("getattr with a non-constant name", node)
        return Top("getattr")

    def b_setattr(self, args, kwargs, node, state):
        I = self.I
        I.event("dynamic-attr", node, how="setattr")
        if len(args) == 3 and isinstance(args[1], Str) and args[1].const is not None:
            I.store_attr(args[0], args[1].const, args[2], state, node)
            return NoneV()
        if len(args) == 3 and isinstance(args[0], Ptr):
            I._record_write(state, args[0], "?", node, kind="setattr")
        I.note_undecided("setattr with a non-constant name", node)
        return NoneV()

    def b_delattr(self, args, kwargs, node, state):
        if args and isinstance(args[0], Ptr):
            self.I._record_write(state, args[0], "?", node, kind="delattr")
        return NoneV()

    def b_hasattr(self, args, kwargs, node, state):
        I = self.I
        I.event("dynamic-attr", node, how="hasattr")
        if len(args) == 2 and isinstance(args[1], Str) and args[1].const is not None:
            st = state.copy()
            saved = I.raises[:]
            I.load_attr(args[0], args[1].const, node, st)
            I.raises[:] = saved
            if isinstance(args[0], (Top, Union)):
                return Bool(None)
            return Bool(not st.bottom)
        return Bool(None)

    def b_vars(self, args, kwargs, node, state):
        self.I.event("dynamic-attr", node, how="vars")
        self.I.note_undecided("vars() not modelled", node)
        return Top("vars")

    def _dynamic(self, args, kwargs, node, state):
        self.I.event("dynamic", node)
        self.I.note_undecided("dynamic code execution / IO builtin", node)
        return Top("dynamic")

    b_eval = b_exec = b_open = b_input = b_globals = b_locals = b___import__ = b_compile = _dynamic

    # ==================================================================================
    # math
    # ==================================================================================
    def math_call(self, name: str, args, node, state: State) -> Val:
        r = self._math_call(name, args, node, state)
        I = self.I
        if I.shift_mode and isinstance(r, Num):
            from . import shift

            nums = [I.as_num(a) for a in args]
            if nums and all(n is not None for n in nums):
                if name == "exp":
                    r = replace(r, wt=shift.exp(I, nums[0], node))
                elif name in ("fabs",):
                    r = replace(r, wt=shift.abs_(I, nums[0], node))
                elif name in ("fsum",):
                    pass
                else:
                    w = shift.ZERO
                    for n in nums:
                        w = shift.invariant_only(I, f"math.{name}", n, node) if w is not None else None
                    r = replace(r, wt=w)
        return r

    def _math_call(self, name: str, args, node, state: State) -> Val:
        I = self.I
        nums = [I.as_num(a) for a in args]
        if any(n is None for n in nums):
            if any(isinstance(a, Top) for a in args):
                return Num(kinds=FLOAT)
            if name in ("fsum", "prod") and args:
                s = I.to_seq(args[0], state, node)
                if s is not None:
                    return self.b_sum([args[0]], {}, node, state) if name == "fsum" else Num(kinds=FLOAT)
            I.do_raise(state, "TypeError", node, implicit=True, mro=TYPEERR)
            return Bottom()
        x = nums[0] if nums else None
        prov = _prov(*nums)
        syms = [n.sym for n in nums]
        sym = mk_sym("call", "math." + name, *syms) if nums else None
        if name == "sqrt":
            rng = None
            if x.rng is not None:
                ok = x.rng.ge0()
                I.oblige("sqrt", node, ok, f"sqrt argument range {x.rng} " + ("is >= 0" if ok else "may be negative"), arg=str(x.rng), operands=(x,))
                rng = x.rng.sqrt()
            deg = None if x.deg is None else (POLY if x.deg == POLY else x.deg / 2)
            r_ = Num(kinds=FLOAT, rng=rng, deg=deg, prov=prov, sym=sym)
            I.note_range(r_)
            return r_
        if name == "exp":
            I.ops.need_deg0(x, node, "argument of exp")
            rng = None
            if x.rng is not None:
                ok = x.rng.hi <= EXP_MAX
                I.oblige("exp", node, ok, f"exp argument range {x.rng} " + ("cannot overflow" if ok else "may exceed 709.78 (OverflowError)"), arg=str(x.rng), operands=(x,))
                rng = x.rng.exp()
            return Num(kinds=FLOAT, rng=rng, deg=F0 if x.deg is not None else None, prov=prov, sym=sym)
        if name in ("log", "log2", "log10", "log1p"):
            I.ops.need_deg0(x, node, f"argument of {name}")
            rng = None
            if x.rng is not None:
                ok = x.rng.gt0() if name != "log1p" else x.rng.lo > -1
                I.oblige("log", node, ok, f"{name} argument range {x.rng} " + ("is positive" if ok else "may be <= 0"), operands=(x,))
                rng = Interval.top()
                if ok and name == "log":
                    rng = Interval(math.log(x.rng.lo) if x.rng.lo > 0 else -INF, math.log(x.rng.hi) if x.rng.hi < INF else INF, x.rng.lo_open or x.rng.lo == 0, x.rng.hi_open or x.rng.hi == INF)
            return Num(kinds=FLOAT, rng=rng, deg=F0 if x.deg is not None else None, prov=prov, sym=sym)
        if name in ("erf", "erfc", "tanh", "atan", "sin", "cos", "tan", "sinh", "cosh", "asin", "acos", "gamma", "lgamma"):
            I.ops.need_deg0(x, node, f"argument of {name}")
            table = {"erf": Interval.closed(-1, 1), "erfc": Interval.closed(0, 2), "tanh": Interval.closed(-1, 1), "sin": Interval.closed(-1, 1), "cos": Interval.closed(-1, 1), "atan": Interval.closed(-1.5707963267948966, 1.5707963267948966)}
            rng = None
            if x.rng is not None:
                rng = table.get(name, Interval.top())
                if name in ("erf", "tanh"):
                    # odd, increasing, f(0) = 0
                    if x.rng.ge0():
                        rng = Interval(0.0, 1.0, x.rng.gt0() and False, False)
                    elif x.rng.le0():
                        rng = Interval(-1.0, 0.0, False, False)
                    if x.rng.finite() and abs(x.rng.lo) < 6 and abs(x.rng.hi) < 6:
                        f = math.erf if name == "erf" else math.tanh
                        rng = rng.meet(Interval(f(x.rng.lo) - 1e-15, f(x.rng.hi) + 1e-15, False, False))
                if name == "erfc":
                    # decreasing, erfc(0) = 1, erfc > 0 for finite arguments below ~26.5
                    if x.rng.ge0():
                        rng = Interval(0.0, 1.0, False, False)
                    elif x.rng.le0():
                        rng = Interval(1.0, 2.0, False, False)
                    if x.rng.hi < 26:
                        rng = rng.meet(Interval(math.erfc(x.rng.hi) * (1 - 1e-12), 2.0, False, False))
                    if x.rng.lo > -26 and x.rng.lo > -INF:
                        rng = rng.meet(Interval(0.0, min(math.erfc(x.rng.lo) * (1 + 1e-12), 2.0), False, False))
                if name in ("cosh", "sinh"):
                    ok = x.rng.abs().hi <= 710
                    I.oblige("exp", node, ok, f"{name} argument range {x.rng}", operands=(x,))
                I.axiom(f"math.{name} range {rng}")
            return Num(kinds=FLOAT, rng=rng, deg=F0 if x.deg is not None else None, prov=prov, sym=sym)
        if name in ("fabs",):
            r = I.ops.abs(x, node)
            return replace(r, kinds=FLOAT)
        if name in ("floor", "ceil", "trunc"):
            I.hook("convert", node, name, x)
            rng = None
            if x.rng is not None:
                rng = Interval(math.floor(x.rng.lo) if x.rng.lo > -INF else -INF, math.ceil(x.rng.hi) if x.rng.hi < INF else INF, x.rng.lo == -INF, x.rng.hi == INF)
            return Num(kinds=INT, rng=rng, deg=x.deg, prov=prov, sym=sym)
        if name == "isclose" and I.explicit and len(nums) >= 2:
            # a tolerance test is not a function of the order of its operands: two values that differ may still be "close".
            # Equal terms are close; otherwise the outcome is whatever the run is told to assume (None = open) and the use is recorded.
            a_, b_ = nums[0], nums[1]
            st_ = state.copy()
            eq = I.ops.compare(ast.Eq(), a_, b_, node, st_)
            if eq.tv is True:
                return Bool(True, prov)
            I.tolerance_tests.append((a_.sym, b_.sym))
            return Bool(I.assume_close, prov)
        if name in ("isfinite", "isnan", "isinf", "isclose"):
            return Bool(None, prov)
        if name == "hypot":
            sq = None
            deg = None
            for n in nums:
                s2 = I.ops.binop(ast.Mult(), n, n, node)
                sq = s2 if sq is None else I.ops.binop(ast.Add(), sq, s2, node)
            rng = sq.rng.sqrt() if sq.rng is not None else None
            deg = None if sq.deg is None else (POLY if sq.deg == POLY else sq.deg / 2)
            return Num(kinds=FLOAT, rng=rng, deg=deg, prov=prov, sym=mk_sym("call", "math.sqrt", sq.sym))
        if name == "pow":
            r = I.ops.binop(ast.Pow(), nums[0], nums[1], node)
            return replace(r, kinds=FLOAT)
        if name == "copysign":
            a = I.ops.abs(nums[0], node)
            rng = a.rng.join(a.rng.neg()) if a.rng is not None else None
            return Num(kinds=FLOAT, rng=rng, deg=a.deg, prov=prov, sym=sym)
        if name in ("fsum",):
            return self.b_sum(args, {}, node, state)
        if name in ("factorial", "comb", "perm", "gcd"):
            return Num(kinds=INT, rng=Interval(0, INF, False, True) if x.rng is not None else None, deg=F0, prov=prov, sym=sym)
        if name in ("degrees", "radians", "expm1", "exp2", "cbrt"):
            I.ops.need_deg0(x, node, f"argument of {name}")
            return Num(kinds=FLOAT, rng=Interval.top() if x.rng is not None else None, deg=F0 if x.deg is not None else None, prov=prov, sym=sym)
        I.note_undecided(f"math.{name} not modelled", node)
        return Num(kinds=FLOAT, prov=prov)

    # ==================================================================================
    # statistics.NormalDist (default standard normal)
    # ==================================================================================
    def normal_method(self, name: str, recv: Val, args, node, state: State) -> Val:
        r = self._normal_method(name, recv, args, node, state)
        I = self.I
        if I.shift_mode and isinstance(r, Num) and args:
            from . import shift

            x = I.as_num(args[0])
            if x is not None:
                r = replace(r, wt=shift.invariant_only(I, f"NormalDist.{name}", x, node))
        return r

    def _normal_method(self, name: str, recv: Val, args, node, state: State) -> Val:
        I = self.I
        standard = True
        if isinstance(recv, Ptr):
            d = I.deref(state, recv)
            if d is not None and isinstance(d[0], ExtInst) and d[0].args:
                standard = False
        if name in ("mean", "stdev", "variance", "median", "mode"):
            return Num(kinds=FLOAT)
        if not args:
            I.do_raise(state, "TypeError", node, implicit=True, mro=TYPEERR)
            return Bottom()
        x = I.as_num(args[0])
        if x is None:
            if isinstance(args[0], Top):
                return Num(kinds=FLOAT)
            I.do_raise(state, "TypeError", node, implicit=True, mro=TYPEERR)
            return Bottom()
        if standard:
            I.ops.need_deg0(x, node, f"argument of NormalDist.{name}")
        sym = mk_sym("call", "NormalDist." + name, x.sym)
        deg = F0 if x.deg is not None else None
        if not standard:
            I.note_undecided("non-standard NormalDist instance: transfer functions assume mu=0, sigma=1", node)
        if name == "cdf":
            I.axiom("NormalDist().cdf maps R into [0, 1], non-decreasing, cdf(0) = 1/2")
            rng = None
            if x.rng is not None:
                rng = Interval.closed(0.0, 1.0)
                if x.rng.gt0():
                    rng = Interval(0.5, 1.0, True, False)
                elif x.rng.ge0():
                    rng = Interval(0.5, 1.0, False, False)
                elif x.rng.lt0():
                    rng = Interval(0.0, 0.5, False, True)
                elif x.rng.le0():
                    rng = Interval(0.0, 0.5, False, False)
                if x.rng.finite() and abs(x.rng.lo) < 30 and abs(x.rng.hi) < 30:
                    lo, hi = _STD.cdf(x.rng.lo), _STD.cdf(x.rng.hi)
                    rng = rng.meet(Interval(max(lo - 1e-12, 0.0), min(hi + 1e-12, 1.0), False, False))
            return Num(kinds=FLOAT, rng=rng, deg=deg, prov=x.prov, sym=sym)
        if name == "pdf":
            I.axiom("NormalDist().pdf maps R into [0, 0.39895]")
            rng = Interval.closed(0.0, 0.3989422804014327 + 1e-12) if x.rng is not None else None
            return Num(kinds=FLOAT, rng=rng, deg=deg, prov=x.prov, sym=sym)
        if name == "inv_cdf":
            I.axiom("NormalDist().inv_cdf is defined exactly on (0, 1), increasing, inv_cdf(1/2) = 0")
            rng = None
            if x.rng is not None:
                ok = x.rng.gt0() and (x.rng.hi < 1 or (x.rng.hi == 1 and x.rng.hi_open))
                I.oblige("inv_cdf", node, ok, f"inverse-CDF argument range {x.rng} " + ("lies inside (0, 1)" if ok else "may leave (0, 1) (StatisticsError)"), arg=str(x.rng), operands=(x,))
                rng = Interval.top()
                if ok:
                    lo = _STD.inv_cdf(x.rng.lo) - 1e-9 if x.rng.lo > 0 else -INF
                    hi = _STD.inv_cdf(x.rng.hi) + 1e-9 if x.rng.hi < 1 else INF
                    rng = Interval(lo, hi, lo == -INF, hi == INF)
                    if x.rng.lo > 0.5 or (x.rng.lo == 0.5 and x.rng.lo_open):
                        rng = rng.meet(Interval(0.0, INF, True, True))
            return Num(kinds=FLOAT, rng=rng, deg=deg, prov=x.prov, sym=sym)
        if name == "zscore":
            return replace(x, kinds=FLOAT, sym=sym)
        I.note_undecided(f"NormalDist.{name} not modelled", node)
        return Num(kinds=FLOAT)

    def operator_call(self, name: str, args, node, state: State) -> Val:
        I = self.I
        binops = {"add": ast.Add, "sub": ast.Sub, "mul": ast.Mult, "truediv": ast.Div, "pow": ast.Pow, "floordiv": ast.FloorDiv, "mod": ast.Mod}
        if name in binops and len(args) == 2:
            return I.binop(binops[name](), args[0], args[1], node, state)
        if name == "neg" and len(args) == 1:
            n = I.as_num(args[0])
            if n is not None:
                I.hook("neg", node, n)
                return I.ops.neg(n, node)
        cmps = {"lt": ast.Lt, "le": ast.LtE, "gt": ast.Gt, "ge": ast.GtE, "eq": ast.Eq, "ne": ast.NotEq}
        if name in cmps and len(args) == 2:
            return I.compare(cmps[name](), args[0], args[1], node, state)
        if name == "itemgetter" and len(args) == 1:
            return ExtV(qual="operator.itemgetter()", bound=args[0])
        if name == "attrgetter" and len(args) == 1:
            return ExtV(qual="operator.attrgetter()", bound=args[0])
        I.note_undecided(f"operator.{name} not modelled", node)
        return Top("operator")

    # ==================================================================================
    # callback slot (e.g. the gamma function supplied by the user)
    # ==================================================================================
    def callback(self, name: str, args, kwargs, node, state: State) -> Val:
        I = self.I
        spec = I.callbacks.get(name, {})
        I.event("callback", node, name=name, args=list(args), kwargs=dict(kwargs))
        res = spec.get("result")
        if res is None:
            return Num(kinds=FLOAT, prov=frozenset({"CALLBACK:" + name}))
        return res


def self_bound(args):
    return args[0]
