"""Container methods, reduce, permutations, deepcopy (part of the Builtins class)."""

from __future__ import annotations

import ast
import math
from dataclasses import replace
from fractions import Fraction
from typing import Any, Dict, List, Optional

from .domains import lift_const
from .state import Build, Cell, DictObj, ExtInst, InstObj, IterObj, ListObj, State
from .values import (
    INF,
    POLY,
    STAR,
    Bool,
    Bottom,
    ClassV,
    ExtV,
    FuncV,
    Interval,
    Length,
    NoneV,
    Num,
    Opaque,
    Ptr,
    Seq,
    Str,
    Top,
    TupleV,
    Union,
    Val,
    ivar,
    join_val,
    subst_val,
)

F0 = Fraction(0)
INT = frozenset({"int"})
TYPEERR = ("TypeError", "Exception")


class ContainerCalls:
    # ==================================================================================
    # list methods
    # ==================================================================================
    def list_method(self, name: str, recv: Ptr, args, kwargs, node, state: State) -> Val:
        I = self.I
        c = state.heap.get(recv.loc)
        if c is None or not isinstance(c.obj, ListObj):
            return Top("list method on non-list")
        if name == "append":
            if len(args) != 1:
                I.do_raise(state, "TypeError", node, implicit=True, mro=TYPEERR)
                return Bottom()
            I._record_container_mutation(state, recv, node, "append")
            I.list_append(state, recv, args[0], node)
            return NoneV()
        if name == "extend":
            self.list_extend(state, recv, args[0], node)
            return NoneV()
        if name in ("insert", "remove", "clear", "reverse", "pop"):
            I._record_container_mutation(state, recv, node, name)
            s = I.list_seq(state, recv)
            I.event("reorder", node, how=name, loc=recv.loc)
            elem = subst_val(s.elem, {s.kvar: STAR})
            res: Val = NoneV()
            if name == "insert" and len(args) == 2:
                elem = args[1] if s.length.hi == 0 else join_val(elem, args[1])
                length = Length(None, s.length.lo + 1, s.length.hi + 1)
            elif name == "clear":
                length = Length.const(0)
            elif name == "pop":
                if s.length.hi == 0:
                    I.do_raise(state, "IndexError", node, implicit=True, mro=("IndexError", "LookupError", "Exception"))
                    return Bottom()
                res = elem
                length = Length(None, max(s.length.lo - 1, 0), max(s.length.hi - 1, 0))
            elif name == "remove":
                length = Length(None, max(s.length.lo - 1, 0), s.length.hi)
                if args and I.value_equal_operand(args[0], state):
                    I.event("valeq-lookup", node, how=name)
            else:
                length = s.length
            fixed = None
            if s.fixed is not None and not c.params and not I.loops:
                items = list(s.fixed)
                try:
                    if name == "reverse":
                        items.reverse()
                    elif name == "clear":
                        items = []
                    elif name == "pop" and (not args or isinstance(getattr(args[0], "const", None), int)):
                        res = items.pop(args[0].const if args else -1)
                    elif name == "insert" and isinstance(getattr(args[0], "const", None), int):
                        items.insert(args[0].const, args[1])
                    else:
                        items = None
                except IndexError:
                    items = None
                if items is not None:
                    fixed = tuple(items)
                    length = Length.const(len(items))
            flags = (s.flags | {"reordered", name}) if fixed is None else s.flags
            state.heap[recv.loc] = replace(c, obj=ListObj(Seq(length, elem, s.kvar, fixed, None, frozenset(flags)), None))
            return res
        if name == "sort":
            I._record_container_mutation(state, recv, node, "sort")
            s = I.list_seq(state, recv)
            res = self.sort_seq(s, kwargs.get("key"), kwargs.get("reverse"), node, state)
            if state.bottom:
                return Bottom()
            c = state.heap.get(recv.loc)
            state.heap[recv.loc] = replace(c, obj=ListObj(replace(res, kind="list"), None))
            return NoneV()
        if name == "copy":
            return I.new_list_from_seq(state, I.list_seq(state, recv), node, "list.copy")
        if name in ("index", "count"):
            s = I.list_seq(state, recv)
            pv = frozenset()
            if args and I.value_equal_operand(args[0], state):
                # the position / count is found with the elements' value equality
                I.event("valeq-lookup", node, how=name)
                pv = frozenset({"VALEQ"})
            return Num(kinds=INT, rng=Interval(0.0, s.length.hi, False, s.length.hi == INF), deg=F0, prov=pv)
        if name in ("__len__",):
            return self.b_len([recv], {}, node, state)
        I.note_undecided(f"list.{name} not modelled", node)
        return Top("list method")

    # ==================================================================================
    # dict methods
    # ==================================================================================
    def dict_method(self, name: str, recv: Ptr, args, kwargs, node, state: State) -> Val:
        I = self.I
        c = state.heap.get(recv.loc)
        if c is None or not isinstance(c.obj, DictObj):
            return Top("dict method on non-dict")
        if name == "values":
            s = self.dict_values_seq(state, recv)
            I.event("dict-values", node, ptr=recv, seq=s)
            return s
        if name == "keys":
            return self.dict_keys_seq(state, recv)
        if name == "items":
            ks, vs = self.dict_keys_seq(state, recv), self.dict_values_seq(state, recv)
            if ks.fixed is not None and vs.fixed is not None:
                items = tuple(TupleV((k, v)) for k, v in zip(ks.fixed, vs.fixed))
                elem: Val = Bottom()
                for x in items:
                    elem = join_val(elem, x)
                return Seq(Length.const(len(items)), elem if items else Top("empty"), "k", items, None, frozenset(), "iter")
            return Seq(ks.length, TupleV((ks.elem, subst_val(vs.elem, {vs.kvar: ivar(ks.kvar)}))), ks.kvar, None, None, ks.flags, "iter")
        if name == "get":
            return self.dict_get(state, recv, args[0], node, strict=False, default=args[1] if len(args) > 1 else None)
        if name == "setdefault":
            cur = self.dict_get(state, recv, args[0], node, strict=False, default=args[1] if len(args) > 1 else NoneV())
            I._record_container_mutation(state, recv, node, "setdefault")
            self.dict_set(state, recv, args[0], cur, node)
            return cur
        if name in ("update", "pop", "popitem", "clear"):
            I._record_container_mutation(state, recv, node, name)
            o = c.obj
            vals = o.val
            if o.fixed:
                vals = Bottom()
                for _, x in o.fixed:
                    vals = join_val(vals, x)
            if name == "update":
                I.note_undecided("dict.update not modelled", node)
            state.heap[recv.loc] = replace(c, obj=DictObj(o.key, vals, Length(None, 0, INF if name == "update" else o.length.hi), None, None, o.flags | {"summary"}))
            if name == "pop":
                return join_val(vals, args[1]) if len(args) > 1 else vals
            return NoneV()
        if name == "copy":
            return I.alloc(state, c.obj, node, "dict.copy")
        I.note_undecided(f"dict.{name} not modelled", node)
        return Top("dict method")

    def iter_method(self, name: str, recv: Ptr, args, node, state: State) -> Val:
        if name == "__next__":
            return self.b_next([recv], {}, node, state)
        return Top("iterator method")

    # ==================================================================================
    # functools.reduce
    # ==================================================================================
    def reduce(self, args, node, state: State) -> Val:
        I = self.I
        if len(args) < 2:
            I.do_raise(state, "TypeError", node, implicit=True, mro=TYPEERR)
            return Bottom()
        f = args[0]
        s = I.to_seq(args[1], state, node)
        if s is None or state.bottom:
            return Bottom()
        has_init = len(args) > 2
        if s.fixed is not None:
            items = list(s.fixed)
            if not has_init:
                if not items:
                    I.do_raise(state, "TypeError", node, implicit=True, mro=TYPEERR)
                    return Bottom()
                acc, items = items[0], items[1:]
            else:
                acc = args[2]
            for x in items:
                acc = I.call_value(f, [acc, x], {}, node, state)
                if state.bottom:
                    return Bottom()
            return acc
        elem = subst_val(s.elem, {s.kvar: STAR})
        if not has_init:
            ok = s.length.lo >= 1
            I.oblige("nonempty", node, ok, f"reduce() without initial value over a sequence with length in [{s.length.lo},{s.length.hi}]")
            acc = elem
            lo, hi = max(s.length.lo - 1, 0), (s.length.hi - 1 if s.length.hi < INF else INF)
        else:
            acc = args[2]
            lo, hi = s.length.lo, s.length.hi
        I.hook("fold", node, "reduce", s, elem, f)
        # recognise a commutative additive fold by evaluating f on two probes (value numbering, no execution)
        fold_sym = None
        en = I.as_num(elem)
        additive = False
        if en is not None:
            px = Num(kinds=en.kinds, sym=("param", "$X"))
            py = Num(kinds=en.kinds, sym=("param", "$Y"))
            stp = state.copy()
            saved = (I.events, I.diags, I.obligations, I.raises, I.hooks, I.undecided)
            I.events, I.diags, I.obligations, I.raises, I.hooks, I.undecided = [], {}, {}, [], {}, []
            try:
                pr = I.call_value(f, [px, py], {}, node, stp)
            finally:
                I.events, I.diags, I.obligations, I.raises, I.hooks, I.undecided = saved
            if isinstance(pr, Num) and pr.sym in (("add", ("param", "$X"), ("param", "$Y")), ("add", ("param", "$Y"), ("param", "$X"))):
                additive = True
        full = not (s.flags & {"partial", "reordered", "building", "weak-append", "cond-append", "multi-append", "unmodelled"})
        if additive and not has_init and s.length.term is not None and full:
            fvn = f"$f{I.site_id('fold', node)}"
            es = subst_val(s.elem, {s.kvar: ivar(fvn)})
            if isinstance(es, Num) and es.sym is not None:
                from .values import mk_sym as _mk

                fold_sym = _mk("fold", ("const", "+"), ("const", fvn), es.sym, ("lenterm", s.length.term))
        I.event("fold", node, how="reduce", seq=s, elem=elem, sym=fold_sym, full=full, additive=additive)
        I.event("reduce", node, fn=f, seq=s, has_init=has_init)
        results: Val = Bottom()
        k = 0
        cap = 70
        while True:
            if k >= lo:
                results = join_val(results, acc)
            if k >= hi:
                break
            st = state.copy()
            nxt = I.call_value(f, [acc, elem], {}, node, st)
            if st.bottom:
                if k < max(lo, 1):
                    state.bottom = True
                    return Bottom()
                break
            state.assign_from(I.join(state, st) if k >= lo else st)
            k += 1
            if nxt == acc:
                results = join_val(results, acc)
                break
            if hi == INF and k >= 8:
                from .values import widen_val

                nxt = widen_val(acc, join_val(acc, nxt))
                if nxt == acc:
                    results = join_val(results, acc)
                    break
            acc = nxt
            if k > cap:
                I.note_undecided("reduce did not stabilise", node)
                results = join_val(results, acc)
                break
        if isinstance(results, Num):
            results = replace(results, sym=fold_sym, const=None)
            if I.shift_mode:
                from . import shift

                en2 = I.as_num(elem)
                results = replace(results, wt=shift.fold_sum(I, en2, s.length.term, node) if (additive and en2 is not None) else None)
        return results

    # ==================================================================================
    # itertools.permutations / combinations (r = 2)
    # ==================================================================================
    def permutations(self, args, node, state: State, ordered: bool) -> Val:
        I = self.I
        s = I.to_seq(args[0], state, node)
        if s is None or state.bottom:
            return Bottom()
        r = args[1] if len(args) > 1 else None
        if not (isinstance(r, Num) and r.const == 2):
            I.note_undecided("permutations/combinations with r != 2 not modelled", node)
            return Top("permutations")
        I.axiom(
            "itertools.permutations(S, 2) emits the ordered pairs of distinct positions grouped by first component in the "
            "order of S, len(S) - 1 per group"
            if ordered
            else "itertools.combinations(S, 2) emits each unordered pair of distinct positions once, (i, j) with i < j"
        )
        if I.explicit and s.fixed is not None and len(s.fixed) <= 5 and s.witness is None:
            # a listed sequence: the pairs are listed too, in the documented order
            import itertools as _it

            idx = list(_it.permutations(range(len(s.fixed)), 2)) if ordered else list(_it.combinations(range(len(s.fixed)), 2))
            items = tuple(TupleV((s.fixed[i], s.fixed[j])) for i, j in idx)
            elem: Val = Bottom()
            for x in items:
                elem = join_val(elem, x)
            return Seq(Length.const(len(items)), elem if items else Top("empty"), "k", items, None, frozenset(), "iter")
        kv = s.kvar
        a = subst_val(s.elem, {kv: ("pa", ivar("k"))})
        b = subst_val(s.elem, {kv: ("pb", ivar("k"))})
        lo, hi = s.length.lo, s.length.hi
        cnt_lo = lo * (lo - 1) if lo >= 1 else 0
        cnt_hi = hi * (hi - 1) if hi < INF else INF
        if not ordered:
            cnt_lo //= 2
            cnt_hi = cnt_hi / 2 if cnt_hi < INF else INF
        length = Length(("pairs" if ordered else "upairs", s.length.term), cnt_lo, cnt_hi)
        pk = f"kp{I.site_id('pairs', node)}"
        a = subst_val(s.elem, {kv: ("pa", ivar(pk))})
        b = subst_val(s.elem, {kv: ("pb", ivar(pk))})
        res = Seq(length, TupleV((a, b)), pk, None, None, s.flags | {"pairs" if ordered else "upairs"}, "iter")
        I.pairs_base[s.length.term] = s.length
        I.event("pairs", node, base=s, ordered=ordered, result=res)
        return res

    # ==================================================================================
    # copy
    # ==================================================================================
    def deepcopy(self, v: Val, state: State, node, depth: int = 0) -> Val:
        I = self.I
        if depth > 6:
            I.note_undecided("deepcopy nesting too deep", node)
            return Top("deepcopy")
        if isinstance(v, (Num, Bool, Str, NoneV, FuncV, ClassV, ExtV, Opaque, Top)):
            return v
        if isinstance(v, TupleV):
            return TupleV(tuple(self.deepcopy(x, state, node, depth + 1) for x in v.items))
        if isinstance(v, Union):
            out: Val = Bottom()
            for o in v.opts:
                out = join_val(out, self.deepcopy(o, state, node, depth + 1))
            return out
        if isinstance(v, Ptr):
            d = I.deref(state, v)
            if d is None:
                return Top("dangling")
            o, env = d
            if isinstance(o, ListObj):
                s = I.list_seq(state, v)
                if s.fixed is not None and len(s.fixed) <= 4:
                    items = []
                    for ui, x in enumerate(s.fixed):
                        # one copy per listed element: the allocation sites below carry the element's position
                        I.unroll_idx.append(ui)
                        try:
                            items.append(self.deepcopy(x, state, node, depth + 1))
                        finally:
                            I.unroll_idx.pop()
                    return I.new_list(state, items, node, f"deepcopy{depth}")
                acc = I.new_list(state, [], node, f"deepcopy{depth}")
                holder = {}

                def bind(elem, st):
                    holder["e"] = elem

                def body(st):
                    r = self.deepcopy(holder["e"], st, node, depth + 1)
                    if not st.bottom:
                        I.list_append(st, acc, r, node)

                I.run_loop(s, node, state, bind, body)
                return acc
            if isinstance(o, InstObj):
                m = o.cls.lookup("__deepcopy__")
                if m is not None:
                    memo = I.alloc(state, DictObj(), node, f"memo{depth}")
                    I.axiom("copy.deepcopy(x) returns x.__deepcopy__(memo) for instances defining it, and rebuilds lists element-wise")
                    return I.call_function(FuncV(fi=m, node=m.node, self_val=v, module=m.module), [memo], {}, node, state)
                p = I.alloc(state, InstObj(o.cls, ()), node, f"deepcopy-{o.cls.name}{depth}")
                c = state.heap[p.loc]
                flds = []
                for n in o.names():
                    fv = I.read_field(state, v, n)
                    flds.append((n, self.deepcopy(fv, state, node, depth + 1)))
                state.heap[p.loc] = replace(c, obj=InstObj(o.cls, tuple(flds)))
                I.event("generic-deepcopy", node, cls=o.cls, src=v, dst=p)
                return p
            if isinstance(o, DictObj):
                return I.alloc(state, o, node, f"deepcopy-dict{depth}")
            return v
        if isinstance(v, Seq):
            return v
        return Top("deepcopy")

    def shallow_copy(self, v: Val, state: State, node) -> Val:
        I = self.I
        if isinstance(v, Ptr):
            d = I.deref(state, v)
            if d is None:
                return Top("dangling")
            o, env = d
            if isinstance(o, ListObj):
                return I.new_list_from_seq(state, I.list_seq(state, v), node, "copy")
            if isinstance(o, InstObj):
                m = o.cls.lookup("__copy__")
                if m is not None:
                    return I.call_function(FuncV(fi=m, node=m.node, self_val=v, module=m.module), [], {}, node, state)
                p = I.alloc(state, InstObj(o.cls, ()), node, f"copy-{o.cls.name}")
                c = state.heap[p.loc]
                flds = [(n, I.read_field(state, v, n)) for n in o.names()]
                state.heap[p.loc] = replace(c, obj=InstObj(o.cls, tuple(flds)))
                I.event("generic-copy", node, cls=o.cls, src=v, dst=p)
                return p
            if isinstance(o, DictObj):
                return I.alloc(state, o, node, "copy-dict")
        return v
