"""Transfer functions (the axioms) for builtins and the stdlib leaves the library uses."""

from __future__ import annotations

import ast
import math
import sys
from dataclasses import replace
from fractions import Fraction
from typing import Any, Dict, List, Optional, Tuple

from .domains import lift_const
from .state import Build, Cell, DictObj, ExtInst, InstObj, IterObj, ListObj, State
from .values import (
    INF,
    POLY,
    STAR,
    Bool,
    Bottom,
    ClassV,
    ExtV,
    FuncV,
    Interval,
    Length,
    NoneV,
    Num,
    Opaque,
    Ptr,
    Seq,
    Str,
    Top,
    TupleV,
    Union,
    Val,
    bool_to_num,
    ivar,
    iperm,
    join_val,
    mk_sym,
    short,
    subst_sym,
    subst_val,
    sym_const,
    sym_has_star,
    sym_index_vars,
)

F0 = Fraction(0)
FLOAT = frozenset({"float"})
INT = frozenset({"int"})

EXC_BASES = {
    "BaseException": [],
    "Exception": ["BaseException"],
    "TypeError": ["Exception"],
    "ValueError": ["Exception"],
    "ArithmeticError": ["Exception"],
    "ZeroDivisionError": ["ArithmeticError"],
    "OverflowError": ["ArithmeticError"],
    "FloatingPointError": ["ArithmeticError"],
    "LookupError": ["Exception"],
    "IndexError": ["LookupError"],
    "KeyError": ["LookupError"],
    "AttributeError": ["Exception"],
    "AssertionError": ["Exception"],
    "RuntimeError": ["Exception"],
    "NotImplementedError": ["RuntimeError"],
    "RecursionError": ["RuntimeError"],
    "StopIteration": ["Exception"],
    "NameError": ["Exception"],
    "UnboundLocalError": ["NameError"],
    "OSError": ["Exception"],
    "UnicodeError": ["ValueError"],
    "StatisticsError": ["ValueError"],
    "Warning": ["Exception"],
    "UserWarning": ["Warning"],
    "DeprecationWarning": ["Warning"],
}

BUILTIN_TYPES = {
    "int", "float", "bool", "str", "list", "tuple", "dict", "set", "frozenset", "object", "complex", "bytes", "type",
}

PURE_FUNCS = {
    "len", "isinstance", "issubclass", "enumerate", "zip", "map", "filter", "sum", "sorted", "reversed", "abs", "max", "min",
    "range", "iter", "next", "all", "any", "round", "id", "hash", "repr", "print", "callable", "getattr", "setattr",
    "hasattr", "vars", "divmod", "pow", "format", "type", "delattr", "globals", "locals", "eval", "exec", "open", "input",
}


def _num(kinds=FLOAT, rng=None, deg=None, prov=frozenset(), sym=None) -> Num:
    return Num(kinds=kinds, rng=rng, deg=deg, prov=prov, sym=sym)


from .bicalls import BuiltinCalls
from .bicalls2 import ContainerCalls


class Builtins(BuiltinCalls, ContainerCalls):
    def __init__(self, interp):
        self.I = interp

    # ==================================================================================
    # name -> value
    # ==================================================================================
    def exc_mro(self, name: str) -> List[str]:
        out = []
        work = [name]
        while work:
            n = work.pop(0)
            if n in out:
                continue
            out.append(n)
            work.extend(EXC_BASES.get(n, [] if n in EXC_BASES else []))
        return out

    def builtin_value(self, name: str) -> Val:
        if name in BUILTIN_TYPES or name in EXC_BASES or name.endswith("Error") or name.endswith("Exception"):
            return ClassV(ext="builtin." + name)
        if name == "NotImplemented":
            return Opaque("NotImplemented", True)
        if name == "Ellipsis":
            return Opaque("ellipsis", True)
        if name in ("True", "False"):
            return Bool(name == "True")
        if name == "None":
            return NoneV()
        return ExtV(qual="builtin." + name)

    def external_value(self, qual: str) -> Val:
        if qual in ("statistics.NormalDist", "uuid.UUID", "collections.OrderedDict", "collections.defaultdict", "collections.Counter", "decimal.Decimal", "fractions.Fraction"):
            return ClassV(ext=qual)
        if qual == "sys.float_info.epsilon":
            self.I.axiom("sys.float_info.epsilon = 2.220446049250313e-16")
            return lift_const(sys.float_info.epsilon)
        if qual == "sys.float_info.max":
            return lift_const(sys.float_info.max)
        if qual == "sys.float_info.min":
            return lift_const(sys.float_info.min)
        if qual == "sys.maxsize":
            return lift_const(sys.maxsize)
        if qual in ("math.pi", "math.e", "math.tau"):
            return lift_const(getattr(math, qual.split(".")[1]))
        if qual == "math.inf":
            return Num(kinds=FLOAT, rng=Interval.top(), deg=F0, const=math.inf)
        if qual == "math.nan":
            return Num(kinds=FLOAT, rng=Interval.top(), deg=None)
        if qual.startswith("typing."):
            return Opaque("typing", True)
        return ExtV(qual=qual)

    def class_of(self, v: Val, state: State) -> Val:
        if isinstance(v, Ptr):
            d = self.I.deref(state, v)
            if d is not None:
                o = d[0]
                if isinstance(o, InstObj):
                    return ClassV(ci=o.cls)
                if isinstance(o, ListObj):
                    return ClassV(ext="builtin.list")
                if isinstance(o, DictObj):
                    return ClassV(ext="builtin.dict")
                if isinstance(o, ExtInst):
                    return ClassV(ext=o.qual)
        if isinstance(v, Num):
            tp = frozenset(self.I.type_test_tags[t] for t in v.prov if t in self.I.type_test_tags)
            if tp:
                self.I.event("type-of-tagged", None, val=v)
            if len(v.kinds) == 1:
                return ClassV(ext="builtin." + next(iter(v.kinds)), prov=tp)
            return ClassV(ext="builtin.?number", prov=tp)
        if isinstance(v, Bool):
            return ClassV(ext="builtin.bool")
        if isinstance(v, Str):
            return ClassV(ext="builtin.str")
        if isinstance(v, NoneV):
            return ClassV(ext="builtin.NoneType")
        if isinstance(v, TupleV):
            return ClassV(ext="builtin.tuple")
        return ClassV(ext="builtin.?" + type(v).__name__)

    # ==================================================================================
    # sequences: helpers
    # ==================================================================================
    def concat(self, state: State, a: Seq, b: Seq, node, tuple_result=False) -> Val:
        if a.fixed is not None and b.fixed is not None:
            items = list(a.fixed) + list(b.fixed)
            if tuple_result:
                return TupleV(tuple(items))
            return self.I.new_list(state, items, node)
        ea = subst_val(a.elem, {a.kvar: STAR})
        eb = subst_val(b.elem, {b.kvar: STAR})
        elem = eb if a.length.hi == 0 else ea if b.length.hi == 0 else join_val(ea, eb)
        la, lb = a.length, b.length
        ka, kb = la.known(), lb.known()
        if ka is not None:
            length = lb.plus(ka)
        elif kb is not None:
            length = la.plus(kb)
        else:
            length = Length(None, la.lo + lb.lo, la.hi + lb.hi)
        seq = Seq(length, elem, "k", None, None, (a.flags | b.flags | {"reordered"}) - {"partial"}, "list")
        return self.I.new_list_from_seq(state, seq, node, "concat")

    def repeat(self, state: State, s: Seq, n: Num, node) -> Val:
        k = n.const if isinstance(n.const, int) else None
        if s.fixed is not None and k is not None and 0 <= k * len(s.fixed) <= 8:
            return self.I.new_list(state, list(s.fixed) * k, node)
        # [x] * n : n copies of the same values (aliases for pointers)
        elem = subst_val(s.elem, {s.kvar: STAR})
        if n.sym is not None and s.fixed is not None and len(s.fixed) == 1:
            lo = int(n.rng.lo) if n.rng is not None and n.rng.lo > -INF else 0
            hi = n.rng.hi if n.rng is not None else INF
            length = Length(n.sym[1] if n.sym[0] == "lenterm" else ("num", n.sym), max(lo, 0), hi)
            seq = Seq(length, s.fixed[0], "k", None, None, frozenset({"repeat"}), "list")
        else:
            seq = Seq(Length(None, 0, INF), elem, "k", None, None, frozenset({"reordered"}), "list")
        return self.I.new_list_from_seq(state, seq, node, "repeat")

    def slice_seq(self, s: Seq, key, node) -> Seq:
        _, lo, hi, step = key

        def c(v):
            if v is None:
                return None
            if isinstance(v, Num) and isinstance(v.const, int):
                return v.const
            return "?"

        lo_c, hi_c, st_c = c(lo), c(hi), c(step)
        if s.fixed is not None and "?" not in (lo_c, hi_c, st_c):
            items = list(s.fixed)[slice(lo_c, hi_c, st_c)]
            elem: Val = Bottom()
            for x in items:
                elem = join_val(elem, x)
            return Seq(Length.const(len(items)), elem if items else Top("empty"), "k", tuple(items), None, s.flags, s.kind)
        full = lo_c in (None, 0) and hi_c is None and st_c in (None, 1)
        if full:
            return replace(s, fixed=s.fixed)
        if st_c in (None, 1):
            ch = self._stride_chunk(s, lo, hi, node)
            if ch is not None:
                return ch
        flags = set(s.flags) | {"partial"}
        length = Length(None, 0, s.length.hi)
        elem = subst_val(s.elem, {s.kvar: STAR})
        kv = s.kvar
        if st_c in (None, 1) and "?" not in (lo_c, hi_c):
            drop = 0
            if lo_c is not None and lo_c > 0:
                drop += lo_c
            if hi_c is not None and hi_c < 0:
                drop += -hi_c
            if (lo_c is None or lo_c >= 0) and (hi_c is None or hi_c < 0):
                length = s.length.plus(-drop)
                if s.length.lo < drop:
                    length = Length(length.term, 0, max(s.length.hi - drop, 0))
                if lo_c in (None, 0):
                    elem = s.elem  # a prefix keeps positions
                    flags.add("prefix")
                elif lo_c == 1 and hi_c is None and not (s.flags & {"reordered", "building", "weak-append", "unmodelled", "dict-order", "partial"}):
                    # xs[1:]: element k of the tail is element k + 1 of xs (the position is named by that integer term)
                    elem = subst_val(s.elem, {s.kvar: ("k", ("add", ("idx", ivar(kv)), ("const", 1)))})
                    flags.add("tail1")
            elif hi_c is not None and hi_c >= 0:
                n = max(hi_c - (lo_c or 0), 0)
                length = Length(None, min(n, max(s.length.lo - (lo_c or 0), 0)), min(n, s.length.hi))
                if lo_c in (None, 0):
                    elem = s.elem
                    flags.add("prefix")
        if st_c not in (None, 1):
            flags.add("reordered")
        return Seq(length, elem, kv, None, None, frozenset(flags), s.kind)

    def _stride_chunk(self, s: Seq, lo, hi, node):
        """L[j*k : j*k + k]: the j-th consecutive k-chunk of L (the slice form of the zip(*[iter(L)] * k) idiom)."""
        from ..poly import p_add, to_poly

        if (isinstance(lo, Num) and isinstance(hi, Num) and isinstance(lo.const, int) and isinstance(hi.const, int) and not isinstance(lo.const, bool)
                and hi.const > lo.const >= 0 and lo.const % (hi.const - lo.const) == 0 and s.fixed is None):
            # constant bounds (an exact number of teams written out): chunk number lo / k
            kc = hi.const - lo.const
            r = self.chunk_pairs(s, Length.const(kc), node, None, False)
            return None if r is None else subst_val(r.elem, {r.kvar: ("c", lo.const // kc)})
        if not (isinstance(lo, Num) and isinstance(hi, Num)) or lo.sym is None or hi.sym is None or lo.sym[0] not in ("mul", "idx"):
            return None
        if lo.sym[0] == "idx":
            pos, ks = lo.sym, ("const", 1)
        else:
            a, b = lo.sym[1], lo.sym[2]
            if a[0] == "idx":
                pos, ks = a, b
            elif b[0] == "idx":
                pos, ks = b, a
            else:
                return None
        if not (isinstance(pos[1], tuple) and pos[1] and pos[1][0] == "v"):
            return None
        pl, pk, ph = to_poly(lo.sym), to_poly(ks), to_poly(hi.sym)
        if pl is None or pk is None or ph is None or ph != p_add(pl, pk):
            return None
        k = Length.const(ks[1]) if ks[0] == "const" else Length(("num", ks), 0, INF)
        self.I.axiom("L[j*k : j*k + k] for j = 0, 1, ... are the consecutive k-chunks of L")
        r = self.chunk_pairs(s, k, node, None, False)
        if r is not None:
            return subst_val(r.elem, {r.kvar: pos[1]})
        return Seq(k, subst_val(s.elem, {s.kvar: STAR}), "c", None, None, frozenset({"chunk", "partial"}), s.kind)

    def contains(self, state: State, item: Val, container: Val, negate: bool, node) -> Val:
        tv = None
        prov = _deep_prov(item)
        if isinstance(container, Ptr):
            d = self.I.deref(state, container)
            if d is not None and isinstance(d[0], DictObj):
                o = d[0]
                ck = _ckey(item)
                if o.fixed is not None and ck is not None:
                    tv = any(k == ck for k, _ in o.fixed)
                elif o.length.hi == 0:
                    tv = False
                self.I.hook("dict-contains", node, container, item)
        seq = self.I.maybe_seq(container, state)
        if seq is not None and seq.length.hi == 0:
            tv = False
        elif seq is not None and seq.fixed is not None and tv is None:
            # a display of classes / constants: membership is decided element by element
            if isinstance(item, ClassV) and all(isinstance(x, ClassV) for x in seq.fixed) and not item.prov:
                tv = any(x.ci is item.ci and x.ext == item.ext for x in seq.fixed)
            else:
                ck = _ckey(item)
                cks = [_ckey(x) for x in seq.fixed]
                if ck is not None and all(k is not None for k in cks):
                    tv = ck in cks
        if tv is not None and negate:
            tv = not tv
        if tv is None and self.I.value_equal_operand(item, state):
            prov = prov | {"VALEQ"}  # membership of an in-program object is decided by its class's value equality
        return Bool(tv, prov)

    # ==================================================================================
    # lists
    # ==================================================================================
    def list_extend(self, state: State, p: Ptr, other: Val, node) -> None:
        I = self.I
        s2 = I.to_seq(other, state, node)
        if s2 is None or state.bottom:
            return
        c = state.heap.get(p.loc)
        if c is None or not isinstance(c.obj, ListObj):
            return
        I._record_container_mutation(state, p, node, "extend")
        s1 = c.obj.seq
        inloop = [l for l in I.loops if l.token not in c.params]
        if s1.fixed is not None and s2.fixed is not None and not inloop and c.obj.build is None:
            items = list(s1.fixed) + list(s2.fixed)
            elem: Val = Bottom()
            for x in items:
                elem = join_val(elem, x)
            state.heap[p.loc] = replace(c, obj=ListObj(Seq(Length.const(len(items)), elem if items else Top("empty"), s1.kvar, tuple(items), None, s1.flags)))
            return
        ea = subst_val(s1.elem, {s1.kvar: STAR})
        eb = subst_val(s2.elem, {s2.kvar: STAR})
        elem = eb if s1.length.hi == 0 else ea if s2.length.hi == 0 else join_val(ea, eb)
        if inloop:
            length = Length(None, s1.length.lo, INF)
        else:
            k1, k2 = s1.length.known(), s2.length.known()
            length = s2.length.plus(k1) if k1 is not None else s1.length.plus(k2) if k2 is not None else Length(None, s1.length.lo + s2.length.lo, s1.length.hi + s2.length.hi)
        state.heap[p.loc] = replace(c, obj=ListObj(Seq(length, elem, "k", None, None, (s1.flags | s2.flags | {"reordered"}) - {"partial"}), None))

    def list_setitem(self, state: State, p: Ptr, key, v: Val, node) -> None:
        c = state.heap[p.loc]
        o = c.obj
        s = o.seq
        it = self.I.index_term(key) if isinstance(key, (Num, Bool)) else STAR
        if s.fixed is not None and it[0] == "c" and -len(s.fixed) <= it[1] < len(s.fixed) and not c.params:
            items = list(s.fixed)
            items[it[1]] = v
            elem: Val = Bottom()
            for x in items:
                elem = join_val(elem, x)
            state.heap[p.loc] = replace(c, obj=ListObj(Seq(s.length, elem, s.kvar, tuple(items), None, s.flags), o.build))
            return
        # weak update of the summary element (position-insensitive from now on)
        vs = subst_val(v, {t: STAR for t in self.I.token_loop})
        elem = join_val(subst_val(s.elem, {s.kvar: STAR}), vs)
        if isinstance(elem, Num):
            elem = replace(elem, prov=elem.prov | {"WEAK"})  # old and new elements joined: which one a later read sees is not tracked
        state.heap[p.loc] = replace(c, obj=ListObj(Seq(s.length, elem, s.kvar, None, None, s.flags | {"index-assigned"}), o.build))

    # ==================================================================================
    # dicts
    # ==================================================================================
    def dict_get(self, state: State, p: Ptr, key, node, strict: bool, default: Optional[Val] = None) -> Val:
        d = self.I.deref(state, p)
        o, env = d
        if "counter" in o.flags:
            r = self._counter_get(state, p, o, env, key, node)
            if r is not None:
                return r
        if strict and "defaultdict" in o.flags:
            # collections.defaultdict: a missing key yields factory() (and stores it; the store is subsumed by the summary)
            fac = self.I.default_factories.get(p.loc)
            ck0 = _ckey(key)
            if o.fixed is not None and ck0 is not None and not env and any(k == ck0 for k, _ in o.fixed):
                return next(v for k, v in o.fixed if k == ck0)  # an explicit dictionary that has the key: no default involved
            dv = self.I.call_value(fac, [], {}, node, state) if fac is not None and not isinstance(fac, NoneV) else None
            if dv is not None and not state.bottom and o.fixed is not None and ck0 is not None and not env:
                self.dict_set(state, p, key, dv, node)  # d[k] on a missing key stores factory() under k
                return dv
            if dv is not None and not state.bottom:
                cur = self.dict_get_plain(state, p, key, node)
                return dv if cur is None else join_val(cur, dv)
        ck = _ckey(key)
        if o.fixed is not None and ck is not None:
            for k, v in o.fixed:
                if k == ck:
                    return subst_val(v, env) if env else v
            if strict:
                self.I.do_raise(state, "KeyError", node, implicit=True, mro=("KeyError", "LookupError", "Exception"))
                return Bottom()
            return default if default is not None else NoneV()
        if o.length.hi == 0:
            if strict:
                self.I.do_raise(state, "KeyError", node, implicit=True, mro=("KeyError", "LookupError", "Exception"))
                return Bottom()
            return default if default is not None else NoneV()
        v = o.val
        if o.keyed is not None and isinstance(key, (Num, Bool)):
            v = subst_val(v, {o.keyed[0]: self.I.index_term(key)})
        elif o.keyed is not None:
            v = subst_val(v, {o.keyed[0]: STAR})
        if o.fixed is not None:
            v = Bottom()
            for _, x in o.fixed:
                v = join_val(v, x)
        v = subst_val(v, env) if env else v
        self.I.hook("dict-get", node, p, key, v)
        kp = _deep_prov(key)
        if kp and isinstance(v, (Num, Bool, Str)):
            v = replace(v, prov=v.prov | kp)  # which entry is read depends on the key
        if not strict:
            v = join_val(v, default if default is not None else NoneV())
        return v

    # ---- collections.Counter(iterable): how often each value occurs; a missing key counts 0
    def counter_new(self, state: State, args, node) -> Val:
        I = self.I
        if not args:
            return I.alloc(state, DictObj(flags=frozenset({"counter"})), node, "Counter")
        s = I.to_seq(args[0], state, node)
        if s is None or state.bottom:
            return Bottom()
        if s.length.hi == 0:
            return I.alloc(state, DictObj(flags=frozenset({"counter"})), node, "Counter")
        elem = subst_val(s.elem, {s.kvar: STAR})
        groups = None
        if s.fixed is not None and len(s.fixed) <= 6 and all(isinstance(x, (Num, Bool, Str)) for x in s.fixed):
            # an explicit short list: group the elements by ==, exactly, when every comparison is decided
            groups = []
            for x in s.fixed:
                hit = None
                for g in groups:
                    t = I.compare(ast.Eq(), x, g[0], node, state)
                    tv = t.tv if isinstance(t, Bool) else None
                    if tv is None:
                        groups = None
                        break
                    if tv:
                        hit = g
                        break
                if groups is None:
                    break
                if hit is not None:
                    hit[1] += 1
                else:
                    groups.append([x, 1])
        n_lo = 1 if s.length.lo >= 1 else 0
        cnt = Num(kinds=INT, rng=Interval(1.0, max(float(s.length.hi), 1.0), False, s.length.hi == INF), deg=F0, prov=_deep_prov(elem))
        length = Length.const(len(groups)) if groups is not None else Length(None, n_lo, s.length.hi)
        p = I.alloc(state, DictObj(elem, cnt, length, None, None, frozenset({"counter", "summary"})), node, "Counter")
        I.counter_info[p.loc] = (s, groups)
        return p

    def _counter_get(self, state: State, p: Ptr, o, env, key, node) -> Optional[Val]:
        I = self.I
        info = I.counter_info.get(p.loc)
        zero = replace(lift_const(0), deg=F0)
        if o.length.hi == 0:
            return zero
        if info is None or env:
            return None
        s, groups = info
        kp = _deep_prov(key)
        if groups is not None and isinstance(key, (Num, Bool, Str)):
            res = None
            for rep, n in groups:
                t = I.compare(ast.Eq(), key, rep, node, state)
                tv = t.tv if isinstance(t, Bool) else None
                if tv is None:
                    res = None
                    break
                if tv:
                    res = n
                    break
            else:
                res = 0
            if res is not None:
                return replace(lift_const(res), deg=F0, prov=kp | _deep_prov(o.key))
        v = o.val
        if isinstance(v, Num):
            v = replace(v, prov=v.prov | kp)
        # lemma L-A (reflexive count): the key is the counted expression at some position of the counted sequence itself
        if (isinstance(key, Num) and key.sym is not None and isinstance(s.elem, Num) and s.elem.sym is not None and not sym_has_star(key.sym)
                and not (s.flags & {"partial", "cond-append", "building", "weak-append", "unmodelled"})):
            toks: set = set()
            sym_index_vars(key.sym, toks)
            for t in sorted(toks):
                if subst_sym(s.elem.sym, {s.kvar: ivar(t)}) == key.sym:
                    I.event("lemma", node, name="L-A", why="the looked-up key is the counted expression at a position of the counted sequence itself: its count includes that element")
                    return v
        return join_val(v, zero)

    def dict_get_plain(self, state: State, p: Ptr, key, node) -> Optional[Val]:
        """Value stored under key if any may exist (None when the dict is certainly empty)."""
        o, env = self.I.deref(state, p)
        if o.length.hi == 0:
            return None
        ck = _ckey(key)
        if o.fixed is not None:
            vals = [v for k, v in o.fixed if ck is None or k == ck]
            if not vals:
                return None
            out: Val = Bottom()
            for v in vals:
                out = join_val(out, v)
            return subst_val(out, env) if env else out
        v = o.val
        if o.keyed is not None and isinstance(key, (Num, Bool)):
            v = subst_val(v, {o.keyed[0]: self.I.index_term(key)})
        return subst_val(v, env) if env else v

    def dict_set(self, state: State, p: Ptr, key, v: Val, node) -> None:
        c = state.heap[p.loc]
        o = c.obj
        ck = _ckey(key)
        inloop = [l for l in self.I.loops if l.token not in c.params]
        if o.fixed is not None and ck is not None and not inloop and not c.params:
            items = [(k, x) for k, x in o.fixed if k != ck] + [(ck, v)]
            kk: Val = Bottom()
            vv: Val = Bottom()
            for _, x in items:
                vv = join_val(vv, x)
            state.heap[p.loc] = replace(c, obj=DictObj(join_val(o.key, key) if o.fixed else key, vv, Length.const(len(items)), tuple(items), None, o.flags))
            return
        toks = {t: STAR for t in self.I.token_loop}
        vs = subst_val(v, toks)
        ks = subst_val(key, toks) if isinstance(key, Val) else Top("key")
        empty = o.length.hi == 0
        oldv = o.val
        if o.fixed:
            oldv = Bottom()
            for _, x in o.fixed:
                oldv = join_val(oldv, x)
        keyed = None
        it = self.I.index_term(key) if isinstance(key, (Num, Bool)) else STAR
        if it != STAR and it[0] == "v" and it[1] in self.I.token_loop:
            self.I.hook("dict-index-key", node, p, key)
        new = DictObj(
            ks if empty else join_val(o.key, ks),
            vs if empty else join_val(oldv, vs),
            Length(None, max(o.length.lo, 1), INF if inloop else o.length.hi + 1),
            None,
            None,
            o.flags | {"summary"},
        )
        state.heap[p.loc] = replace(c, obj=new)

    def dict_keys_seq(self, state: State, p: Ptr) -> Seq:
        o, env = self.I.deref(state, p)
        if o.fixed is not None:
            items = tuple(_key_val(k) for k, _ in o.fixed)
            elem: Val = Bottom()
            for x in items:
                elem = join_val(elem, x)
            return Seq(Length.const(len(items)), elem if items else Top("empty"), "k", items, None, frozenset(), "iter")
        return Seq(o.length, subst_val(o.key, env), "k", None, None, frozenset({"dict-order"}) | self._key_taint(o), "iter")

    @staticmethod
    def _key_taint(o) -> frozenset:
        """Which entries a dictionary with computed keys holds (and how many) depends on the keys' equality: iterating it is
        control dependent on whatever the keys depend on. Encoded as PROV:<tag> flags of the sequence."""
        return frozenset("PROV:" + t for t in _deep_prov(o.key)) if o.fixed is None else frozenset()

    def dict_values_seq(self, state: State, p: Ptr) -> Seq:
        o, env = self.I.deref(state, p)
        if o.fixed is not None:
            items = tuple(subst_val(v, env) for _, v in o.fixed)
            elem: Val = Bottom()
            for x in items:
                elem = join_val(elem, x)
            return Seq(Length.const(len(items)), elem if items else Top("empty"), "k", items, None, frozenset(), "iter")
        return Seq(o.length, subst_val(o.val, env), "k", None, None, frozenset({"dict-order"}) | self._key_taint(o), "iter")

    # ==================================================================================
    # facts derived from refinements (stdlib monotonicity axioms)
    # ==================================================================================
    def derive_facts(self, sym, rng: Interval, state: State, depth: int = 0) -> None:
        """Backward propagation of a refined range through monotone structure (stdlib monotonicity axioms):
        knowing S in rng, derive ranges of sub-terms of S and record them as facts."""
        if sym is None or depth > 12 or not isinstance(sym, tuple):
            return

        def learn(term, iv: Interval):
            if term is None or not isinstance(term, tuple) or term[0] == "const":
                return
            old = state.facts.get(term)
            new = iv if old is None else old.meet(iv)
            if old != new:
                state.facts[term] = new
            self.derive_facts(term, new, state, depth + 1)

        k = sym[0]
        if k == "call" and len(sym) == 3:
            name, y = sym[1], sym[2]
            if name in ("NormalDist.cdf", "fn:phi_major"):
                # non-decreasing, cdf(0) = 1/2
                if rng.hi < 0.5 or (rng.hi == 0.5 and rng.hi_open):
                    self.I.axiom("the normal CDF is non-decreasing with cdf(0) = 1/2: cdf(y) < 1/2 implies y < 0")
                    learn(y, Interval(-INF, 0.0, True, True))
                if rng.lo > 0.5 or (rng.lo == 0.5 and rng.lo_open):
                    self.I.axiom("the normal CDF is non-decreasing with cdf(0) = 1/2: cdf(y) > 1/2 implies y > 0")
                    learn(y, Interval(0.0, INF, True, True))
            elif name == "math.erfc":
                # decreasing, erfc(0) = 1
                if rng.hi < 1.0 or (rng.hi == 1.0 and rng.hi_open):
                    self.I.axiom("math.erfc is decreasing with erfc(0) = 1: erfc(y) < 1 implies y > 0")
                    learn(y, Interval(0.0, INF, True, True))
                if rng.lo > 1.0 or (rng.lo == 1.0 and rng.lo_open):
                    self.I.axiom("math.erfc is decreasing with erfc(0) = 1: erfc(y) > 1 implies y < 0")
                    learn(y, Interval(-INF, 0.0, True, True))
            elif name in ("math.erf", "math.tanh"):
                if rng.hi < 0 or (rng.hi == 0 and rng.hi_open):
                    learn(y, Interval(-INF, 0.0, True, True))
                if rng.lo > 0 or (rng.lo == 0 and rng.lo_open):
                    learn(y, Interval(0.0, INF, True, True))
            elif name in ("math.exp",):
                if rng.hi < 1 or (rng.hi == 1 and rng.hi_open):
                    learn(y, Interval(-INF, 0.0, True, True))
                if rng.lo > 1 or (rng.lo == 1 and rng.lo_open):
                    learn(y, Interval(0.0, INF, True, True))
            elif name in ("float",):
                learn(y, rng)
            return
        if k == "neg":
            learn(sym[1], rng.neg())
            return
        if k in ("mul", "div") and len(sym) == 3:
            a, b = sym[1], sym[2]
            ca = a[1] if a is not None and a[0] == "const" and isinstance(a[1], (int, float)) and not isinstance(a[1], bool) else None
            cb = b[1] if b is not None and b[0] == "const" and isinstance(b[1], (int, float)) and not isinstance(b[1], bool) else None
            if k == "mul" and ca not in (None, 0):
                r = rng.mul(Interval.point(1.0 / ca))
                learn(b, r)
            elif k == "mul" and cb not in (None, 0):
                learn(a, rng.mul(Interval.point(1.0 / cb)))
            elif k == "div" and cb not in (None, 0):
                learn(a, rng.mul(Interval.point(float(cb))))
            elif k == "div" and b is not None and b[0] == "call" and b[1] == "math.sqrt" and b[2] is not None and b[2][0] == "const" and isinstance(b[2][1], (int, float)) and b[2][1] > 0:
                import math as _m

                learn(a, rng.mul(Interval.point(_m.sqrt(b[2][1]))))
            return
        if k in ("add", "sub") and len(sym) == 3:
            a, b = sym[1], sym[2]
            if b is not None and b[0] == "const" and isinstance(b[1], (int, float)) and not isinstance(b[1], bool):
                c = Interval.point(float(b[1]))
                learn(a, rng.sub(c) if k == "add" else rng.add(c))
            elif a is not None and a[0] == "const" and isinstance(a[1], (int, float)) and not isinstance(a[1], bool):
                c = Interval.point(float(a[1]))
                learn(b, rng.sub(c) if k == "add" else c.sub(rng))
            return


def _deep_prov(v, depth: int = 0) -> frozenset:
    if depth > 4:
        return frozenset()
    if isinstance(v, (Num, Bool, Str, ClassV)):
        return v.prov
    if isinstance(v, TupleV):
        out = frozenset()
        for x in v.items:
            out |= _deep_prov(x, depth + 1)
        return out
    if isinstance(v, Seq):
        return _deep_prov(v.elem, depth + 1)
    if isinstance(v, Union):
        out = frozenset()
        for x in v.opts:
            out |= _deep_prov(x, depth + 1)
        return out
    return frozenset()


def _ckey(v):
    if isinstance(v, Str) and v.const is not None:
        return ("s", v.const)
    if isinstance(v, Num) and v.const is not None:
        return ("n", v.const)
    if isinstance(v, Bool) and v.tv is not None:
        return ("n", int(v.tv))
    return None


def _key_val(k) -> Val:
    if k[0] == "s":
        return Str(k[1])
    return lift_const(k[1])
