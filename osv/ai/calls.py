"""Call semantics: argument binding, abstract inlining of resolved callees, instantiation."""

from __future__ import annotations

import ast
from dataclasses import replace
from typing import Any, Dict, List, Optional, Tuple

from ..frontend import ClassInfo, FuncInfo, norm_text, strip_docstring
from .expr import Frame
from .state import Cell, DictObj, ExtInst, InstObj, IterObj, ListObj, State, make_bottom
from .values import (
    STAR,
    Length,
    Bool,
    Bottom,
    ClassV,
    ExtV,
    FuncV,
    NoneV,
    Num,
    Opaque,
    Ptr,
    Seq,
    Str,
    Top,
    TupleV,
    Union,
    Val,
    join_val,
    short,
    subst_val,
)

MAX_DEPTH = 16


class CallMixin:
    def eval_Call(self, e: ast.Call, state: State) -> Val:
        fv = self.eval(e.func, state)
        if state.bottom:
            return Bottom()
        args: List[Val] = []
        for a in e.args:
            if isinstance(a, ast.Starred):
                sv = self.eval(a.value, state)
                if state.bottom:
                    return Bottom()
                sq = self.to_seq(sv, state, a)
                if sq is None:
                    return Bottom()
                if sq.fixed is not None:
                    args.extend(sq.fixed)
                else:
                    args.append(("*", sq))
            else:
                args.append(self.eval(a, state))
        kwargs: Dict[str, Val] = {}
        for kw in e.keywords:
            v = self.eval(kw.value, state)
            if kw.arg is None:
                # **mapping: expanded when it is a dict whose entries are all known string keys
                d = self.deref(state, v) if isinstance(v, Ptr) else None
                o = d[0] if d is not None else None
                if isinstance(o, DictObj) and o.fixed is not None and all(k is not None and k[0] == "s" for k, _ in o.fixed):
                    for k, x in o.fixed:
                        kwargs[k[1]] = subst_val(x, d[1]) if d[1] else x
                else:
                    self.note_undecided("**kwargs call with a mapping whose keys are not known", e)
            else:
                kwargs[kw.arg] = v
        if state.bottom:
            return Bottom()
        return self.call_value(fv, args, kwargs, e, state)

    def call_value(self, fv: Val, args: List[Any], kwargs: Dict[str, Val], node, state: State) -> Val:
        if isinstance(fv, Union):
            outs = []
            sts = []
            for o in fv.opts:
                st = state.copy()
                r = self.call_value(o, args, kwargs, node, st)
                if not st.bottom:
                    outs.append(r)
                    sts.append(st)
            if not sts:
                state.bottom = True
                return Bottom()
            state.assign_from(self.join_all(sts))
            out: Val = Bottom()
            for o in outs:
                out = join_val(out, o)
            return out
        if isinstance(fv, FuncV):
            if any(isinstance(a, tuple) for a in args):
                self.note_undecided("call with *args of unknown length", node)
                return Top("star call")
            return self.call_function(fv, args, kwargs, node, state)
        if isinstance(fv, ClassV):
            if fv.ci is not None:
                if any(isinstance(a, tuple) for a in args):
                    self.note_undecided("constructor call with *args of unknown length", node)
                    return Top("star call")
                return self.instantiate(fv.ci, args, kwargs, node, state)
            return self.bi.call_ext_class(fv.ext, args, kwargs, node, state)
        if isinstance(fv, ExtV):
            return self.bi.call(fv, args, kwargs, node, state)
        if isinstance(fv, Top):
            self.note_undecided(f"call of an unknown value ({fv.reason})", node)
            return Top("result of unknown call")
        if isinstance(fv, Ptr):
            d = self.deref(state, fv)
            if d is not None and isinstance(d[0], InstObj):
                m = d[0].cls.lookup("__call__")
                if m is not None:
                    return self.call_function(FuncV(fi=m, node=m.node, self_val=fv, module=m.module), args, kwargs, node, state)
        self.event("not-callable", node, val=fv)
        self.do_raise(state, "TypeError", node, implicit=True, mro=("TypeError", "Exception"))
        return Bottom()

    # ---------------------------------------------------------------- defaults
    def _eval_defaults(self, fv: FuncV, state: State) -> None:
        a = fv.node.args
        vals = []
        for d in list(a.defaults) + [d for d in a.kw_defaults if d is not None]:
            vals.append(self.eval(d, state))
        self.default_cache[id(fv.node)] = vals

    def _defaults_of(self, fv: FuncV, state: State) -> List[Val]:
        key = id(fv.node)
        if key not in self.default_cache:
            a = fv.node.args
            mi = fv.module
            vals = []
            for d in list(a.defaults) + [d for d in a.kw_defaults if d is not None]:
                saved_origin = getattr(self, "_alloc_origin", None)
                self._alloc_origin = "default-arg"
                try:
                    v = self.eval_in_module(mi, d, state, f"<defaults {getattr(fv.fi, 'qualname', 'lambda')}>")
                finally:
                    self._alloc_origin = saved_origin
                if isinstance(v, Ptr) and v.loc in state.heap:
                    state.heap[v.loc] = replace(state.heap[v.loc], origin="default-arg")
                if isinstance(v, (Num, Str)) and v.prov:
                    v = replace(v, prov=v.prov | {"DEFTIME"})  # evaluated once, at definition time
                vals.append(v)
            self.default_cache[key] = vals
        return self.default_cache[key]

    # ---------------------------------------------------------------- binding
    def bind_args(self, fv: FuncV, args: List[Val], kwargs: Dict[str, Val], node, state: State) -> Optional[Dict[str, Val]]:
        a = fv.node.args
        pos = [x.arg for x in list(a.posonlyargs) + list(a.args)]
        kwonly = [x.arg for x in a.kwonlyargs]
        defaults = self._defaults_of(fv, state)
        n_pos_def = len(a.defaults)
        pos_defaults = dict(zip(pos[len(pos) - n_pos_def :], defaults[:n_pos_def]))
        kw_defaults = {}
        j = n_pos_def
        for name, d in zip(kwonly, a.kw_defaults):
            if d is not None:
                kw_defaults[name] = defaults[j]
                j += 1
        bound: Dict[str, Val] = {}
        all_args = list(args)
        if fv.self_val is not None:
            all_args = [fv.self_val] + all_args
        if len(all_args) > len(pos):
            if a.vararg is None:
                self.event("bad-call", node, why="too many positional arguments", fn=getattr(fv.fi, "qualname", "lambda"))
                self.do_raise(state, "TypeError", node, implicit=True, mro=("TypeError", "Exception"))
                return None
            bound[a.vararg.arg] = TupleV(tuple(all_args[len(pos) :]))
            all_args = all_args[: len(pos)]
        elif a.vararg is not None:
            bound[a.vararg.arg] = TupleV(())
        for name, v in zip(pos, all_args):
            bound[name] = v
        extra = {}
        for k, v in kwargs.items():
            if k in bound:
                self.event("bad-call", node, why=f"multiple values for argument {k}")
                self.do_raise(state, "TypeError", node, implicit=True, mro=("TypeError", "Exception"))
                return None
            if k in pos[len(a.posonlyargs) :] or k in kwonly:
                bound[k] = v
            elif a.kwarg is not None:
                extra[k] = v
            else:
                self.event("bad-call", node, why=f"unexpected keyword argument {k}", fn=getattr(fv.fi, "qualname", "lambda"))
                self.do_raise(state, "TypeError", node, implicit=True, mro=("TypeError", "Exception"))
                return None
        if a.kwarg is not None:
            items = tuple((("s", k), v) for k, v in extra.items())
            key: Val = Top("empty")
            val: Val = Top("empty")
            for k, v in extra.items():
                key = Str(k) if isinstance(key, Top) else join_val(key, Str(k))
                val = v if isinstance(val, Top) else join_val(val, v)
            bound[a.kwarg.arg] = self.alloc(state, DictObj(key, val, Length.const(len(items)), items), node, "kwargs")
        for name in pos:
            if name not in bound:
                if name in pos_defaults:
                    bound[name] = pos_defaults[name]
                else:
                    self.event("bad-call", node, why=f"missing argument {name}", fn=getattr(fv.fi, "qualname", "lambda"))
                    self.do_raise(state, "TypeError", node, implicit=True, mro=("TypeError", "Exception"))
                    return None
        for name in kwonly:
            if name not in bound:
                if name in kw_defaults:
                    bound[name] = kw_defaults[name]
                else:
                    self.do_raise(state, "TypeError", node, implicit=True, mro=("TypeError", "Exception"))
                    return None
        return bound

    # ---------------------------------------------------------------- inlining
    def call_function(self, fv: FuncV, args: List[Val], kwargs: Dict[str, Val], node, state: State) -> Val:
        if state.bottom:
            return Bottom()
        if len(self.stack) > MAX_DEPTH or sum(1 for f in self.stack if f.node is fv.node) >= 2:
            self.note_undecided("recursion or inlining depth bound reached", node)
            return Top("recursion")
        h = self.hooks.get("call-args")
        if h is not None:
            self.hook_state = state  # the state in which the call happens, for hooks that build values
            r = h(self, fv, args, kwargs, node)
            if r is not None:
                args, kwargs = r
        bound = self.bind_args(fv, args, kwargs, node, state)
        if bound is None or state.bottom:
            return Bottom()
        fi = fv.fi
        label = fi.fq if fi is not None else f"{getattr(fv.owner, 'fq', fv.module.name if fv.module else '?')}.<lambda>"
        if fi is not None and fi.parent is not None and fv.owner is not None:
            label = fi.fq
        self._fid += 1
        cls = None
        if fi is not None and fi.cls is not None:
            cls = fi.cls
        fr = Frame(self._fid, fi if fi is not None else fv.owner, fv.frame, fv.module, fv.node, label, cls)
        self.frames[fr.fid] = fr
        self.functions_entered.add(label)
        self.event("call", node, callee=label, args=list(args), kwargs=dict(kwargs), fv=fv, bound=bound)
        for k, v in bound.items():
            state.vars[(fr.fid, k)] = v
        pc_at_call = state.pc
        self.stack.append(fr)
        self.call_nodes.append(node)
        saved_ctl, self.ctl = self.ctl, []
        try:
            if isinstance(fv.node, ast.Lambda):
                v = self.eval(fv.node.body, state)
                if not state.bottom:
                    fr.returns.append((state.copy(), v))
                    state.bottom = True
            else:
                if getattr(fv.node, "decorator_list", None):
                    for d in fv.node.decorator_list:
                        ds = ast.unparse(d)
                        if ds not in ("staticmethod", "classmethod", "property"):
                            self.note_undecided(f"decorator @{ds} not modelled", fv.node)
                gen_acc = None
                if _is_generator(fv.node):
                    # a generator function consumed as a whole (for / list / sum ...): its body is evaluated eagerly and the
                    # values it yields are collected in order — every `yield v` appends, `yield from it` extends. send()/throw()
                    # and partial consumption are not modelled (next() on the result reads an element at an unknown position).
                    gen_acc = self.new_list(state, [], fv.node, "generator")
                    fr.gen_acc = gen_acc
                body = strip_docstring(fv.node.body)
                self.exec_block(body, state)
                if not state.bottom:
                    fr.returns.append((state.copy(), NoneV()))
                    state.bottom = True
                if gen_acc is not None:
                    outs = [s_ for s_, _ in fr.returns]
                    if outs:
                        joined = self.join_all(outs)
                        seq_ = self.list_seq(joined, gen_acc)
                        from dataclasses import replace as _rp

                        fr.returns = [(joined, _rp(seq_, kind="iter") if seq_ is not None else NoneV())]
        finally:
            self.stack.pop()
            self.call_nodes.pop()
            self.ctl = saved_ctl
        if not fr.returns:
            # every path raised
            return Bottom()
        out_state = self.join_all([s for s, _ in fr.returns])
        rv: Val = Bottom()
        for s, v in fr.returns:
            rv = join_val(rv, v)
        # drop the callee's locals unless a closure created in it escaped
        escaped = _closure_frames(rv)
        if fr.fid not in escaped and not getattr(self, "keep_frames", False):
            for k in [k for k in out_state.vars if k[0] == fr.fid]:
                del out_state.vars[k]
        out_state.pc = pc_at_call  # the callee's internal control dependences end with the call
        state.assign_from(out_state)
        if self.opaque_funcs and isinstance(rv, Num) and fi is not None and fi.fq in self.opaque_funcs:
            # uninterpreted-function view of the callee (value numbering only): f(args) as an atom
            syms = [a.sym if isinstance(a, Num) else None for a in ([] if fv.self_val is None else []) + list(args)]
            if all(x is not None for x in syms) and not kwargs:
                from .values import mk_sym

                rv = replace(rv, sym=mk_sym("call", "fn:" + fi.name, *syms))
        h = self.hooks.get("call-result")
        if h is not None:
            r = h(self, fv, args, rv, node)
            if r is not None:
                rv = r
        self.event("return", node, callee=label, val=rv)
        return rv

    # ---------------------------------------------------------------- instantiation
    def instantiate(self, ci: ClassInfo, args: List[Val], kwargs: Dict[str, Val], node, state: State) -> Val:
        if ci.lookup("__new__") is not None:
            self.note_undecided(f"{ci.name}.__new__ not modelled", node)
        p = self.alloc(state, InstObj(ci, ()), node, ci.name)
        self.event("instantiate", node, cls=ci, ptr=p)
        init = ci.lookup("__init__")
        if init is not None:
            self.call_function(FuncV(fi=init, node=init.node, self_val=p, module=init.module), args, kwargs, node, state)
            if state.bottom:
                return Bottom()
        elif args or kwargs:
            self.do_raise(state, "TypeError", node, implicit=True, mro=("TypeError", "Exception"))
            return Bottom()
        return p


def _is_generator(fn: ast.AST) -> bool:
    for n in ast.walk(fn):
        if isinstance(n, (ast.Yield, ast.YieldFrom)):
            # only if it belongs to this function, not a nested one
            return True
    return False


def _closure_frames(v: Val) -> set:
    out = set()
    if isinstance(v, FuncV) and v.frame is not None:
        out.add(v.frame)
    elif isinstance(v, TupleV):
        for x in v.items:
            out |= _closure_frames(x)
    elif isinstance(v, Union):
        for x in v.opts:
            out |= _closure_frames(x)
    return out
