"""Role discovery by abstract evaluation (fallback of Program._discover_roles).

When the Rating / TeamRating classes of a model are not named syntactically (class looked up through getattr, wired by
__init_subclass__, ...), the model is constructed abstractly, `rating()` is called and the class of the object it returns
is the Rating role; the TeamRating role is the class of the objects `_calculate_team_ratings` builds for a well-formed
game (or, failing that anchor, the in-program class other than Rating instantiated while predicting).
"""

from __future__ import annotations

from typing import Optional, Tuple

from ..frontend import AnalysisError, ClassInfo, Program, Roles
from .state import InstObj
from .values import ClassV, Ptr, Union


def _inst_class(w, v) -> Optional[ClassInfo]:
    opts = v.opts if isinstance(v, Union) else (v,)
    found = set()
    for o in opts:
        if isinstance(o, Ptr) and o.loc in w.state.heap and isinstance(w.state.heap[o.loc].obj, InstObj):
            found.add(w.state.heap[o.loc].obj.cls)
    return found.pop() if len(found) == 1 else None


def discover_semantic(prog: Program, model: ClassInfo, rating_cls, team_cls, rating_attr: str) -> Tuple[ClassInfo, ClassInfo, str]:
    from .world import World

    roles = Roles(model, rating_cls, team_cls, None, rating_attr)
    try:
        w = World(prog, roles)
        m = w.make_model()
    except AnalysisError as e:
        raise AnalysisError(f"vanished anchor: cannot discover the roles of {model.fq}: {e}")
    if rating_cls is None:
        r = w.call(m, "rating", [], {})
        rating_cls = None if w.state.bottom else _inst_class(w, r)
        if rating_cls is None:
            raise AnalysisError(f"vanished anchor: cannot discover the Rating role of {model.fq} (rating() does not evaluate to an object of one in-program class)")
        roles.rating = rating_cls
    if not rating_attr:
        for n, v in w.state.heap[m.loc].obj.fields:
            if isinstance(v, ClassV) and v.ci is rating_cls:
                rating_attr = n
    if team_cls is None:
        before = set(w.state.heap)
        teams = w.make_teams()
        if model.lookup("_calculate_team_ratings") is not None:
            tr = w.call(m, "_calculate_team_ratings", [teams], {})
            if not w.state.bottom and isinstance(tr, Ptr):
                sq = w.I.list_seq(w.state, tr)
                if sq is not None:
                    team_cls = _inst_class(w, sq.elem)
        if team_cls is None:
            st = w.state
            if st.bottom:
                raise AnalysisError(f"vanished anchor: cannot discover the TeamRating role of {model.fq}")
            w.call(m, "predict_win", [teams], {})
            cands = {c.obj.cls for loc, c in w.state.heap.items() if loc not in before and isinstance(c.obj, InstObj) and c.obj.cls not in (rating_cls, model)}
            cands = {c for c in cands if not c.module.external}
            if len(cands) == 1:
                team_cls = cands.pop()
        if team_cls is None:
            raise AnalysisError(f"vanished anchor: cannot discover the TeamRating role of {model.fq}")
    return rating_cls, team_cls, rating_attr
