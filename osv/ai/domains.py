"""Numeric transfer functions over the reduced product kinds × range × degree × prov × sym.

Each fact is optional: a value seeded without a range (or degree) propagates "unknown"
for that domain and raises no obligation there, so one interpreter serves shape-only,
degree and range runs.
"""

from __future__ import annotations

import ast
import math
from dataclasses import replace
from fractions import Fraction
from typing import Any, Optional

from .values import INF, POLY, Bool, Interval, Num, bool_to_num, has_opq, mk_sym, sym_const, sym_has_star

F0 = Fraction(0)
FLOAT = frozenset({"float"})
INT = frozenset({"int"})
BOOL = frozenset({"bool"})


def lift_const(c) -> Num:
    if isinstance(c, bool):
        return Num(kinds=BOOL, rng=Interval.point(float(c)), deg=F0, const=c, sym=sym_const(c))
    if isinstance(c, int):
        try:
            rng = Interval.point(float(c))
        except OverflowError:
            rng = Interval.top()
        return Num(kinds=INT, rng=rng, deg=POLY if c == 0 else F0, const=c, sym=sym_const(c))
    if isinstance(c, float):
        rng = Interval.point(c) if math.isfinite(c) else Interval.top()
        return Num(kinds=FLOAT, rng=rng, deg=POLY if c == 0 else F0, const=c, sym=sym_const(c))
    raise TypeError(c)


def _res_kinds(a: Num, b: Num, op) -> frozenset:
    if not a.kinds or not b.kinds:
        return frozenset()
    if isinstance(op, ast.Div):
        return FLOAT
    if "float" in a.kinds or "float" in b.kinds:
        if a.kinds == FLOAT or b.kinds == FLOAT:
            return FLOAT
        return frozenset({"int", "float"})
    return INT


def _fold(op, x, y):
    try:
        if isinstance(op, ast.Add):
            return x + y
        if isinstance(op, ast.Sub):
            return x - y
        if isinstance(op, ast.Mult):
            return x * y
        if isinstance(op, ast.Div):
            return x / y
        if isinstance(op, ast.Pow):
            r = x**y
            return r if isinstance(r, (int, float)) else None
        if isinstance(op, ast.FloorDiv):
            return x // y
        if isinstance(op, ast.Mod):
            return x % y
    except Exception:
        return None
    return None


OPNAME = {ast.Add: "add", ast.Sub: "sub", ast.Mult: "mul", ast.Div: "div", ast.Pow: "pow", ast.FloorDiv: "floordiv", ast.Mod: "mod"}


class NumOps:
    def __init__(self, interp):
        self.I = interp

    # ---------------------------------------------------------------- helpers
    def _deg_same(self, a: Num, b: Num, node, what: str):
        da, db = a.deg, b.deg
        if da is None or db is None:
            return None
        if da == POLY:
            return db
        if db == POLY:
            return da
        if da != db:
            self.I.diag(
                "degree",
                "mismatch",
                node,
                f"{what}: operands have homogeneity degrees {da} and {db}",
                ok=False,
                left=str(da),
                right=str(db),
            )
            return da
        self.I.diag("degree", "mismatch", node, "", ok=True)
        return da

    def need_deg0(self, a: Num, node, what: str) -> None:
        if a.deg is None:
            return
        ok = a.deg == POLY or a.deg == F0
        self.I.diag(
            "degree",
            "dimensionless",
            node,
            "" if ok else f"{what} must be dimensionless but has homogeneity degree {a.deg}",
            ok=ok,
            deg=str(a.deg),
        )

    # ---------------------------------------------------------------- binary
    def binop(self, op, a: Num, b: Num, node) -> Num:
        prov = a.prov | b.prov
        kinds = _res_kinds(a, b, op)
        const = None
        if a.const is not None and b.const is not None:
            const = _fold(op, a.const, b.const)
            if const is not None and not isinstance(const, (int, float)):
                const = None
        opname = OPNAME.get(type(op), type(op).__name__.lower())
        if const is not None:
            sym = sym_const(const)
        else:
            sym = mk_sym(opname, a.sym, b.sym)
        rng = None
        deg = None
        ra, rb = a.rng, b.rng
        have_rng = ra is not None and rb is not None
        if isinstance(op, (ast.Add, ast.Sub)):
            deg = self._deg_same(a, b, node, "addition" if isinstance(op, ast.Add) else "subtraction")
            if have_rng:
                rng = ra.add(rb) if isinstance(op, ast.Add) else ra.sub(rb)
                if isinstance(op, ast.Sub) and a.sym is not None and a.sym == b.sym:
                    rng = Interval.point(0.0)
        elif isinstance(op, ast.Mult):
            if a.deg is not None and b.deg is not None:
                deg = POLY if (a.deg == POLY or b.deg == POLY) else a.deg + b.deg
            if have_rng:
                rng = ra.mul(rb)
                if a.sym is not None and a.sym == b.sym:
                    rng = rng.meet(ra.square())
        elif isinstance(op, ast.Div):
            if a.deg is not None and b.deg is not None:
                if b.deg == POLY:
                    deg = None
                elif a.deg == POLY:
                    deg = POLY
                else:
                    deg = a.deg - b.deg
            if have_rng:
                r = ra.div(rb)
                ok = r is not None
                self.I.oblige(
                    "div",
                    node,
                    ok,
                    f"divisor range {rb} " + ("excludes 0" if ok else "may contain 0"),
                    divisor=str(rb),
                    operands=(b,),
                )
                rng = r if r is not None else Interval.top()
                if a.sym is not None and a.sym == b.sym and ok:
                    rng = Interval.point(1.0)
        elif isinstance(op, ast.Pow):
            k = b.const
            if isinstance(k, bool):
                k = int(k)
            if isinstance(k, (int, float)) and float(k).is_integer() and k >= 0:
                k = int(k)
                if a.deg is not None:
                    deg = POLY if a.deg == POLY and k > 0 else (a.deg * k if a.deg != POLY else F0)
                if ra is not None:
                    if k == 0:
                        rng = Interval.point(1.0)
                    elif k == 1:
                        rng = ra
                    elif k == 2:
                        rng = ra.square()
                    else:
                        rng = ra
                        for _ in range(k - 1):
                            rng = rng.mul(ra)
                        if k % 2 == 0:
                            rng = rng.meet(Interval(0.0, INF, False, True))
                    if k >= 2 and ra.finite() and "float" in (a.kinds or FLOAT):
                        # float ** int raises OverflowError (unlike float * float, which silently gives inf)
                        ok = rng.finite()
                        self.I.oblige("pow-overflow", node, ok, f"base range {ra} ** {k} " + ("stays finite" if ok else "exceeds the float range (OverflowError)"), operands=(a,))
                if "float" not in (a.kinds or FLOAT):
                    kinds = INT
            else:
                # non-integer or unknown exponent: base must be positive, exponent dimensionless
                self.need_deg0(b, node, "exponent")
                if isinstance(k, (int, float)) and a.deg is not None and a.deg != POLY:
                    deg = a.deg * Fraction(k).limit_denominator(1000)
                elif a.deg in (F0, POLY):
                    deg = F0
                if ra is not None:
                    ok = ra.gt0()
                    self.I.oblige("pow", node, ok, f"base range {ra} of a non-integer power " + ("is positive" if ok else "may be <= 0"), operands=(a,))
                    rng = Interval(0.0, INF, True, True) if ok else Interval.top()
                kinds = FLOAT if a.kinds else frozenset()
        elif isinstance(op, (ast.FloorDiv, ast.Mod)):
            if a.deg is not None and b.deg is not None:
                if isinstance(op, ast.Mod):
                    deg = self._deg_same(a, b, node, "modulo")
                else:
                    deg = None if b.deg == POLY else (POLY if a.deg == POLY else a.deg - b.deg)
            if have_rng:
                ok = not rb.contains_zero()
                self.I.oblige("div", node, ok, f"divisor range {rb} " + ("excludes 0" if ok else "may contain 0"), operands=(b,))
                rng = Interval.top()
                if isinstance(op, ast.Mod) and rb.gt0() and rb.hi < INF:
                    rng = Interval(0.0, rb.hi, False, True)
        else:
            rng = Interval.top() if have_rng else None
        if const is not None and isinstance(const, (int, float)) and not isinstance(const, bool):
            try:
                if math.isfinite(float(const)):
                    rng = Interval.point(float(const)) if (have_rng or rng is not None) else rng
            except OverflowError:
                pass
        self.I.on_arith(node, opname, a, b, prov)
        res = Num(kinds=kinds, rng=rng, deg=deg, prov=prov, sym=sym, const=const)
        if self.I.shift_mode:
            from . import shift

            res = replace(res, wt=shift.binop(self.I, opname, a, b, node))
        h = self.I.hooks.get("arith-result")
        if h is not None:
            r = h(self.I, node, opname, a, b, res)
            if r is not None:
                res = r
        self.I.note_range(res)
        return res

    # ---------------------------------------------------------------- unary
    def neg(self, a: Num, node) -> Num:
        const = None
        if a.const is not None:
            const = -a.const
        kinds = a.kinds if a.kinds != BOOL else INT
        wt = None
        if self.I.shift_mode:
            from . import shift

            wt = shift.neg(self.I, a, node)
        return Num(
            kinds=kinds,
            rng=a.rng.neg() if a.rng is not None else None,
            deg=a.deg,
            prov=a.prov,
            sym=sym_const(const) if const is not None else mk_sym("neg", a.sym),
            const=const,
            wt=wt,
        )

    def abs(self, a: Num, node) -> Num:
        const = abs(a.const) if a.const is not None else None
        wt = None
        if self.I.shift_mode:
            from . import shift

            wt = shift.abs_(self.I, a, node)
        return Num(
            kinds=a.kinds if a.kinds != BOOL else INT,
            rng=a.rng.abs() if a.rng is not None else None,
            deg=a.deg,
            prov=a.prov,
            sym=sym_const(const) if const is not None else mk_sym("abs", a.sym),
            const=const,
            wt=wt,
        )

    # ---------------------------------------------------------------- comparison
    def compare(self, op, a: Num, b: Num, node, state) -> Bool:
        self._deg_same(a, b, node, "comparison")
        if self.I.shift_mode:
            from . import shift

            shift.compare(self.I, a, b, node)
        prov = a.prov | b.prov
        if self.I.ordinal_tags:
            # a comparison between two values of an ordinal-only source reveals only their order
            prov = prov - (self.I.ordinal_tags & a.prov & b.prov)
        tv: Optional[bool] = None
        rel = None
        if a.const is not None and b.const is not None:
            try:
                x, y = a.const, b.const
                rel = frozenset({"UN" if (x != x or y != y) else ("LT" if x < y else "GT" if x > y else "EQ")})
            except Exception:
                rel = None
        if rel is None and a.sym is not None and b.sym is not None:
            rel = state.rel_lookup(a.sym, b.sym)
            if rel is None and a.sym == b.sym and (not _may_be_nan(a) or self.I.explicit) and not sym_has_star(a.sym):
                rel = frozenset({"EQ"})  # (explicit games: the inputs are finite numbers, a value equals itself)
        if rel and type(op) in _REL_TABLE:
            tvs = {_REL_TABLE[type(op)][r] for r in rel}
            if len(tvs) == 1:
                tv = tvs.pop()
        if tv is None and a.rng is not None and b.rng is not None:
            tv = _cmp_ranges(op, a.rng, b.rng)
        sym = mk_sym("cmp", ("const", type(op).__name__), a.sym, b.sym)
        if tv is None and self.I.explicit and a.sym is not None and b.sym is not None and a.sym != b.sym:
            opq = self.I.opaque_funcs or ()
            if not any(getattr(getattr(fr, "fi", None), "fq", None) in opq for fr in self.I.stack):
                # (guards inside a function that the run treats as uninterpreted are that function's own business)
                self.I.open_cmps.append((a.sym, b.sym))
        self.I.on_compare(node, op, a, b)
        return Bool(tv, prov, sym)


def _may_be_nan(a: Num) -> bool:
    return not a.kinds or "float" in a.kinds


_REL_TABLE = {
    ast.Lt: {"LT": True, "EQ": False, "GT": False, "UN": False},
    ast.LtE: {"LT": True, "EQ": True, "GT": False, "UN": False},
    ast.Gt: {"LT": False, "EQ": False, "GT": True, "UN": False},
    ast.GtE: {"LT": False, "EQ": True, "GT": True, "UN": False},
    ast.Eq: {"LT": False, "EQ": True, "GT": False, "UN": False},
    ast.NotEq: {"LT": True, "EQ": False, "GT": True, "UN": True},
}


def _cmp_ranges(op, a: Interval, b: Interval) -> Optional[bool]:
    def lt(x: Interval, y: Interval) -> bool:  # every x < every y
        return x.hi < y.lo or (x.hi == y.lo and (x.hi_open or y.lo_open))

    def le(x: Interval, y: Interval) -> bool:
        return x.hi <= y.lo

    if isinstance(op, ast.Lt):
        if lt(a, b):
            return True
        if le(b, a):
            return False
    elif isinstance(op, ast.LtE):
        if le(a, b):
            return True
        if lt(b, a):
            return False
    elif isinstance(op, ast.Gt):
        if lt(b, a):
            return True
        if le(a, b):
            return False
    elif isinstance(op, ast.GtE):
        if le(b, a):
            return True
        if lt(a, b):
            return False
    elif isinstance(op, ast.Eq):
        if lt(a, b) or lt(b, a):
            return False
        if a.lo == a.hi == b.lo == b.hi and not (a.lo_open or b.lo_open):
            return True
    elif isinstance(op, ast.NotEq):
        if lt(a, b) or lt(b, a):
            return True
        if a.lo == a.hi == b.lo == b.hi and not (a.lo_open or b.lo_open):
            return False
    return None


def refine_by_compare(op, a: Interval, b: Interval, truth: bool) -> Interval:
    """Refine the range of the left operand knowing (a op b) == truth."""
    if not truth:
        neg = {ast.Lt: ast.GtE, ast.LtE: ast.Gt, ast.Gt: ast.LtE, ast.GtE: ast.Lt, ast.Eq: ast.NotEq, ast.NotEq: ast.Eq}
        op = neg[type(op)]()
    if isinstance(op, ast.Lt):
        return a.meet(Interval(-INF, b.hi, True, True))
    if isinstance(op, ast.LtE):
        return a.meet(Interval(-INF, b.hi, True, b.hi_open))
    if isinstance(op, ast.Gt):
        return a.meet(Interval(b.lo, INF, True, True))
    if isinstance(op, ast.GtE):
        return a.meet(Interval(b.lo, INF, b.lo_open, True))
    if isinstance(op, ast.Eq):
        return a.meet(b)
    return a


def rels_for(op, truth: bool) -> frozenset:
    """Relations between (a, b) consistent with (a op b) == truth."""
    t = _REL_TABLE.get(type(op))
    if t is None:
        return frozenset({"LT", "EQ", "GT", "UN"})
    return frozenset(r for r, v in t.items() if v == truth)


def mirror(op):
    return {ast.Lt: ast.Gt, ast.LtE: ast.GtE, ast.Gt: ast.Lt, ast.GtE: ast.LtE, ast.Eq: ast.Eq, ast.NotEq: ast.NotEq}[
        type(op)
    ]()
