"""The assembled abstract interpreter."""

from __future__ import annotations

from .calls import CallMixin
from .exec import ExecMixin
from .expr import ExprMixin, Frame
from .interp import InterpBase


class Interp(ExecMixin, ExprMixin, CallMixin, InterpBase):
    pass
