"""Statement semantics (control flow, loops, assignments) of the abstract interpreter."""

from __future__ import annotations

import ast
from dataclasses import replace
from typing import Any, Dict, List, Optional, Tuple

from ..frontend import norm_text, strip_docstring
from .domains import refine_by_compare, rels_for, mirror
from .state import Build, Cell, DictObj, ExtInst, InstObj, IterObj, ListObj, LoopCtx, State, join_states, make_bottom
from .values import (
    INF,
    STAR,
    Bool,
    Bottom,
    ClassV,
    ExtV,
    FuncV,
    Interval,
    Length,
    NoneV,
    Num,
    Opaque,
    Ptr,
    Seq,
    Str,
    Top,
    TupleV,
    Union,
    Val,
    ivar,
    mk_sym,
    subst_sym,
    join_val,
    short,
    subst_val,
    widen_val,
)

import os
from fractions import Fraction

F0 = Fraction(0)
INT = frozenset({"int"})

TRACE = bool(os.environ.get('OSV_TRACE'))
UNROLL = 4
ITER_CAP = 70
WIDEN_AFTER = 8


class ExecMixin:
    # ==================================================================================
    # state joins
    # ==================================================================================
    def _reader(self, st: State, loc, idx, fld):
        v = self.read_field_raw(st, loc, idx, fld)
        return v if v is not None else Bottom()

    def join(self, a: State, b: State) -> State:
        return join_states(a, b, self._reader)

    def join_all(self, states: List[State]) -> State:
        out = None
        for s in states:
            if s is None or s.bottom:
                continue
            out = s.copy() if out is None else self.join(out, s)
        return out if out is not None else make_bottom()

    # ==================================================================================
    # blocks and statements
    # ==================================================================================
    def exec_block(self, body: List[ast.stmt], state: State) -> None:
        for st in body:
            if state.bottom:
                return
            self.exec_stmt(st, state)

    def exec_stmt(self, st: ast.stmt, state: State) -> None:
        if TRACE:
            print("  " * len(self.stack), f"[{self.cur_func().split('::')[-1]}:{st.lineno}] {norm_text(st, 70)}")
        m = getattr(self, "exec_" + type(st).__name__, None)
        if m is None:
            self.note_undecided(f"unsupported statement {type(st).__name__}", st)
            return
        m(st, state)

    def exec_Pass(self, st, state):
        pass

    def exec_Expr(self, st, state):
        self.eval(st.value, state)

    def exec_Import(self, st, state):
        self.note_undecided("import inside a function", st)

    exec_ImportFrom = exec_Import

    def exec_Global(self, st, state):
        self.event("global-decl", st, names=list(st.names))
        fr = self.stack[-1]
        for n in st.names:
            fr_globals = getattr(fr, "globals_", None)
            if fr_globals is None:
                fr.globals_ = set()
            fr.globals_.add(n)

    def exec_Nonlocal(self, st, state):
        fr = self.stack[-1]
        if getattr(fr, "nonlocals_", None) is None:
            fr.nonlocals_ = set()
        fr.nonlocals_.update(st.names)

    def exec_Assert(self, st, state):
        t, f = self.branch(st.test, state)
        if not f.bottom:
            self.do_raise(f, "AssertionError", st, mro=("AssertionError", "Exception"))
        state.assign_from(t)

    def exec_Delete(self, st, state):
        for t in st.targets:
            if isinstance(t, ast.Attribute):
                obj = self.eval(t.value, state)
                self._record_write(state, obj, t.attr, st, kind="del-attr")
            elif isinstance(t, ast.Subscript):
                obj = self.eval(t.value, state)
                self._record_container_mutation(state, obj, st, "del-item")
            elif isinstance(t, ast.Name):
                state.vars.pop((self.stack[-1].fid, t.id), None)

    def exec_Return(self, st, state):
        v = self.eval(st.value, state) if st.value is not None else NoneV()
        if state.bottom:
            return
        self.stack[-1].returns.append((state.copy(), v))
        state.bottom = True

    def exec_Raise(self, st, state):
        if st.exc is None:
            self.do_raise(state, "<reraise>", st)
            return
        name, mro = self._exc_class(st.exc, state)
        if st.cause is not None:
            self.eval(st.cause, state)
        self.do_raise(state, name, st, mro=mro)

    def _exc_class(self, e: ast.expr, state: State) -> Tuple[str, Tuple[str, ...]]:
        f = e.func if isinstance(e, ast.Call) else e
        if isinstance(e, ast.Call):
            for a in e.args:
                self.eval(a, state)
        v = self.eval(f, state)
        if isinstance(v, ClassV):
            if v.ci is not None:
                names = [c.name for c in v.ci.mro] + [x.split(".")[-1] for x in v.ci.ext_ancestors()]
                full = []
                for n in names:
                    full.extend(self.bi.exc_mro(n))
                return v.ci.name, tuple(dict.fromkeys(names + full))
            n = v.ext.split(".")[-1]
            return n, tuple(self.bi.exc_mro(n))
        if isinstance(e, ast.Call) and isinstance(v, FuncV):
            # raise helper(...): the helper returns the exception object
            r = self.eval(e, state)
            opts = r.opts if isinstance(r, Union) else (r,)
            names = set()
            for o in opts:
                if isinstance(o, Opaque) and o.tag.startswith("exception:"):
                    names.add(o.tag[len("exception:"):])
                elif isinstance(o, Ptr) and o.loc in state.heap and isinstance(state.heap[o.loc].obj, InstObj):
                    names.add("@" + state.heap[o.loc].obj.cls.fq)
                else:
                    names.add("?")
            if len(names) == 1 and not state.bottom:
                n = names.pop()
                if n.startswith("@"):
                    ci = state.heap[[o for o in opts][0].loc].obj.cls
                    cn = [c.name for c in ci.mro] + [x.split(".")[-1] for x in ci.ext_ancestors()]
                    full = []
                    for x in cn:
                        full.extend(self.bi.exc_mro(x))
                    return ci.name, tuple(dict.fromkeys(cn + full))
                if n != "?":
                    return n, tuple(self.bi.exc_mro(n))
        return f"?{norm_text(f, 40)}", ()

    def exec_FunctionDef(self, st, state):
        fr = self.stack[-1]
        fi = None
        owner = fr.fi
        if owner is not None:
            fi = getattr(owner, "nested", {}).get(st.name)
            if fi is not None and fi.node is not st:
                fi = None
        fv = FuncV(fi=fi, node=st, frame=fr.fid, self_val=None, module=fr.module, owner=owner)
        # defaults are evaluated now
        self._eval_defaults(fv, state)
        state.vars[(fr.fid, st.name)] = fv

    def exec_ClassDef(self, st, state):
        self.note_undecided("class definition inside a function", st)

    # ---------------------------------------------------------------- assignment
    def exec_Assign(self, st, state):
        acc = _accumulate_form(st)
        if acc is not None and (self.hooks.get("aug") is not None or (self.reductions and id(st) in self.reductions[-1])):
            # `T = T op e` (also `T = e + T`, `d[k] = d.get(k, c) + e`): the spelled-out form of `T op= e`
            swapped, twin = acc
            l = self.eval(st.value.left, state)
            r = self.eval(st.value.right, state)
            if state.bottom:
                return
            cur, rhs = (r, l) if swapped else (l, r)
            if self.reductions and id(st) in self.reductions[-1]:
                self.reductions[-1][id(st)].append((rhs, self.loops[-1].token if self.loops else None))
            v = self.binop(st.value.op, l, r, st.value, state)
            h = self.hooks.get("aug")
            if h is not None:
                r_ = h(self, twin, cur, rhs, v, state)
                if r_ is not None:
                    v = r_
            self.assign(st.targets[0], v, state, st)
            return
        if isinstance(st.value, ast.IfExp):
            # `t = a if c else b` is the statement `if c: t = a else: t = b`: each arm keeps its own term and the facts of its branch
            self._assign_ifexp(st, st.value, state)
            return
        v = self.eval(st.value, state)
        if state.bottom:
            return
        for t in st.targets:
            self.assign(t, v, state, st)

    def _assign_ifexp(self, st, e: ast.IfExp, state: State) -> None:
        t, f = self.branch(e.test, state)
        pc0 = state.pc
        for arm, expr in ((t, e.body), (f, e.orelse)):
            if arm.bottom:
                continue
            if isinstance(expr, ast.IfExp):
                sub = getattr(expr, "_osv_assign_twin", None)  # persistent (see _as_load)
                if sub is None:
                    sub = ast.Assign(targets=st.targets, value=expr)
                    ast.copy_location(sub, st)
                    expr._osv_assign_twin = sub
                self._assign_ifexp(sub, expr, arm)
                continue
            v = self.eval(expr, arm)
            if arm.bottom:
                continue
            for tg in st.targets:
                self.assign(tg, v, arm, st)
        out = self.join(t, f)
        out.pc = pc0
        state.assign_from(out)

    def exec_AnnAssign(self, st, state):
        if st.value is None:
            return
        v = self.eval(st.value, state)
        if state.bottom:
            return
        self.assign(st.target, v, state, st)

    def exec_AugAssign(self, st, state):
        load = _as_load(st.target)
        cur = self.eval(load, state)
        rhs = self.eval(st.value, state)
        if state.bottom:
            return
        # list += iterable mutates in place
        if isinstance(cur, Ptr) and isinstance(st.op, ast.Add):
            d = self.deref(state, cur)
            if d is not None and isinstance(d[0], ListObj):
                self.bi.list_extend(state, cur, rhs, st)
                return
        if self.reductions and id(st) in self.reductions[-1]:
            self.reductions[-1][id(st)].append((rhs, self.loops[-1].token if self.loops else None))
        v = self.binop(st.op, cur, rhs, st, state)
        h = self.hooks.get("aug")
        if h is not None:
            r = h(self, st, cur, rhs, v, state)
            if r is not None:
                v = r
        self.assign(st.target, v, state, st)

    def assign(self, target, v: Val, state: State, st) -> None:
        if state.bottom:
            return
        if isinstance(target, ast.Name):
            self.set_var(target.id, v, state, target)
        elif isinstance(target, (ast.Tuple, ast.List)):
            items = self.unpack(v, len(target.elts), state, st, any(isinstance(e, ast.Starred) for e in target.elts))
            if items is None:
                return
            for e, x in zip(target.elts, items):
                if isinstance(e, ast.Starred):
                    self.assign(e.value, x, state, st)
                else:
                    self.assign(e, x, state, st)
        elif isinstance(target, ast.Attribute):
            obj = self.eval(target.value, state)
            if state.bottom:
                return
            self.store_attr(obj, target.attr, v, state, st)
        elif isinstance(target, ast.Subscript):
            obj = self.eval(target.value, state)
            key = self.eval_slice(target.slice, state)
            if state.bottom:
                return
            self.store_subscript(obj, key, v, state, st)
        elif isinstance(target, ast.Starred):
            self.assign(target.value, v, state, st)
        else:
            self.note_undecided(f"unsupported assignment target {type(target).__name__}", st)

    def set_var(self, name: str, v: Val, state: State, site=None) -> None:
        fr = self.stack[-1]
        if TRACE and os.environ.get("OSV_TRACE") == "2":
            print("  " * len(self.stack), f"    {name} := {short(v)}")
        if state.pc and isinstance(v, (Num, Bool, Str)):
            v = self.with_pc(v, state)
        if isinstance(v, Num) and v.sym is None and v.const is None and self.number_locals:
            # value numbering of sym-less locals: "the value of this variable in the current iteration of the active loops"
            v = replace(v, sym=("opq", fr.label, name, tuple(l.token for l in self.loops), self.site_id("opq-assign", site)))
        if name in (getattr(fr, "globals_", None) or ()):
            self.event("global-write", None, name=name, module=fr.module.name)
            state.effects = state.effects | {("global", f"{fr.module.name}.{name}")}
            self.global_cache[(fr.module.name, name)] = v
            return
        if name in (getattr(fr, "nonlocals_", None) or ()):
            f = fr.parent
            while f is not None:
                if (f, name) in state.vars:
                    state.vars[(f, name)] = v
                    return
                f = self.frames[f].parent
        state.vars[(fr.fid, name)] = v

    def unpack(self, v: Val, n: int, state: State, node, starred: bool = False) -> Optional[List[Val]]:
        if isinstance(v, TupleV):
            if len(v.items) == n and not starred:
                return list(v.items)
        if isinstance(v, Union):
            outs = [self.unpack(o, n, state, node, starred) for o in v.opts if not isinstance(o, NoneV)]
            outs = [o for o in outs if o is not None]
            if outs:
                res = outs[0]
                for o in outs[1:]:
                    res = [join_val(a, b) for a, b in zip(res, o)]
                return res
        seq = self.to_seq(v, state, node)
        if seq is None:
            return None
        if seq.fixed is not None and len(seq.fixed) == n and not starred:
            return list(seq.fixed)
        if seq.length.hi < n - (1 if starred else 0) or (seq.length.lo > n and not starred):
            self.do_raise(state, "ValueError", node, implicit=True, mro=("ValueError", "Exception"))
            return None
        if not starred:
            # a successful unpacking into n targets means the sequence has exactly n elements: target i gets position i
            out = [subst_val(seq.elem, {seq.kvar: ("c", i)}) for i in range(n)]
            if seq.witness is not None:
                out = [join_val(x, seq.witness) for x in out]
            return out
        e = subst_val(seq.elem, {seq.kvar: STAR})
        return [e] * n

    # ---------------------------------------------------------------- if / conditions
    def exec_If(self, st, state):
        t, f = self.branch(st.test, state)
        pc0 = state.pc
        if not t.bottom:
            self.exec_block(st.body, t)
        if not f.bottom and st.orelse:
            self.exec_block(st.orelse, f)
        out = self.join(t, f)
        # control dependence after an early exit: when exactly one arm leaves (return / raise / break / continue), the
        # code that follows runs only under the other arm's condition
        if t.bottom != f.bottom:
            out.pc = (f.pc if t.bottom else t.pc)
        else:
            out.pc = pc0
        state.assign_from(out)

    def branch(self, test: ast.expr, state: State) -> Tuple[State, State]:
        if state.bottom:
            return make_bottom(), make_bottom()
        if isinstance(test, ast.BoolOp):
            if isinstance(test.op, ast.And):
                cur = state.copy()
                falses = []
                for v in test.values:
                    t, f = self.branch(v, cur)
                    falses.append(f)
                    cur = t
                    if cur.bottom:
                        break
                return cur, self.join_all(falses)
            else:
                cur = state.copy()
                trues = []
                for v in test.values:
                    t, f = self.branch(v, cur)
                    trues.append(t)
                    cur = f
                    if cur.bottom:
                        break
                return self.join_all(trues), cur
        if isinstance(test, ast.UnaryOp) and isinstance(test.op, ast.Not):
            t, f = self.branch(test.operand, state)
            return f, t
        work = state.copy()
        val = self.eval(test, work)
        if work.bottom:
            return make_bottom(), make_bottom()
        tv = self.truth(work, val)
        self.event("branch", test, tv=tv, prov=getattr(val, "prov", frozenset()), val=val)
        prov = getattr(val, "prov", frozenset())
        if tv is True:
            t, f = work, make_bottom()
        elif tv is False:
            t, f = make_bottom(), work
        else:
            t, f = work, work.copy()
        if not t.bottom:
            self.refine(test, val, t, True)
            if prov:
                t.pc = t.pc | prov
        if not f.bottom:
            self.refine(test, val, f, False)
            if prov:
                f.pc = f.pc | prov
        return t, f

    def _narrow_target(self, e: ast.expr, state: State, fn) -> None:
        """Apply a value-narrowing function to a variable (Name) in `state`; Bottom kills the state."""
        if isinstance(e, ast.Name):
            key = self.lookup_key(e.id, state)
            if key is None:
                return
            old = state.vars[key]
            new = fn(old)
            if isinstance(new, Bottom):
                state.bottom = True
            else:
                state.vars[key] = new

    def refine(self, test: ast.expr, val: Val, state: State, truth: bool) -> None:
        if isinstance(test, ast.Name):
            self._narrow_target(test, state, lambda v: self.narrow_truth(state, v, truth))
            return
        if isinstance(test, ast.Call) and isinstance(test.func, ast.Name) and test.func.id == "isinstance" and len(test.args) == 2:
            fv = self.eval_quiet(test.func, state)
            if isinstance(fv, ExtV) and fv.qual == "builtin.isinstance":
                cls = self.eval_quiet(test.args[1], state)
                self._narrow_target(test.args[0], state, lambda v: self.narrow_class(state, v, cls, truth))
            return
        if isinstance(test, ast.Compare) and len(test.ops) == 1:
            op = test.ops[0]
            l, r = test.left, test.comparators[0]
            if isinstance(op, (ast.Is, ast.IsNot)):
                want_is = truth if isinstance(op, ast.Is) else not truth
                for a, b in ((l, r), (r, l)):
                    if isinstance(b, ast.Constant) and b.value is None:
                        self._narrow_target(a, state, lambda v: _narrow_none(v, want_is))
                return
            if isinstance(op, (ast.Lt, ast.LtE, ast.Gt, ast.GtE, ast.Eq, ast.NotEq)):
                lv = self.eval_quiet(l, state)
                rv = self.eval_quiet(r, state)
                if isinstance(lv, Bool):
                    lv = None
                if isinstance(lv, Num) and isinstance(rv, Num):
                    self._refine_num(l, lv, op, rv, truth, state)
                    self._refine_num(r, rv, mirror(op), lv, truth, state)
                    if lv.sym is not None and rv.sym is not None and lv.sym != rv.sym:
                        cur = state.rel_lookup(lv.sym, rv.sym)
                        new = rels_for(op, truth)
                        if cur is not None:
                            new = new & cur
                        if not new:
                            state.bottom = True
                            return
                        if lv.sym[0] != "const" or rv.sym[0] != "const":
                            state.rel_set(lv.sym, rv.sym, new)
            return

    def _refine_num(self, expr, v: Num, op, other: Num, truth: bool, state: State) -> None:
        if isinstance(op, ast.NotEq) and truth or isinstance(op, ast.Eq) and not truth:
            return
        if v.rng is None or other.rng is None:
            return
        nr = refine_by_compare(op, v.rng, other.rng, truth)
        if nr.is_empty():
            state.bottom = True
            return
        if nr != v.rng:
            nv = replace(v, rng=nr)
            if isinstance(expr, ast.Name):
                key = self.lookup_key(expr.id, state)
                if key is not None:
                    state.vars[key] = nv
            if v.sym is not None and v.sym[0] != "const":
                state.facts[v.sym] = nr
                self.bi.derive_facts(v.sym, nr, state)

    def apply_facts(self, state: State, v: Val) -> Val:
        if isinstance(v, Num) and v.sym is not None and v.rng is not None and state.facts:
            f = state.facts.get(v.sym)
            if f is not None:
                nr = v.rng.meet(f)
                if not nr.is_empty() and nr != v.rng:
                    return replace(v, rng=nr)
        return v

    # ---------------------------------------------------------------- loops
    def _counted_while(self, st, state):
        """`p = 0` ... `while p < STOP: BODY; p += STEP` with loop-invariant STOP and a positive loop-invariant STEP is
        `for p in range(0, STOP, STEP): BODY`. Returns the equivalent For node (made once, kept on the statement) or None."""
        twin = getattr(st, "_osv_for_twin", 0)
        if twin == 0:
            twin = None
            t = st.test
            last = st.body[-1] if st.body else None
            step = None
            if isinstance(t, ast.Compare) and len(t.ops) == 1 and isinstance(t.ops[0], ast.Lt) and isinstance(t.left, ast.Name) and len(st.body) >= 2:
                p = t.left.id
                if isinstance(last, ast.AugAssign) and isinstance(last.op, ast.Add) and isinstance(last.target, ast.Name) and last.target.id == p:
                    step = last.value
                elif isinstance(last, ast.Assign) and _accumulate_form(last) is not None and isinstance(last.targets[0], ast.Name) and last.targets[0].id == p and isinstance(last.value.op, ast.Add):
                    step = last.value.left if _accumulate_form(last)[0] else last.value.right
            if step is not None:
                stop = t.comparators[0]

                def simple(e) -> bool:
                    if isinstance(e, (ast.Name, ast.Constant)):
                        return True
                    if isinstance(e, ast.BinOp):
                        return simple(e.left) and simple(e.right)
                    return isinstance(e, ast.Call) and isinstance(e.func, ast.Name) and e.func.id == "len" and len(e.args) == 1 and isinstance(e.args[0], ast.Name) and not e.keywords

                names = {n.id for e in (stop, step) for n in ast.walk(e) if isinstance(n, ast.Name)} - {"len"}
                body = st.body[:-1]
                ok = simple(stop) and simple(step) and p not in names
                for b in body:
                    for n in ast.walk(b):
                        if isinstance(n, ast.Name) and isinstance(n.ctx, (ast.Store, ast.Del)) and (n.id == p or n.id in names):
                            ok = False
                        elif isinstance(n, (ast.Continue, ast.Global, ast.Nonlocal, ast.FunctionDef, ast.Lambda)):
                            ok = False
                        elif isinstance(n, ast.Attribute) and isinstance(n.value, ast.Name) and n.value.id in names:
                            ok = False  # a method of an object STOP/STEP read (it might change len())
                        elif isinstance(n, ast.Subscript) and isinstance(n.ctx, (ast.Store, ast.Del)) and isinstance(n.value, ast.Name) and n.value.id in names:
                            ok = False
                        elif isinstance(n, ast.Call) and any(isinstance(a, ast.Name) and a.id in names for a in n.args) and not (isinstance(n.func, ast.Name) and n.func.id in ("len", "sum", "min", "max", "float", "int", "abs")):
                            ok = False  # handed to something that might mutate it
                if ok:
                    rng = ast.Call(func=ast.Name(id="range", ctx=ast.Load()), args=[ast.Constant(value=0), stop, step], keywords=[])
                    twin = ast.For(target=ast.Name(id=p, ctx=ast.Store()), iter=rng, body=body, orelse=st.orelse, type_comment=None)
                    ast.copy_location(twin, st)
                    for n in (rng, rng.func, rng.args[0], twin.target):
                        ast.copy_location(n, st)
            st._osv_for_twin = twin
        if twin is None:
            return None
        key0 = self.lookup_key(twin.target.id, state)
        p0 = state.vars[key0] if key0 is not None else None
        if not (isinstance(p0, Num) and p0.const == 0 and not isinstance(p0.const, bool)):
            return None
        probe = state.copy()
        saved = (self.events, self.diags, self.obligations, self.raises, self.undecided)
        self.events, self.diags, self.obligations, self.raises, self.undecided = [], {}, {}, [], []
        try:
            k = self.eval(twin.iter.args[2], probe)
        finally:
            self.events, self.diags, self.obligations, self.raises, self.undecided = saved
        if probe.bottom or not (isinstance(k, Num) and k.rng is not None and k.rng.lo >= 1 and k.kinds == INT):
            return None
        return twin

    def exec_While(self, st, state):
        twin = self._counted_while(st, state)
        if twin is not None:
            self.exec_For(twin, state)
            if not state.bottom:
                # after the loop the counter is some integer >= STOP (the For leaves its last value)
                self.set_var(twin.target.id, Num(kinds=INT, rng=Interval(0.0, INF, False, True), deg=F0), state, twin.target)
            return
        lid = self.site_id("while", st)
        lc = LoopCtx(lid, f"w{lid}", Length(None, 0, INF), False)
        self.token_loop[lc.token] = lc.loopid
        self.loops.append(lc)
        self.ctl.append(lc)
        exits: List[State] = []
        cur = state.copy()
        n = 0
        try:
            while True:
                t, f = self.branch(st.test, cur)
                exits.append(f)
                if t.bottom:
                    break
                self.exec_block(st.body, t)
                out = self.join_all([t] + lc.continues)
                lc.continues.clear()
                self._ghostify(out, lc)
                self._end_iteration_builds(out, lc)
                n += 1
                if out.bottom:
                    break
                nxt = self._widen_state(cur, out) if n >= WIDEN_AFTER else self.join(cur, out)
                if nxt.same(cur):
                    break
                cur = nxt
                if n > ITER_CAP:
                    self.note_undecided("while loop did not stabilise", st)
                    break
        finally:
            self.loops.pop()
            self.ctl.pop()
        res = self.join_all(exits + lc.breaks)
        had_break = bool(lc.breaks)
        if not res.bottom:
            self._close_loop_overlay(res, lc, True)
            self._finalize_builds(res, lc, True, True)
            self._kill_token(res, lc.token, None)
            if st.orelse and not had_break:
                self.exec_block(st.orelse, res)
        state.assign_from(res)

    @staticmethod
    def _reduction_candidates(st: ast.For):
        """`acc += e` / `acc -= e` as a top-level statement of the loop body, executed exactly once per iteration: no other
        store to acc in the loop, acc not read by e, no break/return in the loop, no continue before the statement."""
        c = getattr(st, "_osv_reductions", None)
        if c is not None:
            return c
        out = []
        if not st.orelse:
            nodes = [n for s_ in st.body for n in ast.walk(s_)]
            if not any(isinstance(n, (ast.Break, ast.Return, ast.Yield, ast.YieldFrom)) for n in nodes):
                for i, s_ in enumerate(st.body):
                    term = None  # the summand expression
                    if isinstance(s_, ast.AugAssign) and isinstance(s_.target, ast.Name) and isinstance(s_.op, (ast.Add, ast.Sub)):
                        name, term, op_ = s_.target.id, s_.value, s_.op
                    elif isinstance(s_, ast.Assign) and _accumulate_form(s_) is not None and isinstance(s_.targets[0], ast.Name) and isinstance(s_.value.op, (ast.Add, ast.Sub)):
                        # acc = acc + e   /   acc = e + acc   /   acc = acc - e
                        name, op_ = s_.targets[0].id, s_.value.op
                        term = s_.value.left if _accumulate_form(s_)[0] else s_.value.right
                    if term is None:
                        continue
                    stores = [n for n in nodes if isinstance(n, ast.Name) and n.id == name and isinstance(n.ctx, (ast.Store, ast.Del))]
                    if len(stores) != 1 or any(isinstance(n, ast.Name) and n.id == name for n in ast.walk(term)):
                        continue
                    if any(isinstance(n, (ast.Continue, ast.Raise)) for e_ in st.body[:i] for n in ast.walk(e_)):
                        continue
                    if any(isinstance(n, (ast.Global, ast.Nonlocal)) for n in nodes):
                        continue
                    out.append((name, s_, 1 if isinstance(op_, ast.Add) else -1))
        st._osv_reductions = out
        return out

    def _close_reductions(self, st, seq: Seq, state: State, cands, entry, rec, outer_tokens) -> None:
        """After the loop: acc = acc_entry (+/-) fold(+, k, e[k], len): the accumulated local gets the fold's term as its value
        number (its interval, degree and provenance stay what the iteration computed)."""
        tail1 = "tail1" in seq.flags
        bad_flags = {"reordered", "building", "weak-append", "cond-append", "multi-append", "unmodelled"} | (set() if tail1 else {"partial"})
        if seq.length.term is None or seq.flags & bad_flags:
            return
        length_term = seq.length.term
        if tail1:
            if not (isinstance(length_term, tuple) and len(length_term) == 3 and length_term[0] == "add" and length_term[2] == -1):
                return
            length_term = length_term[1]
        for name, aug, sign in cands:
            key, v0 = entry[name]
            obs = rec.get(id(aug)) or []
            if key is None or not isinstance(v0, Num) or not obs or (v0.sym is None and v0.const is None):
                continue
            toks = {t for _, t in obs}
            if len(toks) != 1 or None in toks or toks & outer_tokens:
                continue
            tok = toks.pop()
            rhs = obs[0][0]
            if not all(isinstance(r, Num) and r.sym is not None and r.sym == rhs.sym for r, _ in obs):
                continue
            cur = state.vars.get(key)
            if not isinstance(cur, Num):
                continue
            fv = f"$f{self.site_id('fold', aug)}"
            if tail1:
                # acc starts as e(xs[0]) and adds e(xs[k + 1]) over the tail: the fold of e over all of xs (the reduce() idiom)
                from .values import map_sym_indices

                shifted = ("k", ("add", ("idx", ivar(tok)), ("const", 1)))
                if sign < 0 or v0.sym is None or v0.sym != map_sym_indices(rhs.sym, lambda t: ("c", 0) if t == shifted else None):
                    continue
                esym = map_sym_indices(rhs.sym, lambda t: ivar(fv) if t == shifted else None)
                toks_left: set = set()
                from .values import sym_index_vars

                sym_index_vars(esym, toks_left)
                if tok in toks_left:
                    continue
                sym = mk_sym("fold", ("const", "+"), ("const", fv), esym, ("lenterm", length_term))
            else:
                esym = subst_sym(rhs.sym, {tok: ivar(fv)})
                fold = mk_sym("fold", ("const", "+"), ("const", fv), esym, ("lenterm", length_term))
                if sign < 0:
                    fold = mk_sym("neg", fold)
                v0sym = v0.sym if v0.sym is not None else ("const", v0.const)
                sym = fold if (v0.const is not None and v0.const == 0) else mk_sym("add", v0sym, fold)
            wt = cur.wt
            if self.shift_mode:
                from . import shift

                fw = shift.fold_sum(self, rhs, length_term, aug)
                if fw is not None and sign < 0:
                    fw = shift.neg(self, replace(rhs, wt=fw), aug)
                w0 = shift.weight_of(self, v0)
                wt = shift.binop(self, "add", replace(v0, wt=w0), replace(rhs, wt=fw), aug) if fw is not None and w0 is not None else None
            elem_k = subst_val(rhs, {tok: ivar(fv)})
            ev_len = seq.length if not tail1 else Length(length_term, seq.length.lo + 1, seq.length.hi + 1 if seq.length.hi != INF else INF)
            self.event("fold", aug, how="loop", seq=Seq(ev_len, elem_k, fv, None, None, seq.flags - {"partial", "tail1"}, "iter"), elem=rhs, sym=sym, full=True, additive=True)
            self.axiom("a local changed only by one unconditional `acc += e` per iteration holds, after the loop, its entry value plus the sum of e over all iterations")
            state.vars[key] = replace(cur, sym=sym, wt=wt)

    def others_of(self, seq: Seq, target, test: ast.expr, want: str, state: State, node) -> Optional[Seq]:
        """When `test` (with the loop target bound to the element at a generic position) compares that position with the
        position of an enclosing loop over equally many positions — `want` is 'Eq' for a skipping guard, 'NotEq' for a
        selecting one — the loop runs over all positions but the enclosing loop's own: the sequence of the others
        (length len - 1, element at oth(k)). None when the test is anything else."""
        if not (isinstance(test, ast.Compare) and len(test.ops) == 1 and type(test.ops[0]).__name__ == want) or seq.length.term is None or seq.fixed is not None:
            return None
        if seq.flags & {"reordered", "building", "weak-append", "unmodelled", "dict-order", "others-of"} or seq.witness is not None:
            return None
        saved = (self.events, self.diags, self.obligations, self.raises, self.hooks, self.undecided)
        self.events, self.diags, self.obligations, self.raises, self.hooks, self.undecided = [], {}, {}, [], {}, []
        try:
            st2 = state.copy()
            self.assign(target, subst_val(seq.elem, {seq.kvar: ivar("$preview")}), st2, node)
            if st2.bottom:
                return None
            l = self.eval(test.left, st2)
            r = self.eval(test.comparators[0], st2)
            bad = st2.bottom or self.raises or self.undecided
        except Exception:
            return None
        finally:
            self.events, self.diags, self.obligations, self.raises, self.hooks, self.undecided = saved
            for k in [k for k in state.vars if False]:
                pass
        if bad or not (isinstance(l, Num) and isinstance(r, Num)) or l.sym is None or r.sym is None:
            return None
        a, b = l.sym, r.sym
        if b == ("idx", ivar("$preview")):
            a, b = b, a
        if a != ("idx", ivar("$preview")) or b[0] != "idx" or b[1][0] != "v":
            return None
        outer = next((lc for lc in self.loops if lc.token == b[1][1]), None)
        if outer is None or not outer.length.same(seq.length) or outer.seq is None or outer.seq.flags & {"reordered", "others-of"}:
            return None
        ln = seq.length
        self.axiom("a loop that skips exactly the position of an enclosing loop over the same positions visits the other len - 1 positions in order")
        return Seq(Length(("add", ln.term, -1), max(ln.lo - 1, 0), ln.hi - 1 if ln.hi != INF else INF), subst_val(seq.elem, {seq.kvar: ("oth", ivar(seq.kvar))}),
                   seq.kvar, None, None, seq.flags | {"others-of"}, seq.kind)

    @staticmethod
    def _name_unknown_position(elem: Val, token: str) -> Val:
        """The element bound in one iteration is one object even when its position in its family is unknown ('*'): when
        the element holds exactly one such object its unknown coordinates are named oth(token) for the time of the
        iteration, so that two reads through the loop variable denote the same object (and nothing else does)."""
        found = []

        def collect(v, depth=0):
            if depth > 3:
                return
            if isinstance(v, Ptr) and any(i == STAR for i in v.idx):
                if v not in found:
                    found.append(v)
            elif isinstance(v, TupleV):
                for x in v.items:
                    collect(x, depth + 1)

        collect(elem)
        if len(found) != 1:
            return elem
        target = found[0]
        named = Ptr(target.loc, tuple(("oth", ivar(token)) if i == STAR else i for i in target.idx))

        def rebuild(v, depth=0):
            if v == target:
                return named
            if isinstance(v, TupleV) and depth <= 3:
                return TupleV(tuple(rebuild(x, depth + 1) for x in v.items))
            return v

        return rebuild(elem)

    def _widen_state(self, old: State, new: State) -> State:
        self.widened = True  # ranges may have jumped to infinity: an unbounded result is then no evidence of overflow
        j = self.join(old, new)
        for k, v in j.vars.items():
            ov = old.vars.get(k)
            if ov is not None and isinstance(ov, Num) and isinstance(v, Num):
                j.vars[k] = widen_val(ov, v)
        for loc, c in j.heap.items():
            oc = old.heap.get(loc)
            if oc is None or oc == c:
                continue
            if isinstance(c.obj, InstObj) and isinstance(oc.obj, InstObj):
                flds = tuple((n, widen_val(oc.obj.get(n), v) if oc.obj.get(n) is not None else v) for n, v in c.obj.fields)
                j.heap[loc] = replace(c, obj=InstObj(c.obj.cls, flds))
            elif isinstance(c.obj, DictObj) and isinstance(oc.obj, DictObj):
                j.heap[loc] = replace(c, obj=replace(c.obj, val=widen_val(oc.obj.val, c.obj.val)))
            elif isinstance(c.obj, ListObj) and isinstance(oc.obj, ListObj):
                s, os_ = c.obj.seq, oc.obj.seq
                j.heap[loc] = replace(c, obj=replace(c.obj, seq=replace(s, elem=widen_val(os_.elem, s.elem))))
        for k, v in j.overlay.items():
            ov = old.overlay.get(k)
            if ov is not None:
                j.overlay[k] = widen_val(ov, v)
        return j

    def exec_For(self, st, state):
        itv = self.eval(st.iter, state)
        if state.bottom:
            return
        seq = self.to_seq(itv, state, st.iter)
        if seq is None or state.bottom:
            return
        self.event("for", st, seq=seq)
        body = st.body
        # `for b in S: if pos(b) == pos(a): continue; BODY`  (a: an enclosing loop over as many positions)  ==  `for b in S \ {a}: BODY`
        guard = None
        if body and isinstance(body[0], ast.If) and not body[0].orelse and len(body[0].body) == 1 and isinstance(body[0].body[0], ast.Continue):
            guard = (body[0].test, "Eq", body[1:])
        elif len(body) == 1 and isinstance(body[0], ast.If) and not body[0].orelse:
            guard = (body[0].test, "NotEq", body[0].body)
        if guard is not None and guard[2]:
            others = self.others_of(seq, st.target, guard[0], guard[1], state, st)
            if others is not None:
                seq, body = others, guard[2]
        unroll = 30 if self.explicit else UNROLL
        cands = self._reduction_candidates(st) if seq.fixed is None or len(seq.fixed) > unroll else []
        if not cands:
            self.run_loop(seq, st, state, lambda elem, s: self.assign(st.target, elem, s, st), lambda s: self.exec_block(body, s))
        else:
            entry = {}
            for name, aug, sign in cands:
                key = self.lookup_key(name, state)
                entry[name] = (key, state.vars.get(key) if key is not None else None)
            outer_tokens = {l.token for l in self.loops}
            rec: Dict[int, list] = {id(aug): [] for _, aug, _ in cands}
            self.reductions.append(rec)
            try:
                self.run_loop(seq, st, state, lambda elem, s: self.assign(st.target, elem, s, st), lambda s: self.exec_block(body, s))
            finally:
                self.reductions.pop()
            if not state.bottom:
                self._close_reductions(st, seq, state, cands, entry, rec, outer_tokens)
        if st.orelse and not state.bottom:
            self.exec_block(st.orelse, state)

    def run_loop(self, seq: Seq, node, state: State, bind, body) -> None:
        """Abstract `for`: bind(elem, state) then body(state), over all positions of `seq`."""
        frame = self.stack[-1]
        if "set-order" in seq.flags:
            self.event("set-iteration", node, elem=seq.elem, seq=seq)
            if self.explicit and (seq.fixed is None or len(seq.fixed) >= 2):
                self.note_undecided("the iteration order of a set is unspecified (an implementation detail of hashing): a result that depends on it is not modelled", node)
        if seq.fixed is not None and len(seq.fixed) <= (30 if self.explicit else UNROLL) and seq.witness is None:
            # concrete unrolling: no token; the context only collects break/continue
            lid = self.site_id("unrolled", node)
            lc = LoopCtx(lid, f"u{lid}", seq.length, True)
            for ui, x in enumerate(seq.fixed):
                if state.bottom:
                    break
                self.ctl.append(lc)
                self.unroll_idx.append(ui)
                try:
                    bind(x, state)
                    if not state.bottom:
                        body(state)
                finally:
                    self.ctl.pop()
                    self.unroll_idx.pop()
                out = self.join_all([state] + lc.continues)
                lc.continues.clear()
                state.assign_from(out)
            if lc.breaks:
                state.assign_from(self.join_all([state] + lc.breaks))
            if self.number_locals and not state.bottom:
                # as at the exit of a token loop: a local joined over the unrolled iterations (continue / break paths) is numbered
                # here, so that its number depends on the enclosing loops only
                fid = frame.fid
                toks = tuple(l.token for l in self.loops)
                for key, v in list(state.vars.items()):
                    if key[0] == fid and isinstance(v, Num) and v.sym is None and v.const is None:
                        state.vars[key] = replace(v, sym=("opq", frame.label, key[1], toks, self.site_id("opq-loop-exit", node)))
            return
        lid = self.site_id("for", node)
        # coverage of a family parameter's domain is decided by length-term equality at generalisation time;
        # the flags only exclude sequences whose positions are not modelled at all
        covering = not (seq.flags & {"unmodelled", "building", "weak-append"})
        lc = LoopCtx(lid, f"t{lid}", seq.length, covering)
        lc.seq = seq
        self.token_loop[lc.token] = lc.loopid
        elem_t = subst_val(seq.elem, {seq.kvar: ivar(lc.token)})
        elem_t = self._name_unknown_position(elem_t, lc.token)
        lo, hi = seq.length.lo, seq.length.hi

        struct_prov = frozenset(f[5:] for f in seq.flags if isinstance(f, str) and f.startswith("PROV:"))
        pc_before = state.pc

        def one_iteration(start: State, elem: Val) -> State:
            it = start.copy()
            if struct_prov:
                it.pc = it.pc | struct_prov  # whether (and how often) the body runs depends on the keys of the iterated dictionary
            self.loops.append(lc)
            self.ctl.append(lc)
            try:
                bind(elem, it)
                if not it.bottom:
                    body(it)
            finally:
                self.loops.pop()
                self.ctl.pop()
            out = self.join_all([it] + lc.continues)
            lc.continues.clear()
            if not out.bottom:
                self._ghostify(out, lc)
                self._end_iteration_builds(out, lc)
            return out

        exits: List[State] = []
        cur = state.copy()
        k = 0
        n_returns0 = len(frame.returns)
        never_completes = False
        while True:
            if k >= lo:
                exits.append(cur)
            if k >= hi:
                break
            out = one_iteration(cur, elem_t)
            k += 1
            if out.bottom:
                # an ordinary iteration never completes normally: after the first element the loop
                # cannot end normally any more
                never_completes = True
                break
            if (hi == INF and k >= WIDEN_AFTER) or (hi > ITER_CAP - 6 and k >= ITER_CAP - 12):
                # unbounded loops, and bounded ones longer than the iteration cap, are closed by widening
                out = self._widen_state(cur, out)
            if out.same(cur):
                exits.append(out)
                break
            cur = out
            if k > ITER_CAP:
                self.note_undecided("for loop did not stabilise", node)
                exits.append(cur)
                break
        if never_completes:
            exits = [e for e in exits] if lo == 0 else []
            exits = exits[:1] if lo == 0 else []
        n_breaks_main = len(lc.breaks)
        early_exit = n_breaks_main > 0 or len(frame.returns) > n_returns0
        res = self.join_all(exits + lc.breaks)
        # ---- existential witness (shape runs): a full traversal must meet the bad element
        if seq.witness is not None and not (res.bottom and not lc.breaks):
            n_r = len(frame.returns)
            wout = one_iteration(cur, seq.witness)
            w_early = len(lc.breaks) > n_breaks_main or len(frame.returns) > n_r
            if wout.bottom and not w_early:
                if lc.covering and not early_exit:
                    res = make_bottom()
                else:
                    self.event("witness-missed", node, why="partial traversal or early exit before the bad element")
            else:
                res = self.join_all([res, wout] + lc.breaks[n_breaks_main:])
        had_break = bool(lc.breaks)
        if not res.bottom:
            self._close_loop_overlay(res, lc, had_break)
            self._finalize_builds(res, lc, had_break, lo == 0)
            self._kill_token(res, lc.token, None)
            if self.number_locals:
                # value numbering of loop results: a joined (sym-less) local is numbered where the join happens, so that
                # its number depends on the enclosing loops only, not on inner loops that merely read it
                fid = frame.fid
                toks = tuple(l.token for l in self.loops)
                for key, v in list(res.vars.items()):
                    if key[0] == fid and isinstance(v, Num) and v.sym is None and v.const is None:
                        res.vars[key] = replace(v, sym=("opq", frame.label, key[1], toks, self.site_id("opq-loop-exit", node)))
        if struct_prov and not res.bottom:
            res.pc = pc_before
        state.assign_from(res)

    def exec_Break(self, st, state):
        if self.ctl:
            self.ctl[-1].breaks.append(state.copy())
        state.bottom = True

    def exec_Continue(self, st, state):
        if self.ctl:
            self.ctl[-1].continues.append(state.copy())
        state.bottom = True

    # ---------------------------------------------------------------- with / try
    def exec_With(self, st, state):
        for item in st.items:
            v = self.eval(item.context_expr, state)
            if item.optional_vars is not None:
                self.assign(item.optional_vars, Top("context manager"), state, st)
        self.note_undecided("with statement (context manager semantics not modelled)", st)
        self.exec_block(st.body, state)

    def exec_Try(self, st, state):
        self.try_depth += 1
        n0 = len(self.raises)
        entry = state.copy()
        try:
            self.exec_block(st.body, state)
        finally:
            self.try_depth -= 1
        raised = self.raises[n0:]
        caught: List = []
        handler_outs: List[State] = []
        for h in st.handlers:
            names: Optional[List[str]] = None
            if h.type is not None:
                tv = self.eval_quiet(h.type, entry)
                names = []
                for c in tv.items if isinstance(tv, TupleV) else (tv,):
                    if isinstance(c, ClassV):
                        names.append(c.ci.name if c.ci else c.ext.split(".")[-1])
            mine = [
                r
                for r in raised
                if r not in caught and (names is None or any(n in r.data["mro"] for n in names) or not r.data["mro"])
            ]
            # any statement of the body may also raise something unforeseen: the handler may run from entry
            caught.extend(mine)
            starts = [r.data["state"] for r in mine if r.data.get("state") is not None]
            if names is None or any(n in ("Exception", "BaseException") for n in names):
                starts.append(entry)
            if not starts:
                continue
            hs = self.join_all(starts)
            if h.name:
                self.set_var(h.name, Opaque("exception", True), hs)
            self.exec_block(h.body, hs)
            handler_outs.append(hs)
        for r in caught:
            self.raises.remove(r)
        if st.orelse and not state.bottom:
            self.exec_block(st.orelse, state)
        out = self.join_all([state] + handler_outs)
        if st.finalbody:
            if out.bottom:
                fb = entry.copy()
                self.exec_block(st.finalbody, fb)
            else:
                self.exec_block(st.finalbody, out)
        state.assign_from(out)


def _narrow_none(v: Val, want_none: bool) -> Val:
    if isinstance(v, Union):
        keep = [o for o in v.opts if isinstance(o, NoneV) == want_none or isinstance(o, Top)]
        if not keep:
            return Bottom()
        out = keep[0]
        for o in keep[1:]:
            out = join_val(out, o)
        return out
    if isinstance(v, Top):
        return NoneV() if want_none else v
    if isinstance(v, NoneV) != want_none:
        return Bottom()
    return v


def _accumulate_form(st: ast.Assign):
    """`T = T op e`, `T = e + T`, `T[k] = T.get(k, c) op e`: (operands swapped?, the equivalent AugAssign node) or None.
    The twin node is created once and kept on the statement (see _as_load)."""
    got = getattr(st, "_osv_acc_form", 0)
    if got != 0:
        return got
    res = None
    if len(st.targets) == 1 and isinstance(st.value, ast.BinOp) and isinstance(st.value.op, (ast.Add, ast.Sub, ast.Mult)) and isinstance(st.targets[0], (ast.Name, ast.Attribute, ast.Subscript)):
        t = st.targets[0]
        want = ast.dump(_as_load(t))
        l_, r_ = st.value.left, st.value.right
        swapped = None
        if ast.dump(l_) == want:
            swapped = False
        elif (isinstance(t, ast.Subscript) and isinstance(l_, ast.Call) and isinstance(l_.func, ast.Attribute) and l_.func.attr == "get" and len(l_.args) == 2 and not l_.keywords
              and ast.dump(ast.Subscript(value=l_.func.value, slice=l_.args[0], ctx=ast.Load())) == want):
            swapped = False
        elif ast.dump(r_) == want and isinstance(st.value.op, (ast.Add, ast.Mult)):
            swapped = True
        if swapped is not None and not any(ast.dump(n) == want for n in ast.walk(l_ if swapped else r_)):
            twin = ast.AugAssign(target=t, op=st.value.op, value=l_ if swapped else r_)
            ast.copy_location(twin, st)
            res = (swapped, twin)
    st._osv_acc_form = res
    return res


def _as_load(t: ast.expr) -> ast.expr:
    """The Load-context twin of an assignment target. Created once per target and kept on it: site ids are keyed by
    node identity, and the address of a temporary node is recycled by the allocator in a run-dependent way (which made
    value numbers, and through them some verdicts, differ between runs)."""
    n = getattr(t, "_osv_load_twin", None)
    if n is None:
        import copy as _copy

        n = _copy.copy(t)
        n.ctx = ast.Load()
        t._osv_load_twin = n
    return n
