"""Expression semantics: names, attributes, subscripts, operators, calls, comprehensions."""

from __future__ import annotations

import ast
from dataclasses import replace
from fractions import Fraction
from typing import Any, Dict, List, Optional, Tuple

from ..frontend import ClassInfo, FuncInfo, norm_text, strip_docstring
from .domains import lift_const
from .state import Cell, DictObj, ExtInst, InstObj, IterObj, ListObj, State, make_bottom
from .values import (
    INF,
    STAR,
    Bool,
    Bottom,
    ClassV,
    ExtV,
    FuncV,
    Interval,
    Length,
    NoneV,
    Num,
    Opaque,
    Ptr,
    Seq,
    Str,
    SuperV,
    Top,
    TupleV,
    Union,
    Val,
    bool_to_num,
    ivar,
    join_val,
    mk_sym,
    short,
    subst_val,
    sym_has_star,
    has_opq,
)

MAX_DEPTH = 14
F0 = Fraction(0)


class Frame:
    __slots__ = ("fid", "fi", "parent", "returns", "module", "node", "label", "globals_", "nonlocals_", "cls", "gen_acc")

    def __init__(self, fid, fi, parent, module, node, label, cls=None):
        self.fid = fid
        self.fi = fi
        self.parent = parent
        self.returns: List[Tuple[State, Val]] = []
        self.module = module
        self.node = node
        self.label = label
        self.globals_ = None
        self.nonlocals_ = None
        self.cls = cls
        self.gen_acc = None  # generator functions: the list collecting the yielded values


class ExprMixin:
    # ==================================================================================
    # dispatch
    # ==================================================================================
    def eval(self, e: ast.expr, state: State) -> Val:
        if state.bottom:
            return Bottom()
        m = getattr(self, "eval_" + type(e).__name__, None)
        if m is None:
            self.note_undecided(f"unsupported expression {type(e).__name__}", e)
            return Top(f"unsupported {type(e).__name__}")
        v = m(e, state)
        if state.bottom:
            return Bottom()
        if isinstance(v, Num):
            v = self.apply_facts(state, v)
        return v

    def eval_quiet(self, e: ast.expr, state: State) -> Val:
        """Re-evaluate an expression for refinement purposes without recording events/diagnostics."""
        saved = (self.events, self.diags, self.obligations, self.raises, self.hooks, self.undecided)
        self.events, self.diags, self.obligations, self.raises, self.hooks, self.undecided = [], {}, {}, [], {}, []
        self.quiet = getattr(self, "quiet", 0) + 1
        try:
            st = state.copy()
            v = self.eval(e, st)
            return v
        finally:
            self.quiet -= 1
            self.events, self.diags, self.obligations, self.raises, self.hooks, self.undecided = saved

    # ==================================================================================
    # atoms
    # ==================================================================================
    def eval_Constant(self, e, state):
        c = e.value
        if c is None:
            return NoneV()
        if isinstance(c, bool):
            return Bool(c)
        if isinstance(c, (int, float)):
            return lift_const(c)
        if isinstance(c, str):
            return Str(c)
        if c is Ellipsis:
            return Opaque("ellipsis", True)
        return Opaque(type(c).__name__)

    def eval_JoinedStr(self, e, state):
        prov = frozenset()
        for v in e.values:
            if isinstance(v, ast.FormattedValue):
                x = self.eval(v.value, state)
                prov |= getattr(x, "prov", frozenset())
        return Str(None, prov)

    def eval_FormattedValue(self, e, state):
        self.eval(e.value, state)
        return Str()

    def lookup_key(self, name: str, state: State):
        fid = self.stack[-1].fid if self.stack else None
        while fid is not None:
            if (fid, name) in state.vars:
                return (fid, name)
            fid = self.frames[fid].parent
        return None

    def eval_Name(self, e, state):
        key = self.lookup_key(e.id, state)
        if key is not None:
            v = state.vars[key]
            if self.number_locals and isinstance(v, Num) and v.sym is None and v.const is None:
                # value numbering on first read of a joined (sym-less) local
                fr0 = self.frames.get(key[0])
                v = replace(v, sym=("opq", fr0.label if fr0 else "?", e.id, tuple(l.token for l in self.loops), self.site_id("opq-read", e)))
                state.vars[key] = v
            return v
        fr = self.stack[-1]
        return self.global_name(fr.module, e.id, e, state)

    def global_name(self, mi, name: str, node, state: State) -> Val:
        r = self.prog.resolve_global_name(mi, name)
        return self.from_resolution(r, node, state, name)

    def from_resolution(self, r, node, state: State, name: str = "") -> Val:
        if r is None:
            self.note_undecided(f"unresolved name {name}", node)
            return Top(f"unresolved {name}")
        k, obj = r
        if k == "func":
            return FuncV(fi=obj, node=obj.node, frame=None, self_val=None, module=obj.module)
        if k == "class":
            return ClassV(ci=obj)
        if k == "builtin":
            return self.bi.builtin_value(obj)
        if k == "external":
            return self.bi.external_value(obj)
        if k == "module":
            return ExtV(qual="module:" + obj)
        if k == "global":
            mi, gname = obj
            return self.global_value(mi, gname, node, state)
        return Top("resolution")

    def global_value(self, mi, gname: str, node, state: State) -> Val:
        key = (mi.name, gname)
        if key in self.global_cache:
            v = self.global_cache[key]
        else:
            defs = mi.assigns.get(gname, [])
            if len(defs) != 1 or isinstance(defs[0], ast.AugAssign):
                v = Top(f"module global {gname} with {len(defs)} definitions")
            else:
                before = set(state.heap)
                v = self.eval_in_module(mi, defs[0], state, f"<module {mi.name}>")
                for loc in set(state.heap) - before:
                    state.heap[loc] = replace(state.heap[loc], origin=f"global:{mi.name}.{gname}")
                    self.global_cells[loc] = state.heap[loc]
            self.global_cache[key] = v
        self.event("global-read", node, module=mi.name, name=gname, val=v)
        return v

    def class_level_attr(self, ci, attr: str, node, state: State) -> Optional[Val]:
        """Non-method class attribute found through the MRO: a value stored at class creation / by a class-attribute
        write, or the class body's (or module-level late) binding. None when absent."""
        for c in ci.mro:
            v = self.class_store.get((c.fq, attr))
            if v is not None:
                self.event("class-attr-read", node, cls=c, attr=attr)
                return v
            if attr in c.class_attrs:
                self.event("class-attr-read", node, cls=c, attr=attr)
                return self.class_attr_value(c, attr, c.class_attrs[attr], node, state)
        return None

    def class_attr_value(self, ci, attr: str, expr: ast.expr, node, state: State) -> Val:
        """Class attributes are evaluated once (class creation time) and shared by all instances and calls."""
        key = ("class:" + ci.fq, attr)
        if key in self.global_cache:
            return self.global_cache[key]
        before = set(state.heap)
        v = self.eval_in_module(ci.module, expr, state, f"<class {ci.name}>")
        for loc in set(state.heap) - before:
            state.heap[loc] = replace(state.heap[loc], origin=f"global:class {ci.name}.{attr}")
            self.global_cells[loc] = state.heap[loc]
        self.global_cache[key] = v
        return v

    def eval_in_module(self, mi, expr: ast.expr, state: State, label: str) -> Val:
        self._fid += 1
        fr = Frame(self._fid, None, None, mi, expr, label)
        self.frames[fr.fid] = fr
        self.stack.append(fr)
        saved_loops, self.loops = self.loops, []
        saved_ctl, self.ctl = self.ctl, []
        try:
            return self.eval(expr, state)
        finally:
            self.stack.pop()
            self.loops = saved_loops
            self.ctl = saved_ctl

    def eval_Tuple(self, e, state):
        items = []
        for x in e.elts:
            if isinstance(x, ast.Starred):
                sv = self.eval(x.value, state)
                sq = self.to_seq(sv, state, x)
                if sq is not None and sq.fixed is not None:
                    items.extend(sq.fixed)
                else:
                    self.note_undecided("starred element of unknown length in tuple display", e)
                    return Top("starred")
            else:
                items.append(self.eval(x, state))
        if state.bottom:
            return Bottom()
        return TupleV(tuple(items))

    def eval_List(self, e, state):
        items = []
        ptr = None  # once a starred element of unknown length is met, the display is a list being extended
        for x in e.elts:
            if isinstance(x, ast.Starred):
                sv = self.eval(x.value, state)
                if state.bottom:
                    return Bottom()
                sq = self.to_seq(sv, state, x)
                if sq is None:
                    self.note_undecided("starred element that is not a sequence in list display", e)
                    return Top("starred")
                if ptr is None and sq.fixed is not None:
                    items.extend(sq.fixed)
                    continue
                if ptr is None:
                    ptr = self.new_list(state, items, e)
                self.bi.list_extend(state, ptr, sv, x)
            else:
                v = self.eval(x, state)
                if ptr is None:
                    items.append(v)
                else:
                    self.bi.list_extend(state, ptr, TupleV((v,)), x)
        if state.bottom:
            return Bottom()
        if ptr is not None:
            return ptr
        return self.new_list(state, items, e)

    def new_list(self, state: State, items: List[Val], node, tag="list") -> Ptr:
        elem: Val = Bottom()
        for x in items:
            elem = join_val(elem, x)
        seq = Seq(Length.const(len(items)), elem if items else Top("empty"), "k", tuple(items), None, frozenset(), "list")
        return self.alloc(state, ListObj(seq), node, tag)

    def new_list_from_seq(self, state: State, seq: Seq, node, tag="list") -> Ptr:
        return self.alloc(state, ListObj(replace(seq, kind="list")), node, tag)

    def eval_Dict(self, e, state):
        fixed = []
        ok = True
        for k, v in zip(e.keys, e.values):
            if k is None:
                ok = False
                self.eval(v, state)
                continue
            kv = self.eval(k, state)
            vv = self.eval(v, state)
            ck = _const_key(kv)
            if ck is None:
                ok = False
            fixed.append((ck, vv, kv))
        key: Val = Bottom()
        val: Val = Bottom()
        for ck, vv, kv in fixed:
            key = join_val(key, kv)
            val = join_val(val, vv)
        d = DictObj(
            key if fixed else Top("empty"),
            val if fixed else Top("empty"),
            Length.const(len(fixed)) if ok else Length(None, 0, INF),
            tuple((ck, vv) for ck, vv, _ in fixed) if ok else None,
        )
        return self.alloc(state, d, e, "dict")

    def _gen_frame(self):
        for fr in reversed(self.stack):
            if getattr(fr, "gen_acc", None) is not None:
                return fr
            if fr.node is not None and isinstance(fr.node, (ast.FunctionDef, ast.AsyncFunctionDef)):
                break
        return None

    def eval_Yield(self, e, state):
        fr = self._gen_frame()
        v = self.eval(e.value, state) if e.value is not None else NoneV()
        if state.bottom:
            return Bottom()
        if fr is None:
            self.note_undecided("yield outside a modelled generator", e)
            return Top("yield")
        self.list_append(state, fr.gen_acc, v, e)
        return NoneV()

    def eval_YieldFrom(self, e, state):
        fr = self._gen_frame()
        v = self.eval(e.value, state)
        if state.bottom:
            return Bottom()
        if fr is None:
            self.note_undecided("yield from outside a modelled generator", e)
            return Top("yield")
        self.bi.list_extend(state, fr.gen_acc, v, e)
        return NoneV()

    def eval_Set(self, e, state):
        items = [self.eval(x, state) for x in e.elts]
        if state.bottom:
            return Bottom()
        elem: Val = Bottom()
        for x in items:
            elem = join_val(elem, x)
        src = Seq(Length.const(len(items)), elem if items else Top("empty"), "k", tuple(items), None, frozenset(), "list")
        return self.bi.make_set(src, e, state)

    def eval_Lambda(self, e, state):
        fr = self.stack[-1]
        fv = FuncV(fi=None, node=e, frame=fr.fid, self_val=None, module=fr.module, owner=fr.fi)
        self._eval_defaults(fv, state)
        return fv

    def eval_Starred(self, e, state):
        return self.eval(e.value, state)

    def eval_NamedExpr(self, e, state):
        v = self.eval(e.value, state)
        self.assign(e.target, v, state, e)
        return v

    # ==================================================================================
    # operators
    # ==================================================================================
    def as_num(self, v: Val) -> Optional[Num]:
        if isinstance(v, Num):
            return v
        if isinstance(v, Bool):
            return bool_to_num(v)
        return None

    def eval_BinOp(self, e, state):
        l = self.eval(e.left, state)
        r = self.eval(e.right, state)
        if state.bottom:
            return Bottom()
        return self.binop(e.op, l, r, e, state)

    def binop(self, op, l: Val, r: Val, node, state: State) -> Val:
        ln, rn = self.as_num(l), self.as_num(r)
        if ln is not None and rn is not None:
            return self.ops.binop(op, ln, rn, node)
        if isinstance(l, Union) or isinstance(r, Union):
            outs = []
            for a in l.opts if isinstance(l, Union) else (l,):
                for b in r.opts if isinstance(r, Union) else (r,):
                    st = state.copy()
                    outs.append(self.binop(op, a, b, node, st))
                    if st.bottom and not state.bottom:
                        pass
            out: Val = Bottom()
            for o in outs:
                out = join_val(out, o)
            return out
        # sequences
        if isinstance(op, ast.Add):
            ls, rs = self.maybe_seq(l, state), self.maybe_seq(r, state)
            if ls is not None and rs is not None and not isinstance(l, Str):
                return self.bi.concat(state, ls, rs, node, tuple_result=isinstance(l, TupleV))
            if isinstance(l, Str) and isinstance(r, Str):
                return Str(l.const + r.const if l.const is not None and r.const is not None else None, l.prov | r.prov)
        if isinstance(op, ast.Mult):
            for a, b in ((l, r), (r, l)):
                s = self.maybe_seq(a, state)
                n = self.as_num(b)
                if s is not None and n is not None and not isinstance(a, Str):
                    return self.bi.repeat(state, s, n, node)
            if isinstance(l, Str) or isinstance(r, Str):
                return Str()
        if isinstance(op, ast.Mod) and isinstance(l, Str):
            return Str()
        if isinstance(l, (Top,)) or isinstance(r, (Top,)):
            return Top("arith on unknown")
        # unsupported operand types: CPython raises TypeError
        self.event("bad-operands", node, left=l, right=r, op=type(op).__name__)
        self.do_raise(state, "TypeError", node, implicit=True, mro=("TypeError", "Exception"))
        return Bottom()

    def eval_UnaryOp(self, e, state):
        v = self.eval(e.operand, state)
        if state.bottom:
            return Bottom()
        if isinstance(e.op, ast.Not):
            t = self.truth(state, v)
            return Bool(None if t is None else (not t), getattr(v, "prov", frozenset()))
        n = self.as_num(v)
        if n is not None:
            if isinstance(e.op, ast.USub):
                self.hook("neg", e, n)
                return self.ops.neg(n, e)
            if isinstance(e.op, ast.UAdd):
                return n
            if isinstance(e.op, ast.Invert):
                return Num(kinds=frozenset({"int"}), rng=None if n.rng is None else Interval.top(), deg=n.deg, prov=n.prov)
        if isinstance(v, Top):
            return v
        if isinstance(v, Union):
            out: Val = Bottom()
            for o in v.opts:
                on = self.as_num(o)
                if on is None:
                    self.do_raise(state.copy(), "TypeError", e, implicit=True, mro=("TypeError", "Exception"))
                    continue
                out = join_val(out, self.ops.neg(on, e) if isinstance(e.op, ast.USub) else on)
            return out
        self.do_raise(state, "TypeError", e, implicit=True, mro=("TypeError", "Exception"))
        return Bottom()

    def eval_BoolOp(self, e, state):
        is_and = isinstance(e.op, ast.And)
        result: Val = Bottom()
        cur = state
        outs: List[State] = []
        for i, sub in enumerate(e.values):
            last = i == len(e.values) - 1
            v = self.eval(sub, cur)
            if cur.bottom:
                break
            if last:
                result = join_val(result, v)
                outs.append(cur)
                break
            t = self.truth(cur, v)
            stop_when = (t is False) if is_and else (t is True)
            go_on = (t is True) if is_and else (t is False)
            if stop_when:
                result = join_val(result, v)
                outs.append(cur)
                break
            if go_on:
                continue
            # unknown: this operand may be the result (restricted to the stopping truthiness)
            result = join_val(result, self.narrow_truth(cur, v, not is_and))
            stop_state = cur.copy()
            self.refine(sub, v, stop_state, not is_and)
            outs.append(stop_state)
            nxt = cur.copy()
            self.refine(sub, v, nxt, is_and)
            cur = nxt
        st = self.join_all(outs)
        state.assign_from(st)
        return result

    def eval_IfExp(self, e, state):
        t, f = self.branch(e.test, state)
        pc0 = state.pc
        vt = self.eval(e.body, t) if not t.bottom else Bottom()
        vf = self.eval(e.orelse, f) if not f.bottom else Bottom()
        if not t.bottom and t.pc - pc0 and isinstance(vt, (Num, Bool, Str)):
            vt = replace(vt, prov=vt.prov | (t.pc - pc0))
        if not f.bottom and f.pc - pc0 and isinstance(vf, (Num, Bool, Str)):
            vf = replace(vf, prov=vf.prov | (f.pc - pc0))
        out = self.join(t, f)
        out.pc = pc0
        state.assign_from(out)
        if t.bottom:
            return vf
        if f.bottom:
            return vt
        return join_val(vt, vf)

    def eval_Compare(self, e, state):
        left = self.eval(e.left, state)
        result: Optional[Bool] = None
        for op, comp in zip(e.ops, e.comparators):
            right = self.eval(comp, state)
            if state.bottom:
                return Bottom()
            b = self.compare(op, left, right, e, state)
            if isinstance(b, Bottom):
                return b
            if result is None:
                result = b
            else:
                tv = None
                if result.tv is False or b.tv is False:
                    tv = False
                elif result.tv is True and b.tv is True:
                    tv = True
                result = Bool(tv, result.prov | b.prov)
            left = right
        return result

    def compare(self, op, l: Val, r: Val, node, state: State) -> Val:
        if isinstance(op, (ast.Is, ast.IsNot)):
            self.hook("identity", node, l, r)
            tv = None
            if isinstance(l, NoneV) or isinstance(r, NoneV):
                ln, rn = isinstance(l, NoneV), isinstance(r, NoneV)
                if ln and rn:
                    tv = True
                else:
                    other = r if ln else l
                    if isinstance(other, Union):
                        has_none = any(isinstance(o, NoneV) for o in other.opts)
                        tv = None if has_none else False
                    elif isinstance(other, Top):
                        tv = None
                    else:
                        tv = False
            elif isinstance(l, Bool) and isinstance(r, Bool) and l.tv is not None and r.tv is not None:
                tv = l.tv == r.tv
            elif isinstance(l, Ptr) and isinstance(r, Ptr):
                if l.loc != r.loc:
                    tv = False
                elif l == r and not l.idx:
                    tv = True
            if tv is not None and isinstance(op, ast.IsNot):
                tv = not tv
            prov = getattr(l, "prov", frozenset()) | getattr(r, "prov", frozenset())
            if not any(isinstance(x, (NoneV, Bool, Opaque)) for x in (l, r)):
                prov = prov | {"IDENTITY"}  # object identity of two non-singleton objects
            return Bool(tv, prov)
        if isinstance(op, (ast.In, ast.NotIn)):
            return self.bi.contains(state, l, r, isinstance(op, ast.NotIn), node)
        ln, rn = self.as_num(l), self.as_num(r)
        if ln is not None and rn is not None:
            return self.ops.compare(op, ln, rn, node, state)
        # user-defined rich comparison on instances
        if isinstance(l, Ptr):
            d = self.deref(state, l)
            if d is not None and isinstance(d[0], InstObj):
                name = {ast.Lt: "__lt__", ast.LtE: "__le__", ast.Gt: "__gt__", ast.GtE: "__ge__", ast.Eq: "__eq__", ast.NotEq: "__ne__"}.get(type(op))
                m = d[0].cls.lookup(name) if name else None
                invert = False
                if m is None and name == "__ne__":
                    m = d[0].cls.lookup("__eq__")  # default __ne__ inverts __eq__
                    invert = m is not None
                if m is not None:
                    res = self.call_function(FuncV(fi=m, node=m.node, self_val=l, module=m.module), [r], {}, node, state)
                    if isinstance(res, Bottom):
                        return res
                    if not isinstance(res, Bool):
                        res = Bool(self.truth(state, res))
                    if invert:
                        res = replace(res, tv=None if res.tv is None else not res.tv, sym=None)
                    if name in ("__eq__", "__ne__") and self.value_equal_operand(r, state):
                        # two in-program objects compared by their class's value equality
                        res = replace(res, prov=res.prov | {"VALEQ"})
                    return res
        if isinstance(op, (ast.Eq, ast.NotEq)):
            tv = None
            if isinstance(l, Str) and isinstance(r, Str) and l.const is not None and r.const is not None:
                tv = l.const == r.const
            elif isinstance(l, NoneV) and isinstance(r, NoneV):
                tv = True
            elif type(l) is not type(r) and not isinstance(l, (Top, Union, Ptr)) and not isinstance(r, (Top, Union, Ptr)):
                if not (isinstance(l, (Num, Bool)) and isinstance(r, (Num, Bool))):
                    tv = False
            if tv is not None and isinstance(op, ast.NotEq):
                tv = not tv
            self.hook("eq-other", node, l, r)
            pv = getattr(l, "prov", frozenset()) | getattr(r, "prov", frozenset())
            if tv is None and self.value_equal_operand(l, state) and self.value_equal_operand(r, state):
                pv = pv | {"VALEQ"}  # containers of in-program objects compare element-wise by value equality
            return Bool(tv, pv)
        if isinstance(l, (Top, Union)) or isinstance(r, (Top, Union)):
            return Bool(None, getattr(l, "prov", frozenset()) | getattr(r, "prov", frozenset()))
        self.hook("order-other", node, l, r)
        if isinstance(l, (TupleV, Seq, Ptr)) and isinstance(r, (TupleV, Seq, Ptr)):
            return Bool(None)
        self.do_raise(state, "TypeError", node, implicit=True, mro=("TypeError", "Exception"))
        return Bottom()

    def value_equal_operand(self, v: Val, state: State, depth: int = 0) -> bool:
        """v is an in-program object whose class defines __eq__ (value equality), or a container of such objects."""
        if depth > 3:
            return False
        if isinstance(v, Union):
            return any(self.value_equal_operand(o, state, depth + 1) for o in v.opts)
        if isinstance(v, TupleV):
            return any(self.value_equal_operand(x, state, depth + 1) for x in v.items)
        if isinstance(v, Seq):
            return self.value_equal_operand(v.elem, state, depth + 1)
        if isinstance(v, Ptr):
            d = self.deref(state, v)
            if d is None:
                return False
            o = d[0]
            if isinstance(o, InstObj):
                return o.cls.lookup("__eq__") is not None
            if isinstance(o, ListObj):
                return self.value_equal_operand(o.seq.elem, state, depth + 1) or any(self.value_equal_operand(x, state, depth + 1) for x in (o.seq.fixed or ())[:4])
        return False

    # ==================================================================================
    # attributes
    # ==================================================================================
    def eval_Attribute(self, e, state):
        obj = self.eval(e.value, state)
        if state.bottom:
            return Bottom()
        return self.load_attr(obj, e.attr, e, state)

    def load_attr(self, obj: Val, attr: str, node, state: State) -> Val:
        if isinstance(obj, Union):
            out: Val = Bottom()
            alive = False
            for o in obj.opts:
                st = state.copy()
                v = self.load_attr(o, attr, node, st)
                if not st.bottom:
                    alive = True
                    out = join_val(out, v)
            if not alive:
                state.bottom = True
            return out
        if attr == "__class__":
            return self.bi.class_of(obj, state)
        if isinstance(obj, Ptr):
            d = self.deref(state, obj)
            if d is None:
                return Top("dangling pointer")
            o, env = d
            if isinstance(o, InstObj):
                v = self.read_field(state, obj, attr)
                if v is not None:
                    if isinstance(v, Num) and v.sym is None and all(i[0] in ("v", "c", "perm") for i in obj.idx):
                        # value numbering of heap reads: same instance, same field, no intervening write
                        v = replace(v, sym=("rd", obj.loc, obj.idx, attr, self.field_version.get((obj.loc, attr), 0)))
                    self.event("attr-read", node, cls=o.cls, origin=state.heap[obj.loc].origin, attr=attr, ptr=obj, val=v)
                    return v
                m = o.cls.lookup(attr)
                if m is not None:
                    if m.kind == "staticmethod":
                        return FuncV(fi=m, node=m.node, module=m.module)
                    if m.kind == "classmethod":
                        return FuncV(fi=m, node=m.node, self_val=ClassV(ci=o.cls), module=m.module)
                    if m.kind == "property":
                        return self.call_function(FuncV(fi=m, node=m.node, self_val=obj, module=m.module), [], {}, node, state)
                    return FuncV(fi=m, node=m.node, self_val=obj, module=m.module)
                cv = self.class_level_attr(o.cls, attr, node, state)
                if cv is not None:
                    return cv
                self.event("missing-attr", node, cls=o.cls, attr=attr)
                self.do_raise(state, "AttributeError", node, implicit=True, mro=("AttributeError", "Exception"))
                return Bottom()
            if isinstance(o, (ListObj, DictObj, IterObj)):
                pyt = {"list": list, "dict": dict}.get(o.kind)
                if pyt is not None and not hasattr(pyt, attr) and "defaultdict" not in getattr(o, "flags", ()):
                    return self._no_attr(obj, attr, node, state)
                return ExtV(qual=f"{o.kind}.{attr}", bound=obj)
            if isinstance(o, ExtInst):
                return ExtV(qual=f"{o.qual}.{attr}", bound=obj)
            return Top("attr of unknown object")
        if isinstance(obj, SuperV):
            inst = obj.self_val
            dyn = None
            if isinstance(inst, ClassV):
                dyn = inst.ci
            elif isinstance(inst, Ptr):
                d = self.deref(state, inst)
                if d is not None and isinstance(d[0], InstObj):
                    dyn = d[0].cls
            if dyn is None or obj.after not in dyn.mro:
                self.note_undecided("super() on a receiver of unknown class", node)
                return Top("super")
            for c in dyn.mro[dyn.mro.index(obj.after) + 1 :]:
                m = c.methods.get(attr)
                if m is not None:
                    if m.kind == "staticmethod":
                        return FuncV(fi=m, node=m.node, module=m.module)
                    if m.kind == "classmethod" or (isinstance(inst, ClassV) and attr in ("__init_subclass__", "__class_getitem__")):
                        return FuncV(fi=m, node=m.node, self_val=inst if isinstance(inst, ClassV) else ClassV(ci=dyn), module=m.module)
                    if m.kind == "property":
                        return self.call_function(FuncV(fi=m, node=m.node, self_val=inst, module=m.module), [], {}, node, state)
                    if isinstance(inst, ClassV):
                        return FuncV(fi=m, node=m.node, module=m.module)
                    return FuncV(fi=m, node=m.node, self_val=inst, module=m.module)
                if attr in c.class_attrs:
                    return self.class_attr_value(c, attr, c.class_attrs[attr], node, state)
            return ExtV(qual=f"object.{attr}", bound=inst)
        if isinstance(obj, ClassV):
            if attr == "__name__":
                return Str(obj.ci.name if obj.ci else obj.ext.split(".")[-1])
            if obj.ci is not None:
                m = obj.ci.lookup(attr)
                if m is not None:
                    if m.kind == "classmethod":
                        return FuncV(fi=m, node=m.node, self_val=obj, module=m.module)
                    return FuncV(fi=m, node=m.node, module=m.module)
                cv = self.class_level_attr(obj.ci, attr, node, state)
                if cv is not None:
                    return cv
                if attr == "__bases__":
                    return TupleV(tuple(ClassV(ci=b) for b in obj.ci.bases) + tuple(ClassV(ext=x) for x in obj.ci.ext_bases))
                if attr == "__mro__":
                    return TupleV(tuple(ClassV(ci=b) for b in obj.ci.mro) + tuple(ClassV(ext=x) for x in obj.ci.ext_ancestors()) + (ClassV(ext="builtin.object"),))
                self.do_raise(state, "AttributeError", node, implicit=True, mro=("AttributeError", "Exception"))
                return Bottom()
            return ExtV(qual=f"{obj.ext}.{attr}")
        if isinstance(obj, ExtV):
            if obj.qual.startswith("module:"):
                modname = obj.qual[len("module:") :]
                r = self.prog.resolve_module_attr(modname, attr)
                return self.from_resolution(r, node, state, f"{modname}.{attr}")
            return self.bi.external_value(f"{obj.qual}.{attr}")
        if isinstance(obj, Str):
            if not hasattr(str, attr):
                return self._no_attr(obj, attr, node, state)
            return ExtV(qual=f"str.{attr}", bound=obj)
        if isinstance(obj, (Num, Bool)):
            if attr in ("real", "numerator"):
                return obj
            # attributes common to the kinds the value may have (int, float, bool); anything else is an AttributeError
            kinds = obj.kinds if isinstance(obj, Num) and obj.kinds else frozenset({"int", "float", "bool"}) if isinstance(obj, Num) else frozenset({"bool"})
            pyt = [{"int": int, "float": float, "bool": bool}[k] for k in kinds if k in ("int", "float", "bool")]
            if pyt and not any(hasattr(t, attr) for t in pyt):
                return self._no_attr(obj, attr, node, state)
            return ExtV(qual=f"number.{attr}", bound=obj)
        if isinstance(obj, (TupleV, Seq)):
            if not hasattr(tuple, attr) and not (isinstance(obj, Seq) and obj.kind != "tuple"):
                return self._no_attr(obj, attr, node, state)
            return ExtV(qual=f"tuple.{attr}", bound=obj)
        if isinstance(obj, FuncV):
            if attr in ("__name__", "__qualname__"):
                return Str()
            self.event("func-attr", node, attr=attr)
            return Top("function attribute")
        if isinstance(obj, Top):
            return Top(f"attr {attr} of unknown")
        if isinstance(obj, (NoneV, Opaque)):
            self.event("missing-attr", node, cls=None, attr=attr, on=obj)
            self.do_raise(state, "AttributeError", node, implicit=True, mro=("AttributeError", "Exception"))
            return Bottom()
        return Top("attr")

    def _no_attr(self, obj: Val, attr: str, node, state: State) -> Val:
        self.event("missing-attr", node, cls=None, attr=attr, on=obj)
        self.do_raise(state, "AttributeError", node, implicit=True, mro=("AttributeError", "Exception"))
        return Bottom()

    def store_attr(self, obj: Val, attr: str, v: Val, state: State, node) -> None:
        if isinstance(obj, Union):
            for o in obj.opts:
                self.store_attr(o, attr, v, state, node)
            return
        if isinstance(obj, Ptr):
            c = state.heap.get(obj.loc)
            if c is not None and isinstance(c.obj, InstObj):
                if state.pc and isinstance(v, (Num, Bool, Str)):
                    v = self.with_pc(v, state)
                self._record_write(state, obj, attr, node, kind="attr", val=v)
                self.write_field(state, obj, attr, v, node)
                return
            if c is not None:
                self.event("write", node, origin=c.origin, field=attr, loc=obj.loc, wkind="attr-on-container", ptr=obj, val=v)
                return
        if isinstance(obj, ClassV):
            if obj.ci is not None:
                key = (obj.ci.fq, attr)
                if self.class_init_phase:
                    self.class_store[key] = v  # class creation (__init_subclass__): not an effect of an operation
                    return
                old = self.class_store.get(key)
                if old is None:
                    ca = obj.ci.class_attrs.get(attr)
                    old = self.class_attr_value(obj.ci, attr, ca, node, state) if ca is not None else None
                self.class_store[key] = v if old is None else join_val(old, v)  # flow-insensitive: weak update
            self.event("write", node, origin="class", field=attr, loc=str(obj.ci.fq if obj.ci else obj.ext), wkind="class-attr", ptr=None, val=v)
            state.effects = state.effects | {("class", attr)}
            return
        if isinstance(obj, FuncV):
            self.event("write", node, origin="function", field=attr, loc="function", wkind="func-attr", ptr=None, val=v)
            state.effects = state.effects | {("function", attr)}
            return
        if isinstance(obj, ExtV):
            self.event("write", node, origin="external", field=attr, loc=obj.qual, wkind="ext-attr", ptr=None, val=v)
            state.effects = state.effects | {("external", obj.qual + "." + attr)}
            return
        if isinstance(obj, (NoneV, Opaque, Num, Bool, Str)):
            self.do_raise(state, "AttributeError", node, implicit=True, mro=("AttributeError", "Exception"))
            return
        self.note_undecided(f"attribute store on unknown object ({short(obj)})", node)

    def _record_write(self, state: State, obj: Val, attr: str, node, kind: str, val: Val = None) -> None:
        if not isinstance(obj, Ptr):
            return
        c = state.heap.get(obj.loc)
        if c is None:
            return
        self.event("write", node, origin=c.origin, field=attr, loc=obj.loc, wkind=kind, ptr=obj, val=val,
                   cls=c.obj.cls if isinstance(c.obj, InstObj) else None, rels=dict(state.rels) if state.rels else None)
        if c.origin.startswith("input") or c.origin.startswith("global"):
            state.effects = state.effects | {(c.origin, attr)}

    def _record_container_mutation(self, state: State, obj: Val, node, kind: str) -> None:
        if not isinstance(obj, Ptr):
            return
        c = state.heap.get(obj.loc)
        if c is None:
            return
        self.list_version[obj.loc] = self.list_version.get(obj.loc, 0) + 1
        self.event("mutate", node, origin=c.origin, loc=obj.loc, wkind=kind, ptr=obj)
        if c.origin.startswith("input") or c.origin.startswith("global") or c.origin.startswith("default"):
            state.effects = state.effects | {(c.origin, kind)}

    # ==================================================================================
    # subscripts
    # ==================================================================================
    def eval_slice(self, sl, state: State):
        if isinstance(sl, ast.Slice):
            lo = self.eval(sl.lower, state) if sl.lower is not None else None
            hi = self.eval(sl.upper, state) if sl.upper is not None else None
            step = self.eval(sl.step, state) if sl.step is not None else None
            return ("slice", lo, hi, step)
        return self.eval(sl, state)

    def eval_Subscript(self, e, state):
        obj = self.eval(e.value, state)
        key = self.eval_slice(e.slice, state)
        if state.bottom:
            return Bottom()
        return self.load_subscript(obj, key, e, state)

    def index_term(self, key: Val):
        """Position term of an index value: constant, loop position, or unknown."""
        if isinstance(key, Bool) and key.tv is not None:
            return ("c", int(key.tv))
        if isinstance(key, Num):
            if key.const is not None and isinstance(key.const, int):
                return ("c", int(key.const))
            if key.sym is not None and key.sym[0] == "idx":
                return key.sym[1]
            if key.sym is not None and key.kinds and key.kinds <= {"int", "bool"} and key.sym[0] in ("add", "sub") and not sym_has_star(key.sym) and not has_opq(key.sym):
                # a computed integer subscript (e.g. the ladder neighbours i - 1 / i + 1): the position is named by the term, so
                # two reads through the same subscript value denote the same element
                return ("k", key.sym)
        return STAR

    def load_subscript(self, obj: Val, key, node, state: State) -> Val:
        if isinstance(obj, Union):
            out: Val = Bottom()
            alive = False
            for o in obj.opts:
                st = state.copy()
                v = self.load_subscript(o, key, node, st)
                if not st.bottom:
                    alive = True
                    out = join_val(out, v)
            if not alive:
                state.bottom = True
            return out
        if isinstance(key, tuple) and key and key[0] == "slice":
            seq = self.maybe_seq(obj, state)
            if seq is None:
                if isinstance(obj, Top):
                    return Top("slice of unknown")
                self.do_raise(state, "TypeError", node, implicit=True, mro=("TypeError", "Exception"))
                return Bottom()
            res = self.bi.slice_seq(seq, key, node)
            if isinstance(obj, (TupleV,)) or (isinstance(obj, Seq) and obj.kind == "tuple"):
                return replace(res, kind="tuple")
            if isinstance(obj, Str):
                return Str()
            return self.new_list_from_seq(state, res, node, "slice")
        if isinstance(obj, Str):
            return Str()
        if isinstance(obj, Ptr):
            d = self.deref(state, obj)
            if d is None:
                return Top("dangling")
            o, env = d
            if isinstance(o, DictObj):
                return self.bi.dict_get(state, obj, key, node, strict=True)
            if isinstance(o, InstObj):
                m = o.cls.lookup("__getitem__")
                if m is not None:
                    return self.call_function(FuncV(fi=m, node=m.node, self_val=obj, module=m.module), [key], {}, node, state)
                self.do_raise(state, "TypeError", node, implicit=True, mro=("TypeError", "Exception"))
                return Bottom()
            if isinstance(o, ExtInst):
                return Top("subscript of external object")
        seq = self.maybe_seq(obj, state)
        if seq is not None:
            self.hook("subscript", node, obj, key, seq)
            if isinstance(key, (Num, Bool)):
                it = self.index_term(key)
                if it[0] == "c" and seq.fixed is not None:
                    n = len(seq.fixed)
                    i = it[1]
                    if -n <= i < n:
                        return seq.fixed[i]
                    self.do_raise(state, "IndexError", node, implicit=True, mro=("IndexError", "LookupError", "Exception"))
                    return Bottom()
                if seq.length.hi == 0:
                    self.do_raise(state, "IndexError", node, implicit=True, mro=("IndexError", "LookupError", "Exception"))
                    return Bottom()
                if it[0] == "c" and it[1] < 0:
                    it = STAR
                if seq.flags & {"reordered", "building", "weak-append"}:
                    it = STAR if it[0] != "c" else it
                v = subst_val(seq.elem, {seq.kvar: it})
                if seq.witness is not None and it == STAR:
                    v = join_val(v, seq.witness)
                if isinstance(v, Num) and (v.sym is None or sym_has_star(v.sym)) and isinstance(obj, Ptr) and it != STAR and it[0] in ("v", "perm", "k") and all(i[0] in ("v", "c", "perm") for i in obj.idx):
                    # value numbering of list reads: same list, same position, no intervening mutation
                    v = replace(v, sym=("elem", obj.loc + f"#v{self.list_version.get(obj.loc, 0)}", obj.idx, it))
                return v
            if isinstance(key, Top):
                return subst_val(seq.elem, {seq.kvar: STAR})
            self.do_raise(state, "TypeError", node, implicit=True, mro=("TypeError", "Exception"))
            return Bottom()
        if isinstance(obj, Top):
            return Top("subscript of unknown")
        if isinstance(obj, ClassV) or (isinstance(obj, ExtV)):
            return obj  # typing generics such as List[int]
        self.do_raise(state, "TypeError", node, implicit=True, mro=("TypeError", "Exception"))
        return Bottom()

    def store_subscript(self, obj: Val, key, v: Val, state: State, node) -> None:
        if isinstance(obj, Union):
            for o in obj.opts:
                self.store_subscript(o, key, v, state, node)
            return
        if isinstance(obj, Ptr):
            c = state.heap.get(obj.loc)
            if c is None:
                return
            if state.pc and isinstance(v, (Num, Bool, Str)):
                v = self.with_pc(v, state)
            self._record_container_mutation(state, obj, node, "set-item")
            if isinstance(c.obj, DictObj):
                self.bi.dict_set(state, obj, key, v, node)
                return
            if isinstance(c.obj, ListObj):
                self.bi.list_setitem(state, obj, key, v, node)
                return
            if isinstance(c.obj, InstObj):
                m = c.obj.cls.lookup("__setitem__")
                if m is not None:
                    self.call_function(FuncV(fi=m, node=m.node, self_val=obj, module=m.module), [key, v], {}, node, state)
                    return
            self.do_raise(state, "TypeError", node, implicit=True, mro=("TypeError", "Exception"))
            return
        if isinstance(obj, Top):
            self.note_undecided("subscript store on unknown object", node)
            return
        self.do_raise(state, "TypeError", node, implicit=True, mro=("TypeError", "Exception"))

    # ==================================================================================
    # sequences
    # ==================================================================================
    def maybe_seq(self, v: Val, state: State) -> Optional[Seq]:
        if isinstance(v, Seq):
            return v
        if isinstance(v, TupleV):
            elem: Val = Bottom()
            for x in v.items:
                elem = join_val(elem, x)
            return Seq(Length.const(len(v.items)), elem if v.items else Top("empty"), "k", v.items, None, frozenset(), "tuple")
        if isinstance(v, Ptr):
            return self.list_seq(state, v)
        return None

    def to_seq(self, v: Val, state: State, node) -> Optional[Seq]:
        """Iterate a value: its abstract sequence, or an implicit TypeError."""
        s = self.maybe_seq(v, state)
        if s is not None:
            if (isinstance(v, Ptr) and isinstance(s.elem, Num) and (s.elem.sym is None or sym_has_star(s.elem.sym)) and s.elem.const is None and s.fixed is None
                    and not (s.flags & {"reordered", "building", "weak-append", "unmodelled"}) and all(i[0] in ("v", "c", "perm") for i in v.idx)):
                c = state.heap.get(v.loc)
                if c is not None and isinstance(c.obj, ListObj) and c.obj.build is None:
                    # value numbering of list elements met by iteration, as for subscript reads: same list, same position, no
                    # intervening mutation (`for x in xs` / `zip(xs, ...)` then name what `xs[k]` names)
                    s = replace(s, elem=replace(s.elem, sym=("elem", v.loc + f"#v{self.list_version.get(v.loc, 0)}", v.idx, ivar(s.kvar))))
            return s
        if isinstance(v, Ptr):
            d = self.deref(state, v)
            if d is not None and isinstance(d[0], DictObj):
                return self.bi.dict_keys_seq(state, v)
            if d is not None and isinstance(d[0], InstObj):
                if d[0].cls.lookup("__iter__") or d[0].cls.lookup("__getitem__"):
                    self.note_undecided("iteration over a user-defined iterable", node)
                    return Seq(Length(None, 0, INF), Top("user iterable"), "k", None, None, frozenset({"unmodelled"}), "iter")
        if isinstance(v, Str):
            return Seq(Length(None, 0 if v.const is None else len(v.const), INF if v.const is None else len(v.const)), Str(), "k", None, None, frozenset(), "iter")
        if isinstance(v, Top):
            self.note_undecided(f"iteration over an unknown value ({v.reason})", node)
            return Seq(Length(None, 0, INF), Top("elem of unknown"), "k", None, None, frozenset({"unmodelled"}), "iter")
        if isinstance(v, Union):
            out = None
            for o in v.opts:
                st = state.copy()
                s = self.to_seq(o, st, node)
                if s is not None and not st.bottom:
                    out = s if out is None else _join_seq(out, s)
            if out is None:
                state.bottom = True
            return out
        # not iterable: CPython raises TypeError
        self.event("not-iterable", node, val=v)
        self.do_raise(state, "TypeError", node, implicit=True, mro=("TypeError", "Exception"))
        return None

    # ==================================================================================
    # comprehensions
    # ==================================================================================
    def eval_ListComp(self, e, state):
        seq = self._comprehension(e, e.elt, state)
        if seq is None or state.bottom:
            return Bottom()
        return self.new_list_from_seq(state, seq, e, "listcomp")

    def eval_GeneratorExp(self, e, state):
        seq = self._comprehension(e, e.elt, state)
        if seq is None or state.bottom:
            return Bottom()
        return replace(seq, kind="iter")

    def eval_SetComp(self, e, state):
        seq = self._comprehension(e, e.elt, state)
        if seq is None or state.bottom:
            return Bottom()
        return self.bi.make_set(seq, e, state)

    def eval_DictComp(self, e, state):
        pair = getattr(e, "_osv_pair_twin", None)  # persistent: site ids are keyed by node identity
        if pair is None:
            pair = ast.Tuple(elts=[e.key, e.value], ctx=ast.Load())
            ast.copy_location(pair, e)
            e._osv_pair_twin = pair
        seq = self._comprehension(e, pair, state)
        if seq is None or state.bottom:
            return Bottom()
        el = seq.elem
        k = el.items[0] if isinstance(el, TupleV) and len(el.items) == 2 else Top("key")
        v = el.items[1] if isinstance(el, TupleV) and len(el.items) == 2 else Top("val")
        return self.alloc(state, DictObj(subst_val(k, {seq.kvar: STAR}), subst_val(v, {seq.kvar: STAR}), Length(None, 0 if seq.length.lo == 0 else 1, seq.length.hi), None), e, "dictcomp")

    def _comprehension(self, e, elt, state: State) -> Optional[Seq]:
        """List/generator comprehension as an implicit loop building a fresh list."""
        # the comprehension has its own scope: run it in a child frame so targets do not leak
        parent = self.stack[-1]
        self._fid += 1
        fr = Frame(self._fid, parent.fi, parent.fid, parent.module, e, parent.label, parent.cls)
        self.frames[fr.fid] = fr
        fr.returns = parent.returns  # a comprehension cannot return, share for bookkeeping
        self.stack.append(fr)
        try:
            acc = self.new_list(state, [], e, "comp")

            def level(i: int, st: State) -> None:
                if i == len(e.generators):
                    v = self.eval(elt, st)
                    if not st.bottom:
                        self.list_append(st, acc, v, e)
                    return
                g = e.generators[i]
                itv = self.eval(g.iter, st)
                if st.bottom:
                    return
                seq = self.to_seq(itv, st, g.iter)
                if seq is None or st.bottom:
                    return

                def bind(elem, s):
                    self.assign(g.target, elem, s, e)

                def body(s):
                    for cond in g.ifs:
                        t, f = self.branch(cond, s)
                        s.assign_from(t)
                        if s.bottom:
                            # filtered out on every path: this iteration completes without appending
                            s.assign_from(f)
                            return
                        if not f.bottom:
                            # may be filtered: join the skipping path back in at the end
                            cont = s.copy()
                            level_rest(i, cont, g.ifs[g.ifs.index(cond) + 1 :])
                            s.assign_from(self.join(cont, f))
                            return
                    level(i + 1, s)

                def level_rest(i, s, rest_ifs):
                    for cond in rest_ifs:
                        t, f = self.branch(cond, s)
                        if t.bottom:
                            s.assign_from(f)
                            return
                        if not f.bottom:
                            cont = t
                            level_rest(i, cont, rest_ifs[rest_ifs.index(cond) + 1 :])
                            s.assign_from(self.join(cont, f))
                            return
                        s.assign_from(t)
                    level(i + 1, s)

                if i == 0:
                    outer_seq.append(seq)
                self.run_loop(seq, e, st, bind, body)

            outer_seq: List[Seq] = []
            level(0, state)
            if state.bottom:
                return None
            res = self.list_seq(state, acc)
            state.heap.pop(acc.loc, None)
            if res.length.lo == 0 and len(e.generators) == 1 and e.generators[0].ifs and outer_seq:
                res = self._reflexive_filter(e, outer_seq[0], res, state)
            return res
        finally:
            self.stack.pop()
            # drop the comprehension frame's variables
            for k in [k for k in state.vars if k[0] == fr.fid]:
                del state.vars[k]


    def _reflexive_filter(self, e, z: Seq, res: Seq, state: State) -> Seq:
        """Lemma L-A for a filtering comprehension: when an enclosing loop walks the same sequence and every condition
        holds with the target bound to that loop's current element, the element itself passes: the result is non-empty."""
        g = e.generators[0]
        for lc in reversed(self.loops):
            ls = lc.seq
            if ls is None or not ls.length.same(z.length):
                continue
            if subst_val(ls.elem, {ls.kvar: ivar("$same")}) != subst_val(z.elem, {z.kvar: ivar("$same")}):
                continue
            e_self = subst_val(z.elem, {z.kvar: ivar(lc.token)})
            saved = (self.events, self.diags, self.obligations, self.raises, self.hooks, self.undecided)
            self.events, self.diags, self.obligations, self.raises, self.hooks, self.undecided = [], {}, {}, [], {}, []
            ok = True
            try:
                stq = state.copy()
                self.assign(g.target, e_self, stq, e)
                for cond in g.ifs:
                    t, f = self.branch(cond, stq)
                    if t.bottom or not f.bottom:
                        ok = False
                        break
                    stq = t
            except Exception:
                ok = False
            finally:
                self.events, self.diags, self.obligations, self.raises, self.hooks, self.undecided = saved
            if ok:
                self.event("lemma", e, name="L-A", why="the comprehension's condition is reflexive on the enclosing loop's own element: the filtered sequence contains it")
                return replace(res, length=Length(res.length.term, 1, res.length.hi))
        return res


def _join_seq(a: Seq, b: Seq) -> Seq:
    from .values import join_seq

    return join_seq(a, b)


def _const_key(v: Val):
    if isinstance(v, Str) and v.const is not None:
        return ("s", v.const)
    if isinstance(v, Num) and v.const is not None:
        return ("n", v.const)
    if isinstance(v, Bool) and v.tv is not None:
        return ("n", int(v.tv))
    return None
