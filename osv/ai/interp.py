"""Forward abstract interpreter over function ASTs with abstract inlining of resolved callees.

Nothing is executed: Python statements are given their abstract semantics over the value
lattice of values.py.  See DESIGN.md §4.2 and Appendix A.
"""

from __future__ import annotations

import ast
from dataclasses import replace
from fractions import Fraction
from typing import Any, Dict, List, Optional, Tuple

from ..frontend import AnalysisError, ClassInfo, FuncInfo, ModuleInfo, Program, norm_text
from .domains import NumOps, lift_const, refine_by_compare, mirror
from .state import (
    Build,
    Cell,
    DictObj,
    ExtInst,
    InstObj,
    IterObj,
    ListObj,
    LoopCtx,
    State,
    idx_distinct,
    idx_matches,
    join_states,
    make_bottom,
)
from .values import (
    ALL,
    INF,
    POLY,
    STAR,
    Bool,
    Bottom,
    ClassV,
    ExtV,
    FuncV,
    Interval,
    Length,
    NoneV,
    Num,
    Opaque,
    Ptr,
    Seq,
    Str,
    Top,
    TupleV,
    Union,
    Val,
    bool_to_num,
    index_vars,
    ivar,
    join_seq,
    join_val,
    mk_sym,
    short,
    subst_index,
    subst_val,
    val_index_vars,
    widen_val,
)

MAX_DEPTH = 14
UNROLL = 4
WIDEN_AFTER = 6
ITER_CAP = 70

F0 = Fraction(0)


def _contains(i, g) -> bool:
    if i == g:
        return True
    if i[0] == "perm":
        return _contains(i[3], g)
    if i[0] in ("pa", "pb", "oth"):
        return _contains(i[1], g)
    return False


class Event:
    __slots__ = ("kind", "node", "func", "stack", "data")

    def __init__(self, kind, node, func, stack, **data):
        self.kind = kind
        self.node = node
        self.func = func
        self.stack = stack
        self.data = data

    def __repr__(self):
        return f"Event({self.kind} {self.func} {norm_text(self.node, 60) if self.node is not None else ''} {self.data})"


class InterpBase:
    def __init__(self, prog: Program, *, callbacks: Optional[Dict[str, Any]] = None):
        self.prog = prog
        self.ops = NumOps(self)
        self.frames: Dict[int, Frame] = {}
        self._fid = 0
        self._loopid = 0
        self._permid = 0
        self.stack: List[Frame] = []
        self.call_nodes: List[ast.AST] = []
        self.loops: List[LoopCtx] = []
        self.token_loop: Dict[str, int] = {}
        self.events: List[Event] = []
        self.diags: Dict[Tuple, Dict[str, Any]] = {}
        self.obligations: Dict[Tuple, Dict[str, Any]] = {}
        self.raises: List[Event] = []
        self.undecided: List[str] = []
        self.perms: Dict[str, Dict[str, Any]] = {}
        self.global_cache: Dict[Tuple[str, str], Val] = {}
        self.global_cells: Dict[str, Cell] = {}
        self.ordinal_tags: set = set()
        self.type_test_tags: Dict[str, str] = {}
        self.field_version: Dict[Tuple[str, str], int] = {}
        self.default_cache: Dict[int, Val] = {}
        self.hooks: Dict[str, Any] = {}
        self.axioms_used: set = set()
        self.functions_entered: set = set()
        self.callbacks = callbacks or {}
        self.try_depth = 0
        self.ctl: List[LoopCtx] = []
        self.unroll_idx: List[int] = []
        self._site_ids: Dict[Tuple, int] = {}
        self.pairs_base: Dict[Any, Length] = {}
        self.opaque_funcs: set = set()
        self.default_factories: Dict[str, Any] = {}
        self.counter_info: Dict[str, Any] = {}  # Counter allocation -> (counted sequence, exact groups or None)
        self.number_locals: bool = False
        self.tolerance_tests: list = []  # explicit mode: math.isclose met on two terms that are not known equal
        self.assume_close = None  # outcome assumed for such a test (None = open)
        self.open_cmps: list = []  # explicit mode: comparisons between two terms that the abstract state could not decide
        self.explicit: bool = False  # runs on small explicit inputs: pair enumerations and chunkings of listed sequences stay listed, longer unrolling
        self.pos_tagger = None  # rule-supplied: provenance tags for position values (which dimension a position ranges over)
        self.class_store: Dict[Tuple[str, str], Any] = {}  # class attributes set at class creation / written later
        self.class_init_phase: bool = False
        self.widened: bool = False
        self.reductions: List[Dict[int, list]] = []  # per active `for` statement: observed right-hand sides of its reduction statements
        self.shift_mode: bool = False
        self.track_sym_ranges: bool = False
        self.sym_rng: Dict[Any, Interval] = {}
        self.list_version: Dict[str, int] = {}
        self.quiet = 0
        from .builtins import Builtins

        self.bi = Builtins(self)

    # ==================================================================================
    # bookkeeping
    # ==================================================================================
    def pos_tags(self, length) -> frozenset:
        return frozenset() if self.pos_tagger is None else frozenset(self.pos_tagger(self, length))

    def site_id(self, kind: str, node) -> int:
        """Stable id of a loop/sort site in its dynamic context (call string, active tokens, unrolling index):
        re-evaluating the same site during a fixpoint iteration yields the same token/permutation names."""
        key = (kind, id(node), tuple(id(n) for n in self.call_nodes), tuple(l.token for l in self.loops), tuple(self.unroll_idx))
        n = self._site_ids.get(key)
        if n is None:
            n = self._site_ids[key] = len(self._site_ids) + 1
        return n

    def with_pc(self, v, state):
        """Control-dependence taint. In shift mode a value that is itself shift invariant stays so under a branch: the
        branch conditions are checked separately (comparison of equal shift responses)."""
        if self.shift_mode and isinstance(v, Num) and v.wt is None and "MU" not in v.prov:
            v = replace(v, wt=((), ()))
        return replace(v, prov=v.prov | state.pc)

    def note_range(self, v) -> None:
        """Side table term -> interval over all visits (lets a rule ask for the range of a factor of a stored term)."""
        if self.track_sym_ranges and isinstance(v, Num) and v.sym is not None and v.rng is not None:
            old = self.sym_rng.get(v.sym)
            self.sym_rng[v.sym] = v.rng if old is None else old.join(v.rng)

    def cur_func(self) -> str:
        return self.stack[-1].label if self.stack else "<top>"

    def cur_stack(self) -> Tuple[str, ...]:
        return tuple(f.label for f in self.stack)

    def event(self, kind: str, node, **data) -> Event:
        e = Event(kind, node, self.cur_func(), self.cur_stack(), **data)
        self.events.append(e)
        return e

    def note_undecided(self, msg: str, node=None) -> None:
        where = f" at {self.cur_func()}:{getattr(node, 'lineno', '?')}" if node is not None else ""
        m = msg + where
        if m not in self.undecided:
            self.undecided.append(m)

    def axiom(self, text: str) -> None:
        self.axioms_used.add(text)

    def _site_key(self, node, kind: str):
        return (id(node), kind, self.cur_func())

    def diag(self, domain: str, kind: str, node, msg: str, ok: bool, **info) -> None:
        k = (domain,) + self._site_key(node, kind)
        d = self.diags.get(k)
        if d is None:
            d = self.diags[k] = {
                "domain": domain,
                "kind": kind,
                "node": node,
                "func": self.cur_func(),
                "stack": self.cur_stack(),
                "ok": True,
                "msgs": [],
                "visits": 0,
                "info": info,
            }
        d["visits"] += 1
        if not ok:
            d["ok"] = False
            if msg and msg not in d["msgs"]:
                d["msgs"].append(msg)
            d["info"] = info

    def oblige(self, kind: str, node, ok: bool, msg: str, **info) -> None:
        # operands=...: the checked values; a failure on a value read from a weakly updated list (tag WEAK: placeholder and
        # final elements joined) is recorded as weak — the analysis cannot tell whether the placeholder survives
        operands = info.pop("operands", ())
        weak = any("WEAK" in getattr(x, "prov", ()) for x in operands)
        k = self._site_key(node, kind)
        d = self.obligations.get(k)
        if d is None:
            d = self.obligations[k] = {
                "kind": kind,
                "node": node,
                "func": self.cur_func(),
                "stack": self.cur_stack(),
                "ok": True,
                "msgs": [],
                "visits": 0,
                "info": info,
            }
        d["visits"] += 1
        if not ok:
            d["ok"] = False
            d["weak"] = d.get("weak", True) and weak
            if msg not in d["msgs"]:
                d["msgs"].append(msg)
        elif not d["msgs"]:
            d["info"] = dict(info, msg=msg)

    def on_arith(self, node, opname: str, a: Num, b: Num, prov) -> None:
        h = self.hooks.get("arith")
        if h:
            h(self, node, opname, a, b)

    def on_compare(self, node, op, a, b) -> None:
        h = self.hooks.get("compare")
        if h:
            h(self, node, op, a, b)

    def hook(self, name: str, *args) -> None:
        h = self.hooks.get(name)
        if h:
            h(self, *args)

    # ==================================================================================
    # raising
    # ==================================================================================
    def do_raise(self, state: State, exc: str, node, implicit: bool = False, mro: Tuple[str, ...] = ()) -> None:
        if state.bottom:
            return
        ev = Event(
            "raise",
            node,
            self.cur_func(),
            self.cur_stack(),
            exc=exc,
            implicit=implicit,
            effects=state.effects,
            mro=mro or (exc,),
            state=state.copy() if self.try_depth else None,
            via=tuple(norm_text(n, 70) for n in self.call_nodes if n is not None),
        )
        self.raises.append(ev)
        state.bottom = True

    # ==================================================================================
    # heap
    # ==================================================================================
    def active_tokens(self) -> Tuple[str, ...]:
        return tuple(l.token for l in self.loops)

    def alloc(self, state: State, obj, node, tag: str = "", origin: Optional[str] = None) -> Ptr:
        ctx = "/".join(str(getattr(n, "lineno", 0)) + "." + str(getattr(n, "col_offset", 0)) for n in self.call_nodes[-4:])
        loc = f"{tag or type(obj).__name__}@{self.cur_func()}:{getattr(node, 'lineno', 0)}.{getattr(node, 'col_offset', 0)}<{ctx}>"
        if self.unroll_idx:
            loc += "#" + ".".join(map(str, self.unroll_idx))
        toks = self.active_tokens()
        doms = tuple(l.length for l in self.loops)
        state.heap[loc] = Cell(obj, toks, doms, origin or f"alloc:{self.cur_func()}", node)
        # a re-allocation at the same site (next iteration) resets strong facts about the old instance
        for k in [k for k in state.overlay if k[0] == loc]:
            del state.overlay[k]
        return Ptr(loc, tuple(ivar(t) for t in toks))

    def cell(self, state: State, p: Ptr) -> Optional[Cell]:
        return state.heap.get(p.loc)

    def deref(self, state: State, p: Ptr):
        """Object of a pointer with family parameters instantiated."""
        c = state.heap.get(p.loc)
        if c is None:
            return None
        return c.obj, self._env_for(c, p)

    def _env_for(self, c: Cell, p: Ptr) -> Dict[str, Any]:
        env = {}
        for name, i in zip(c.params, p.idx):
            if i != ivar(name):
                env[name] = i
        return env

    # ---- fields --------------------------------------------------------------------
    def read_field_raw(self, state: State, loc: str, idx: Tuple, fld: str) -> Optional[Val]:
        """Underlying (summary) value of a field, ignoring the overlay."""
        c = state.heap.get(loc)
        if c is None or not isinstance(c.obj, InstObj):
            return None
        v = c.obj.get(fld)
        if v is None:
            return None
        env = {}
        for name, i in zip(c.params, idx):
            if i in (ALL,) or i[0] == "ghost":
                env[name] = STAR
            elif i != ivar(name):
                env[name] = i
        return subst_val(v, env) if env else v

    def read_field(self, state: State, p: Ptr, fld: str) -> Optional[Val]:
        base = self.read_field_raw(state, p.loc, p.idx, fld)
        if base is None:
            return None
        entries = state.overlay_entries(p.loc, fld)
        if not entries:
            return base
        exact = state.overlay.get((p.loc, p.idx, fld))
        if exact is not None:
            return exact
        for k, v in entries:
            if idx_matches(k[1], p.idx):
                return v
        out = base
        for k, v in entries:
            if idx_distinct(k[1], p.idx, self.token_loop):
                continue
            out = join_val(out, v)
        return out

    def write_field(self, state: State, p: Ptr, fld: str, v: Val, node) -> None:
        c = state.heap.get(p.loc)
        if c is None or not isinstance(c.obj, InstObj):
            return
        if state.pc and isinstance(v, (Num, Bool, Str)):
            v = self.with_pc(v, state)
        self.field_version[(p.loc, fld)] = self.field_version.get((p.loc, fld), 0) + 1
        singleton = not c.params
        precise = all(i != STAR and i[0] not in ("pa", "pb", "oth") for i in p.idx)
        if singleton:
            state.heap[p.loc] = replace(c, obj=c.obj.set(fld, v))
            return
        if not precise:
            old = c.obj.get(fld)
            state.heap[p.loc] = replace(c, obj=c.obj.set(fld, v if old is None else join_val(old, v)))
            for k, ov in state.overlay_entries(p.loc, fld):
                state.overlay[k] = join_val(ov, v)
            return
        if c.obj.get(fld) is None:
            # new attribute on a family object: becomes a (weak) summary field too
            state.heap[p.loc] = replace(c, obj=c.obj.set(fld, v))
        for k, ov in state.overlay_entries(p.loc, fld):
            if k[1] == p.idx:
                continue
            if idx_distinct(k[1], p.idx, self.token_loop):
                continue
            state.overlay[k] = join_val(ov, v)
        state.overlay[(p.loc, p.idx, fld)] = v

    # ---- generalisation at loop boundaries -------------------------------------------
    def _ghostify(self, state: State, lc: LoopCtx) -> None:
        """End of one iteration: facts about the current element become facts about 'an earlier iteration'."""
        tok = lc.token
        env_g = {tok: ("ghost", lc.loopid)}
        env_s = {tok: STAR}
        for k in list(state.overlay):
            vs: set = set()
            for i in k[1]:
                index_vars(i, vs)
            if tok not in vs:
                continue
            v = state.overlay.pop(k)
            nk = (k[0], tuple(subst_index(i, env_g) for i in k[1]), k[2])
            # inside the value the token becomes a reference to the instance's own parameter when the key
            # component is the bare token, otherwise an unknown position
            c = state.heap.get(k[0])
            own = None
            if c is not None:
                for j, i in enumerate(k[1]):
                    if i == ivar(tok) and j < len(c.params):
                        own = ivar(c.params[j])
                        break
            v = subst_val(v, {tok: own} if own is not None else env_s)
            old = state.overlay.get(nk)
            state.overlay[nk] = v if old is None else join_val(old, v)

    def _close_loop_overlay(self, state: State, lc: LoopCtx, had_break: bool) -> None:
        g = ("ghost", lc.loopid)
        for k in list(state.overlay):
            if not any(_contains(i, g) for i in k[1]):
                continue
            v = state.overlay.pop(k)
            c = state.heap.get(k[0])
            ok = lc.covering and not had_break and c is not None
            new_idx = []
            if ok:
                for pos, i in enumerate(k[1]):
                    if _contains(i, g):
                        # covering: the loop's sequence length equals the domain of this family parameter
                        dom = c.domains[pos] if pos < len(c.domains) else None
                        env = {c.params[j]: k[1][j] for j in range(pos)}
                        if dom is None or not dom.subst(env).same(lc.length):
                            ok = False
                            break
                        new_idx.append(ALL)
                    else:
                        new_idx.append(i)
            if ok:
                nk = (k[0], tuple(new_idx), k[2])
                if all(i == ALL for i in new_idx):
                    state.heap[k[0]] = replace(c, obj=c.obj.set(k[2], v))
                    self.event("strong-update", None, loc=k[0], field=k[2])
                else:
                    old = state.overlay.get(nk)
                    state.overlay[nk] = v if old is None else join_val(old, v)
            else:
                if c is not None and isinstance(c.obj, InstObj):
                    old = c.obj.get(k[2])
                    state.heap[k[0]] = replace(c, obj=c.obj.set(k[2], v if old is None else join_val(old, v)))
                    # the weak update may also concern instances described by other entries
                    for k2, ov in state.overlay_entries(k[0], k[2]):
                        state.overlay[k2] = join_val(ov, v)

    def _kill_token(self, state: State, tok: str, frame_ids) -> None:
        env = {tok: STAR}
        for key, v in list(state.vars.items()):
            vs: set = set()
            val_index_vars(v, vs)
            if tok in vs:
                state.vars[key] = subst_val(v, env)
        for loc, c in list(state.heap.items()):
            if tok in c.params:
                continue
            o = c.obj
            if isinstance(o, ListObj):
                vs = set()
                val_index_vars(o.seq, vs)
                if o.build is not None:
                    for x in o.build.appended:
                        val_index_vars(x, vs)
                if tok in vs:
                    b = o.build
                    if b is not None:
                        b = replace(b, appended=tuple(subst_val(x, env) for x in b.appended))
                    state.heap[loc] = replace(c, obj=ListObj(subst_val(o.seq, env), b))
            elif isinstance(o, InstObj):
                changed = False
                flds = []
                for n, v in o.fields:
                    vs = set()
                    val_index_vars(v, vs)
                    if tok in vs:
                        v = subst_val(v, env)
                        changed = True
                    flds.append((n, v))
                if changed:
                    state.heap[loc] = replace(c, obj=InstObj(o.cls, tuple(flds)))
            elif isinstance(o, DictObj):
                vs = set()
                val_index_vars(o.key, vs)
                val_index_vars(o.val, vs)
                if tok in vs:
                    state.heap[loc] = replace(c, obj=replace(o, key=subst_val(o.key, env), val=subst_val(o.val, env)))

    # ---- lists -------------------------------------------------------------------------
    def list_seq(self, state: State, p: Ptr) -> Optional[Seq]:
        """Current content of a list object as a Seq (pending appends folded in, imprecisely)."""
        d = self.deref(state, p)
        if d is None:
            return None
        o, env = d
        if not isinstance(o, (ListObj, IterObj)):
            return None
        s = o.seq
        if isinstance(o, ListObj) and o.build is not None:
            s = self._seq_with_pending(s, o.build)
        return subst_val(s, env) if env else s

    def _seq_with_pending(self, s: Seq, b: Build) -> Seq:
        extra = list(b.appended)
        if b.gen is not None:
            extra.append(subst_val(b.gen, {b.kvar: STAR}))
        if not extra:
            return s
        elem = s.elem if s.length.hi != 0 else Bottom()
        for x in extra:
            xs: set = set()
            val_index_vars(x, xs)
            x = subst_val(x, {t: STAR for t in xs if t in self.token_loop})
            elem = join_val(elem, x)
        return Seq(Length(None, s.length.lo, INF), subst_val(elem, {s.kvar: STAR}), s.kvar, None, None, s.flags | {"building"})

    def list_append(self, state: State, p: Ptr, v: Val, node) -> None:
        c = state.heap.get(p.loc)
        if c is None or not isinstance(c.obj, ListObj):
            self.note_undecided("append to a non-list", node)
            return
        if state.pc and isinstance(v, (Num, Bool, Str)):
            v = self.with_pc(v, state)
        o = c.obj
        # loops that are active now but were not when the list was allocated
        outer = [l for l in self.loops if l.token not in c.params]
        precise_ptr = all(i == ivar(n) for i, n in zip(p.idx, c.params))
        if not precise_ptr:
            # append to some member of a family: weak
            s = o.seq
            state.heap[p.loc] = replace(
                c, obj=ListObj(Seq(Length(None, s.length.lo, INF), join_val(s.elem, v) if s.length.hi != 0 else v, s.kvar, None, None, s.flags | {"weak-append"}))
            )
            return
        if not outer:
            s = o.seq
            if s.fixed is not None:
                fixed = s.fixed + (v,)
                elem = v if not s.fixed else join_val(s.elem, v)
                state.heap[p.loc] = replace(
                    c, obj=ListObj(Seq(Length.const(len(fixed)), elem, s.kvar, fixed, None, s.flags))
                )
            else:
                state.heap[p.loc] = replace(
                    c,
                    obj=ListObj(
                        Seq(s.length.plus(1), join_val(s.elem, v), s.kvar, None, s.witness, s.flags | {"tail-append"})
                    ),
                )
            return
        lc = outer[-1]
        b = o.build
        if b is not None and b.nest == lc.loopid and not b.irregular:
            # the inner loop of a nested filling (see Build.nest)
            ib = b.inner or Build(lc.loopid, (), None, None, "", f"k{lc.loopid}")
            ib = replace(ib, appended=ib.appended + (v,))
            state.heap[p.loc] = replace(c, obj=ListObj(o.seq, replace(b, inner=ib)))
            return
        if b is None and len(outer) >= 2 and o.seq.length.known() == 0 and self._others_of(lc, outer[-2]):
            # first append inside `for a in S: for b in S without a:` to a list created outside both loops
            oc = outer[-2]
            nb = Build(oc.loopid, (), None, None, "", f"k{oc.loopid}", nest=lc.loopid, inner=Build(lc.loopid, (v,), None, None, "", f"k{lc.loopid}"))
            state.heap[p.loc] = replace(c, obj=ListObj(o.seq, nb))
            return
        if b is None or b.loop != lc.loopid:
            if b is not None:
                # appended in two different loops: give up the map shape
                b = Build(lc.loopid, (), b.gen, b.per_iter, "multi-append", b.kvar)
            else:
                b = Build(lc.loopid, (), None, None, "", f"k{lc.loopid}")
        b = replace(b, appended=b.appended + (v,))
        state.heap[p.loc] = replace(c, obj=ListObj(o.seq, b))

    @staticmethod
    def _others_of(inner_lc: LoopCtx, outer_lc: LoopCtx) -> bool:
        s = getattr(inner_lc, "seq", None)
        t = inner_lc.length.term
        return s is not None and "others-of" in s.flags and isinstance(t, tuple) and len(t) == 3 and t[0] == "add" and t[2] == -1 and t[1] == outer_lc.length.term

    @staticmethod
    def _step_build(b: Build, token: str) -> Build:
        """End of one iteration of the loop a (plain) build belongs to."""
        n = len(b.appended)
        irr = b.irregular
        if b.per_iter is not None and b.per_iter != n:
            irr = irr or "cond-append"
        if n > 1:
            irr = irr or "multi-append"
        gen = b.gen
        for x in b.appended:
            gx = subst_val(x, {token: ivar(b.kvar)})
            gen = gx if gen is None else join_val(gen, gx)
        return replace(b, appended=(), gen=gen, per_iter=max(n, b.per_iter or 0), irregular=irr)

    def _end_iteration_builds(self, state: State, lc: LoopCtx) -> None:
        for loc, c in list(state.heap.items()):
            o = c.obj
            if isinstance(o, ListObj) and o.build is not None and o.build.inner is not None and o.build.inner.loop == lc.loopid:
                state.heap[loc] = replace(c, obj=ListObj(o.seq, replace(o.build, inner=self._step_build(o.build.inner, lc.token))))
                continue
            if isinstance(o, ListObj) and o.build is not None and o.build.loop == lc.loopid and o.build.nest is not None:
                b = o.build
                irr = b.irregular
                if b.appended or b.inner is not None or b.rows > 1 or (b.rows_per is not None and b.rows_per != b.rows):
                    irr = irr or ("multi-append" if b.appended or b.rows > 1 else "cond-append")
                rg = subst_val(b.rowgen, {lc.token: ivar(b.kvar)}) if b.rowgen is not None else None
                state.heap[loc] = replace(c, obj=ListObj(o.seq, replace(b, rows=0, rows_per=max(b.rows, b.rows_per or 0), rowgen=rg, irregular=irr, inner=None)))
                continue
            if isinstance(o, ListObj) and o.build is not None and o.build.loop == lc.loopid:
                b = o.build
                n = len(b.appended)
                irr = b.irregular
                if b.per_iter is not None and b.per_iter != n:
                    irr = irr or "cond-append"
                if n > 1:
                    irr = irr or "multi-append"
                gen = b.gen
                for x in b.appended:
                    gx = subst_val(x, {lc.token: ivar(b.kvar)})
                    gen = gx if gen is None else join_val(gen, gx)
                state.heap[loc] = replace(c, obj=ListObj(o.seq, Build(b.loop, (), gen, max(n, b.per_iter or 0), irr, b.kvar)))
            elif isinstance(o, DictObj):
                pass

    def _finalize_builds(self, state: State, lc: LoopCtx, had_break: bool, zero_iter_possible: bool) -> None:
        for loc, c in list(state.heap.items()):
            o = c.obj
            if isinstance(o, ListObj) and o.build is not None and o.build.inner is not None and o.build.inner.loop == lc.loopid:
                # the inner loop of a nested filling ends: one row is complete
                b, ib = o.build, o.build.inner
                gen = ib.gen
                for x in ib.appended:
                    gx = subst_val(x, {lc.token: ivar(ib.kvar)})
                    gen = gx if gen is None else join_val(gen, gx)
                ok = not ib.irregular and ib.per_iter in (None, 1) and not had_break and gen is not None
                oc_ = next((l for l in self.loops if l.loopid == b.loop), None)
                if gen is not None and oc_ is not None:
                    gen = subst_val(gen, {oc_.token: ivar(b.kvar)})  # generalise the outer position before joining with earlier rows
                if ok:
                    rg = gen if b.rowgen is None else join_val(b.rowgen, gen)
                    nb = replace(b, inner=None, rows=b.rows + 1, rowgen=rg, inner_kvar=ib.kvar, inner_len=lc.length)
                else:
                    g = gen if gen is not None else Top("empty row")
                    nb = replace(b, inner=None, rows=b.rows + 1, rowgen=g if b.rowgen is None else join_val(b.rowgen, g), inner_kvar=ib.kvar, inner_len=lc.length,
                                 irregular=b.irregular or ib.irregular or ("break" if had_break else "cond-append"))
                state.heap[loc] = replace(c, obj=ListObj(o.seq, nb))
                continue
            if isinstance(o, ListObj) and o.build is not None and o.build.loop == lc.loopid and o.build.nest is not None:
                b = o.build
                base = o.seq
                if b.rowgen is None and not b.appended:
                    state.heap[loc] = replace(c, obj=ListObj(base, None))
                    continue
                il = b.inner_len
                regular = (not b.irregular and not b.appended and b.inner is None and b.rows == 0 and b.rows_per in (None, 1) and not had_break and base.length.known() == 0
                           and il is not None and il.term == ("add", lc.length.term, -1) and lc.length.term is not None)
                if regular:
                    # rows of "the others" in the order of the outer positions = the ordered pairs of distinct positions, grouped by first component
                    pk = f"kp{lc.loopid}"
                    ok_, ik_ = ivar(b.kvar), ivar(b.inner_kvar)

                    def fn(t, ok_=ok_, ik_=ik_, pk=pk):
                        if t == ok_:
                            return ("pa", ivar(pk))
                        if t == ("oth", ik_):
                            return ("pb", ivar(pk))
                        if t == ik_:
                            return STAR
                        return None

                    from .values import map_val_indices

                    elem = map_val_indices(b.rowgen, fn)
                    lo, hi = lc.length.lo, lc.length.hi
                    length = Length(("pairs", lc.length.term), lo * (lo - 1) if lo >= 1 else 0, hi * (hi - 1) if hi < INF else INF)
                    self.pairs_base[lc.length.term] = lc.length
                    self.axiom("rows of 'all positions but a' taken for a in the order of S enumerate the ordered pairs of distinct positions grouped by first component (the order of itertools.permutations(S, 2))")
                    state.heap[loc] = replace(c, obj=ListObj(Seq(length, elem, pk, None, None, frozenset({"pairs"}), "list"), None))
                else:
                    g = subst_val(subst_val(b.rowgen, {b.kvar: STAR}), {b.inner_kvar: STAR}) if b.rowgen is not None else Top("rows")
                    for x in b.appended:
                        g = join_val(g, subst_val(x, {lc.token: STAR}))
                    elem = g if base.length.known() == 0 else join_val(subst_val(base.elem, {base.kvar: STAR}), g)
                    flags = set(base.flags) | {b.irregular or "multi-append", "reordered"}
                    state.heap[loc] = replace(c, obj=ListObj(Seq(Length(None, base.length.lo, INF), elem, b.kvar, None, None, frozenset(flags), "list"), None))
                continue
            if not (isinstance(o, ListObj) and o.build is not None and o.build.loop == lc.loopid):
                continue
            b = o.build
            base = o.seq
            if b.gen is None and not b.appended:
                state.heap[loc] = replace(c, obj=ListObj(base, None))
                continue
            gen = b.gen
            for x in b.appended:  # leftovers (e.g. state at a break)
                gx = subst_val(x, {lc.token: ivar(b.kvar)})
                gen = gx if gen is None else join_val(gen, gx)
            flags = set(base.flags)
            regular = not b.irregular and (b.per_iter in (None, 1)) and not had_break and base.length.known() == 0
            if regular:
                seq = Seq(lc.length, gen, b.kvar, None, None, frozenset(), "list")
            else:
                why = b.irregular or ("break" if had_break else "tail-append" if base.length.known() != 0 else "multi-append")
                flags.add(why)
                flags.add("reordered")
                g = subst_val(gen, {b.kvar: STAR})
                elem = g if base.length.known() == 0 else join_val(subst_val(base.elem, {base.kvar: STAR}), g)
                per = b.per_iter or 1
                hi = base.length.hi + lc.length.hi * per if lc.length.hi < INF and base.length.hi < INF else INF
                lo = base.length.lo + (lc.length.lo if (why in ("multi-append", "tail-append")) else 0)
                seq = Seq(Length(None, lo, hi), elem, b.kvar, None, None, frozenset(flags), "list")
            state.heap[loc] = replace(c, obj=ListObj(seq, None))

    # ==================================================================================
    # truthiness / isinstance
    # ==================================================================================
    def truth(self, state: State, v: Val) -> Optional[bool]:
        if isinstance(v, Bool):
            return v.tv
        if isinstance(v, NoneV):
            return False
        if isinstance(v, Num):
            if v.const is not None:
                return bool(v.const)
            if v.rng is not None:
                if not v.rng.contains_zero():
                    return True
                if v.rng.lo == 0 == v.rng.hi:
                    return False
            return None
        if isinstance(v, Str):
            return None if v.const is None else bool(v.const)
        if isinstance(v, Ptr):
            d = self.deref(state, v)
            if d is None:
                return None
            o, env = d
            if isinstance(o, ListObj):
                s = self.list_seq(state, v)
                if s.length.lo >= 1:
                    return True
                if s.length.hi == 0:
                    return False
                return None
            if isinstance(o, DictObj):
                if o.length.lo >= 1:
                    return True
                if o.length.hi == 0:
                    return False
                return None
            if isinstance(o, InstObj):
                if o.cls.lookup("__bool__") or o.cls.lookup("__len__"):
                    return None
                return True
            return True
        if isinstance(v, (TupleV,)):
            return len(v.items) > 0
        if isinstance(v, Seq):
            if v.length.lo >= 1:
                return True
            if v.length.hi == 0:
                return False
            return None
        if isinstance(v, (FuncV, ClassV, ExtV)):
            return True
        if isinstance(v, Opaque):
            return v.truthy
        if isinstance(v, Union):
            ts = {self.truth(state, o) for o in v.opts}
            return ts.pop() if len(ts) == 1 else None
        return None

    def narrow_truth(self, state: State, v: Val, want: bool) -> Val:
        """Restrict a value to the part consistent with truthiness == want (Bottom if none)."""
        if isinstance(v, Union):
            keep = [o for o in v.opts if self.truth(state, o) in (want, None)]
            if not keep:
                return Bottom()
            out = keep[0]
            for o in keep[1:]:
                out = join_val(out, o)
            return out
        t = self.truth(state, v)
        if t is not None and t != want:
            return Bottom()
        return v

    def class_matches(self, state: State, v: Val, cls: Val) -> Optional[bool]:
        """isinstance(v, cls) three-valued."""
        if isinstance(cls, TupleV):
            rs = [self.class_matches(state, v, c) for c in cls.items]
            if any(r is True for r in rs):
                return True
            if isinstance(v, Num) and v.kinds:
                # a number whose every possible kind is accepted by one of the listed classes
                table = {"builtin.int": {"int", "bool"}, "builtin.float": {"float"}, "builtin.bool": {"bool"}}
                acc = set()
                for c in cls.items:
                    if isinstance(c, ClassV) and c.ci is None:
                        acc |= table.get(c.ext, set())
                if v.kinds <= acc:
                    return True
            if all(r is False for r in rs):
                return False
            return None
        if isinstance(v, Union):
            rs = {self.class_matches(state, o, cls) for o in v.opts}
            return rs.pop() if len(rs) == 1 else None
        if not isinstance(cls, ClassV):
            return None
        if cls.ext == "builtin.object":
            return True
        if isinstance(v, (Top,)):
            return None
        if isinstance(v, Bool):
            return cls.ext in ("builtin.bool", "builtin.int")
        if isinstance(v, Num):
            if cls.ci is not None:
                return False
            table = {"builtin.int": {"int", "bool"}, "builtin.float": {"float"}, "builtin.bool": {"bool"}, "builtin.complex": set()}
            if cls.ext not in table:
                return False if cls.ext.startswith("builtin.") else None
            if not v.kinds:
                return None
            ok = v.kinds & table[cls.ext]
            if ok == v.kinds:
                return True
            if not ok:
                return False
            return None
        if isinstance(v, NoneV):
            return cls.ext == "builtin.NoneType"
        if isinstance(v, Str):
            return cls.ext == "builtin.str"
        if isinstance(v, TupleV):
            return cls.ext == "builtin.tuple"
        if isinstance(v, Seq):
            if v.kind == "set":
                return cls.ext in ("builtin.set", "builtin.frozenset")
            return cls.ext == ("builtin.tuple" if v.kind == "tuple" else "builtin.list") if v.kind != "iter" else False
        if isinstance(v, Opaque):
            return False
        if isinstance(v, (FuncV, ClassV, ExtV)):
            return False
        if isinstance(v, Ptr):
            d = self.deref(state, v)
            if d is None:
                return None
            o = d[0]
            if isinstance(o, ListObj):
                return cls.ext == "builtin.list"
            if isinstance(o, DictObj):
                return cls.ext == "builtin.dict"
            if isinstance(o, InstObj):
                if cls.ci is not None:
                    return o.cls.is_subclass_of(cls.ci)
                return False
            if isinstance(o, ExtInst):
                return cls.ext == o.qual
            return False
        return None

    def narrow_class(self, state: State, v: Val, cls: Val, want: bool) -> Val:
        if isinstance(v, Union):
            keep = [o for o in v.opts if self.class_matches(state, o, cls) in (want, None)]
            if not keep:
                return Bottom()
            out = self.narrow_class(state, keep[0], cls, want)
            for o in keep[1:]:
                out = join_val(out, self.narrow_class(state, o, cls, want))
            return out
        if isinstance(v, Num) and v.kinds:
            names = set()
            for c in cls.items if isinstance(cls, TupleV) else (cls,):
                if isinstance(c, ClassV):
                    names |= {"builtin.int": {"int", "bool"}, "builtin.float": {"float"}, "builtin.bool": {"bool"}}.get(c.ext, set())
            k = (v.kinds & names) if want else (v.kinds - names)
            if not k:
                return Bottom()
            return replace(v, kinds=frozenset(k))
        r = self.class_matches(state, v, cls)
        if r is not None and r != want:
            return Bottom()
        return v
