"""Location-weight domain (C16 shift clause, DESIGN R16.3).

A value carries (A, M): under the shift  mu_p -> mu_p + d  of every player's mu it becomes (value + A*d) * exp(M*d).
A and M are coefficient polynomials (osv.poly) over TEAMSIZE (all teams have the same number of players: the
statement's assumption) and value-numbered shift-invariant factors such as 1/c. A value without an explicit weight that does
not depend on any player's mu (provenance tag MU absent) is invariant (0, 0).
"""

from __future__ import annotations

from fractions import Fraction
from typing import Any, Optional, Tuple

from ..poly import freeze, p_add, p_atom, p_const, p_mul, p_neg, p_pow, show, to_poly

ZERO = ((), ())  # frozen (A, M) = (0, 0)
TEAMSIZE = ("shift", "TEAMSIZE")


def fz(p) -> Tuple:
    return freeze(p)


def th(t) -> dict:
    return dict(t)


def player_mu_weight():
    return (fz(p_const(1)), ())


def weight_of(I, a) -> Optional[Tuple]:
    if a.wt is not None:
        return a.wt
    if "MU" not in a.prov:
        return ZERO
    return None


def _unify_teamsize(sym):
    """All team sizes are one symbol (equal-size assumption)."""
    if isinstance(sym, tuple) and sym and sym[0] == "lenterm" and isinstance(sym[1], tuple) and sym[1] and sym[1][0] == "len" and sym[1][1] == "IN.team":
        return TEAMSIZE
    return sym


def scale_poly(a):
    """Normal form of an invariant factor (by its value number), or None."""
    if a.const is not None and isinstance(a.const, (int, float)) and not isinstance(a.const, bool):
        return p_const(a.const)
    if a.sym is None:
        return None
    return to_poly(a.sym, _unify_teamsize)


def diag(I, node, msg: str, ok: bool) -> None:
    I.diag("shift", "weight", node, msg, ok=ok)


def binop(I, opname: str, a, b, node):
    wa, wb = weight_of(I, a), weight_of(I, b)
    if wa is None or wb is None:
        return None
    Aa, Ma, Ab, Mb = th(wa[0]), th(wa[1]), th(wb[0]), th(wb[1])
    if opname in ("add", "sub"):
        # the constant 0 has every multiplicative response (0 * exp(M d) = 0)
        if Ma != Mb and not Aa and not Ab:
            if wa == ZERO and a.const == 0:
                Ma = Mb
            elif wb == ZERO and b.const == 0:
                Mb = Ma
        if Ma != Mb:
            diag(I, node, f"{opname} of values that respond differently to a shift of all mu (multiplicative exponents {show(Ma, 80)} vs {show(Mb, 80)})", False)
            return None
        if Ma and (Aa or Ab):
            diag(I, node, "mixing an additive and a multiplicative response to a shift of all mu", False)
            return None
        diag(I, node, "", True)
        return (fz(p_add(Aa, Ab, 1 if opname == "add" else -1)), fz(Ma))
    if opname == "mul":
        if not Aa and not Ab:
            return (fz({}), fz(p_add(Ma, Mb)))
        for (A1, M1, x1), (A2, M2, x2) in (((Aa, Ma, a), (Ab, Mb, b)), ((Ab, Mb, b), (Aa, Ma, a))):
            if not A2 and not M2:  # second operand invariant: scales the additive weight
                s = scale_poly(x2)
                if s is None:
                    return None
                if M1:
                    diag(I, node, "a value with both additive and multiplicative shift response", False)
                    return None
                return (fz(p_mul(A1, s)), fz({}))
        diag(I, node, "product of two quantities that both shift with mu: the result is not an affine function of the shift", False)
        return None
    if opname == "div":
        if Ab:
            diag(I, node, "division by a quantity that shifts additively with mu", False)
            return None
        if not Aa:
            return (fz({}), fz(p_add(Ma, Mb, -1)))
        if Mb or Ma:
            diag(I, node, "an additively shifting value divided by a multiplicatively shifting one", False)
            return None
        s = scale_poly(b)
        if s is None or not s:
            return None
        inv = p_pow(s, Fraction(-1))
        if inv is None:
            return None
        return (fz(p_mul(Aa, inv)), fz({}))
    if opname == "pow":
        if not Aa and not Ab and not Mb:
            k = b.const
            if isinstance(k, (int, float)) and not isinstance(k, bool):
                return (fz({}), fz(p_mul(Ma, p_const(k))))
            if not Ma:
                return ZERO
            return None
        if b.const == 1:
            return wa
        diag(I, node, "a power of a quantity that shifts additively with mu", False)
        return None
    if not Aa and not Ab and not Ma and not Mb:
        return ZERO
    return None


def neg(I, a, node):
    w = weight_of(I, a)
    if w is None:
        return None
    return (fz(p_neg(th(w[0]))), w[1])


def invariant_only(I, what: str, a, node):
    """Functions that need a shift-invariant argument (sqrt, Phi, phi, Phi^-1, abs of an additive value, comparisons...)."""
    w = weight_of(I, a)
    if w is None:
        return None
    if w[0] or w[1]:
        diag(I, node, f"the argument of {what} changes when a constant is added to every mu (additive weight {show(dict(w[0]), 90)}, exponent {show(dict(w[1]), 60)}): "
                      "the result is not invariant under a change of the origin of the skill scale", False)
        return None
    diag(I, node, "", True)
    return ZERO


def exp(I, a, node):
    w = weight_of(I, a)
    if w is None:
        return None
    if w[1]:
        diag(I, node, "exp of a value with a multiplicative shift response", False)
        return None
    return (fz({}), w[0])


def abs_(I, a, node):
    w = weight_of(I, a)
    if w is None:
        return None
    if w[0]:
        return invariant_only(I, "abs", a, node)
    return w


def compare(I, a, b, node) -> None:
    wa, wb = weight_of(I, a), weight_of(I, b)
    if wa is None or wb is None:
        return
    ok = wa == wb and not wa[1]
    diag(I, node, "" if ok else "a comparison whose two sides respond differently to a shift of all mu: its outcome depends on the origin of the skill scale", ok)


def same(I, what: str, vals, node):
    ws = [weight_of(I, v) for v in vals]
    if any(w is None for w in ws):
        return None
    if any(w != ws[0] for w in ws[1:]):
        diag(I, node, f"{what} of values that respond differently to a shift of all mu", False)
        return None
    return ws[0]


def fold_sum(I, elem, length_term, node):
    """Sum of n values of weight (A, M): (n*A, M); n over a team's members is TEAMSIZE."""
    w = weight_of(I, elem)
    if w is None:
        return None
    if not w[0]:
        return w
    if isinstance(length_term, tuple) and length_term and length_term[0] == "len" and length_term[1] == "IN.team":
        return (fz(p_mul(th(w[0]), p_atom(TEAMSIZE))), w[1])
    diag(I, node, "a sum of additively shifting values over something other than the members of one team", False)
    return None
