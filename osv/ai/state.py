"""Abstract state: variables, heap cells (singletons and token-indexed families), overlay of
strong per-instance field facts, assumed relations, range refinements, effects performed."""

from __future__ import annotations

from dataclasses import dataclass, field, replace
from typing import Any, Dict, List, Optional, Tuple

from .values import (
    ALL,
    STAR,
    Bottom,
    Interval,
    Length,
    Seq,
    Top,
    Val,
    index_vars,
    join_seq,
    join_val,
    subst_index,
    subst_val,
    val_index_vars,
)

# --------------------------------------------------------------------------------------
# heap objects (immutable; replaced on update)
# --------------------------------------------------------------------------------------


@dataclass(frozen=True)
class Build:
    loop: int  # loop id the list is being built in
    appended: Tuple[Val, ...] = ()  # values appended so far in the current iteration
    gen: Optional[Val] = None  # generalised per-iteration value from earlier iterations (token -> kvar)
    per_iter: Optional[int] = None  # appends per iteration seen in earlier iterations
    irregular: str = ""  # 'cond-append' | 'multi-append'
    kvar: str = "k"
    # nested filling: the list is filled, once per iteration of `loop`, by a whole inner loop (`nest`) over the positions other
    # than the outer one; `inner` is the build of the inner loop while it runs, `rowgen` the generalised element of a finished row
    nest: Optional[int] = None
    inner: Optional["Build"] = None
    rows: int = 0
    rows_per: Optional[int] = None
    rowgen: Optional[Val] = None
    inner_kvar: str = ""
    inner_len: Any = None


@dataclass(frozen=True)
class ListObj:
    seq: Seq
    build: Optional[Build] = None
    kind: str = "list"


@dataclass(frozen=True)
class DictObj:
    key: Val = Top("empty")
    val: Val = Top("empty")
    length: Length = Length.const(0)
    fixed: Optional[Tuple[Tuple[Any, Val], ...]] = ()  # concrete-key entries while all keys are constants
    keyed: Optional[Tuple[str, Length]] = None  # (kvar, base length): keys are positions 0..len-1, val mentions kvar
    flags: frozenset = frozenset()
    kind: str = "dict"


@dataclass(frozen=True)
class InstObj:
    cls: Any  # ClassInfo
    fields: Tuple[Tuple[str, Val], ...] = ()
    kind: str = "inst"

    def get(self, name: str) -> Optional[Val]:
        for k, v in self.fields:
            if k == name:
                return v
        return None

    def set(self, name: str, v: Val) -> "InstObj":
        out = []
        done = False
        for k, old in self.fields:
            if k == name:
                out.append((k, v))
                done = True
            else:
                out.append((k, old))
        if not done:
            out.append((name, v))
        return InstObj(self.cls, tuple(out))

    def names(self) -> List[str]:
        return [k for k, _ in self.fields]


@dataclass(frozen=True)
class ExtInst:
    """Instance of an external (stdlib) class, e.g. statistics.NormalDist."""

    qual: str
    args: Tuple[Val, ...] = ()
    kind: str = "ext"


@dataclass(frozen=True)
class IterObj:
    seq: Seq
    kind: str = "iter"


@dataclass(frozen=True)
class Cell:
    obj: Any
    params: Tuple[str, ...] = ()  # index variables the content is parameterised by (family) — () for a singleton
    domains: Tuple[Length, ...] = ()  # size of each parameter's domain (for covering checks)
    origin: str = ""  # 'input:<role>' | 'alloc:<fn>' — classification for effect analysis
    site: Any = None


# --------------------------------------------------------------------------------------
# state
# --------------------------------------------------------------------------------------


@dataclass
class LoopCtx:
    loopid: int
    token: str
    length: Length
    covering: bool
    breaks: list = field(default_factory=list)
    continues: list = field(default_factory=list)
    seq: Any = None


class State:
    __slots__ = ("vars", "heap", "overlay", "rels", "facts", "effects", "pc", "bottom", "notes")

    def __init__(self):
        self.vars: Dict[Tuple[int, str], Val] = {}
        self.heap: Dict[str, Cell] = {}
        self.overlay: Dict[Tuple[str, Tuple, str], Val] = {}
        self.rels: Dict[Tuple[Any, Any], str] = {}
        self.facts: Dict[Any, Interval] = {}
        self.effects: frozenset = frozenset()
        self.pc: frozenset = frozenset()
        self.bottom: bool = False
        self.notes: frozenset = frozenset()

    def copy(self) -> "State":
        s = State()
        s.vars = dict(self.vars)
        s.heap = dict(self.heap)
        s.overlay = dict(self.overlay)
        s.rels = dict(self.rels)
        s.facts = dict(self.facts)
        s.effects = self.effects
        s.pc = self.pc
        s.bottom = self.bottom
        s.notes = self.notes
        return s

    def assign_from(self, o: "State") -> None:
        self.vars, self.heap, self.overlay = o.vars, o.heap, o.overlay
        self.rels, self.facts, self.effects, self.pc = o.rels, o.facts, o.effects, o.pc
        self.bottom, self.notes = o.bottom, o.notes

    def same(self, o: "State") -> bool:
        return (
            self.bottom == o.bottom
            and self.vars == o.vars
            and self.heap == o.heap
            and self.overlay == o.overlay
            and self.effects == o.effects
            and self.facts == o.facts
            and self.rels == o.rels
        )

    # ------------------------------------------------------------ relations
    def rel_lookup(self, a, b) -> Optional[frozenset]:
        """Set of possible relations (subset of LT/EQ/GT/UN) between two symbolic values, if assumed/refined."""
        r = self.rels.get((a, b))
        if r is not None:
            return r
        r = self.rels.get((b, a))
        if r is not None:
            return frozenset(_FLIP[x] for x in r)
        if isinstance(a, tuple) and isinstance(b, tuple) and len(a) == 2 and len(b) == 2 and a[0] == "neg" and b[0] == "neg":
            # -x ? -y  is  y ? x  (uniform negation reverses the order and keeps ties)
            r = self.rel_lookup(b[1], a[1])
            if r is not None:
                return r
        return None

    def rel_set(self, a, b, rels: frozenset) -> None:
        if (b, a) in self.rels:
            self.rels[(b, a)] = frozenset(_FLIP[x] for x in rels)
        else:
            self.rels[(a, b)] = rels

    # ------------------------------------------------------------ overlay helpers
    def overlay_entries(self, loc: str, fld: str):
        return [(k, v) for k, v in self.overlay.items() if k[0] == loc and k[2] == fld]


_FLIP = {"LT": "GT", "GT": "LT", "EQ": "EQ", "UN": "UN"}


def make_bottom() -> State:
    s = State()
    s.bottom = True
    return s


def idx_matches(pattern: Tuple, idx: Tuple) -> bool:
    """Overlay key `pattern` (may contain ALL) covers instance `idx`."""
    if len(pattern) != len(idx):
        return False
    for p, i in zip(pattern, idx):
        if p == ALL:
            continue
        if p != i:
            return False
    return True


def _token_of(comp) -> Optional[Tuple[str, Tuple]]:
    """(token name, perm signature) when comp is a token or a bijective image of one."""
    sig = []
    while comp[0] == "perm":
        sig.append((comp[1], comp[2]))
        comp = comp[3]
    if comp[0] == "v":
        return comp[1], tuple(sig)
    if comp[0] == "ghost":
        return f"#ghost{comp[1]}", tuple(sig)
    return None


def idx_distinct(a: Tuple, b: Tuple, token_loop: Dict[str, int]) -> bool:
    """Provably different instances: some component is (an image of) loop token t in one key and the
    ghost (an earlier iteration) of the same loop under the same bijection in the other, or two different
    constants."""
    if len(a) != len(b):
        return False
    for x, y in zip(a, b):
        if x[0] == "c" and y[0] == "c" and x[1] != y[1]:
            return True
        tx, ty = _token_of(x), _token_of(y)
        if tx is None or ty is None or tx[1] != ty[1]:
            continue
        nx, ny = tx[0], ty[0]
        if nx.startswith("#ghost") != ny.startswith("#ghost"):
            g, t = (nx, ny) if nx.startswith("#ghost") else (ny, nx)
            if token_loop.get(t) == int(g[len("#ghost") :]):
                return True
    return False


def join_states(a: State, b: State, reader) -> State:
    """Join two states. `reader(state, loc, idx, field)` reads the underlying (non-overlay) value for an
    overlay key that exists on one side only."""
    if a.bottom:
        return b.copy()
    if b.bottom:
        return a.copy()
    s = State()
    keys = set(a.vars) | set(b.vars)
    for k in keys:
        va, vb = a.vars.get(k), b.vars.get(k)
        if va is None:
            s.vars[k] = vb
        elif vb is None:
            s.vars[k] = va
        else:
            s.vars[k] = va if va is vb else join_val(va, vb)
    for loc in set(a.heap) | set(b.heap):
        ca, cb = a.heap.get(loc), b.heap.get(loc)
        if ca is None:
            s.heap[loc] = cb
        elif cb is None:
            s.heap[loc] = ca
        elif ca is cb or ca == cb:
            s.heap[loc] = ca
        else:
            s.heap[loc] = join_cells(ca, cb)
    for k in set(a.overlay) | set(b.overlay):
        va, vb = a.overlay.get(k), b.overlay.get(k)
        if va is None:
            va = reader(a, k[0], k[1], k[2])
        if vb is None:
            vb = reader(b, k[0], k[1], k[2])
        s.overlay[k] = join_val(va, vb)
    for k, r in a.rels.items():
        rb = b.rels.get(k)
        if rb is not None:
            s.rels[k] = r | rb
    for k, iv in a.facts.items():
        if k in b.facts:
            s.facts[k] = iv.join(b.facts[k])
    s.effects = a.effects | b.effects
    s.pc = a.pc & b.pc
    s.notes = a.notes | b.notes
    return s


def join_cells(a: Cell, b: Cell) -> Cell:
    oa, ob = a.obj, b.obj
    if type(oa) is not type(ob):
        return Cell(ExtInst("?join"), a.params, a.domains, a.origin, a.site)
    if isinstance(oa, ListObj):
        ba, bb = oa.build, ob.build
        build = None
        if ba is not None or bb is not None:
            if ba is None or bb is None or ba.loop != bb.loop:
                x = ba or bb
                other_len = 0
                build = replace(x, irregular=x.irregular or ("cond-append" if x.appended else ""))
            else:
                irr = ba.irregular or bb.irregular
                if len(ba.appended) != len(bb.appended):
                    irr = irr or "cond-append"
                    longer = ba.appended if len(ba.appended) > len(bb.appended) else bb.appended
                    shorter = bb.appended if longer is ba.appended else ba.appended
                    app = tuple(
                        join_val(x, shorter[i]) if i < len(shorter) else x for i, x in enumerate(longer)
                    )
                else:
                    app = tuple(join_val(x, y) for x, y in zip(ba.appended, bb.appended))
                gen = ba.gen if bb.gen is None else (bb.gen if ba.gen is None else join_val(ba.gen, bb.gen))
                per = ba.per_iter if ba.per_iter == bb.per_iter else (ba.per_iter if bb.per_iter is None else (bb.per_iter if ba.per_iter is None else -1))
                if per == -1:
                    irr = irr or "cond-append"
                    per = max(ba.per_iter or 0, bb.per_iter or 0)
                build = Build(ba.loop, app, gen, per, irr, ba.kvar)
                if ba.nest is not None or bb.nest is not None:
                    if ba.nest != bb.nest or (ba.inner is None) != (bb.inner is None) or ba.rows != bb.rows:
                        build = replace(build, irregular=irr or "cond-append", nest=ba.nest if ba.nest is not None else bb.nest)
                    else:
                        inner = None
                        if ba.inner is not None:
                            ia, ib = ba.inner, bb.inner
                            iirr = ia.irregular or ib.irregular or ("cond-append" if len(ia.appended) != len(ib.appended) or (ia.per_iter or ib.per_iter) != (ib.per_iter or ia.per_iter) else "")
                            iapp = tuple(join_val(x, y) for x, y in zip(ia.appended, ib.appended))
                            igen = ia.gen if ib.gen is None else (ib.gen if ia.gen is None else join_val(ia.gen, ib.gen))
                            inner = Build(ia.loop, iapp, igen, ia.per_iter if ia.per_iter is not None else ib.per_iter, iirr, ia.kvar)
                        rg = ba.rowgen if bb.rowgen is None else (bb.rowgen if ba.rowgen is None else join_val(ba.rowgen, bb.rowgen))
                        rp = ba.rows_per if ba.rows_per == bb.rows_per else (ba.rows_per if bb.rows_per is None else bb.rows_per if ba.rows_per is None else -1)
                        build = replace(build, nest=ba.nest, inner=inner, rows=ba.rows, rows_per=None if rp == -1 else rp, rowgen=rg, inner_kvar=ba.inner_kvar or bb.inner_kvar,
                                        inner_len=ba.inner_len if ba.inner_len is not None else bb.inner_len, irregular=irr or ("cond-append" if rp == -1 else ""))
        return Cell(ListObj(join_seq(oa.seq, ob.seq), build), a.params, a.domains, a.origin, a.site)
    if isinstance(oa, DictObj):
        fixed = None
        if oa.fixed is not None and ob.fixed is not None and [k for k, _ in oa.fixed] == [k for k, _ in ob.fixed]:
            fixed = tuple((k, join_val(v, w)) for (k, v), (_, w) in zip(oa.fixed, ob.fixed))
        la, lb = oa.length, ob.length
        key = ob.key if la.known() == 0 else oa.key if lb.known() == 0 else join_val(oa.key, ob.key)
        val = ob.val if la.known() == 0 else oa.val if lb.known() == 0 else join_val(oa.val, ob.val)
        keyed = oa.keyed if oa.keyed == ob.keyed else (oa.keyed if lb.known() == 0 else ob.keyed if la.known() == 0 else None)
        return Cell(DictObj(key, val, la.join(lb), fixed, keyed, oa.flags | ob.flags), a.params, a.domains, a.origin, a.site)
    if isinstance(oa, InstObj):
        if oa.cls is not ob.cls:
            return Cell(ExtInst("?join"), a.params, a.domains, a.origin, a.site)
        names = list(dict.fromkeys(oa.names() + ob.names()))
        flds = []
        for n in names:
            va, vb = oa.get(n), ob.get(n)
            if va is None:
                flds.append((n, vb))
            elif vb is None:
                flds.append((n, va))
            else:
                flds.append((n, join_val(va, vb)))
        return Cell(InstObj(oa.cls, tuple(flds)), a.params, a.domains, a.origin, a.site)
    if isinstance(oa, IterObj):
        return Cell(IterObj(join_seq(oa.seq, ob.seq)), a.params, a.domains, a.origin, a.site)
    return a
