"""Abstract values, intervals, symbolic lengths, index terms, substitution and join."""

from __future__ import annotations

import math
from dataclasses import dataclass, field, replace
from fractions import Fraction
from typing import Any, Dict, Optional, Tuple

INF = float("inf")

# ======================================================================================
# intervals (over the reals; rounding is not modelled — bounds are used with slack)
# ======================================================================================


@dataclass(frozen=True)
class Interval:
    lo: float = -INF
    hi: float = INF
    lo_open: bool = True
    hi_open: bool = True

    @staticmethod
    def point(v: float) -> "Interval":
        return Interval(float(v), float(v), False, False)

    @staticmethod
    def closed(lo: float, hi: float) -> "Interval":
        return Interval(float(lo), float(hi), lo == -INF, hi == INF)

    @staticmethod
    def top() -> "Interval":
        return Interval()

    def is_top(self) -> bool:
        return self.lo == -INF and self.hi == INF

    def is_empty(self) -> bool:
        if self.lo > self.hi:
            return True
        if self.lo == self.hi and (self.lo_open or self.hi_open):
            return True
        return False

    def finite(self) -> bool:
        return self.lo > -INF and self.hi < INF

    def contains(self, v: float) -> bool:
        if v < self.lo or v > self.hi:
            return False
        if v == self.lo and self.lo_open:
            return False
        if v == self.hi and self.hi_open:
            return False
        return True

    def contains_zero(self) -> bool:
        return self.contains(0.0)

    def gt0(self) -> bool:
        return self.lo > 0 or (self.lo == 0 and self.lo_open)

    def ge0(self) -> bool:
        return self.lo >= 0

    def lt0(self) -> bool:
        return self.hi < 0 or (self.hi == 0 and self.hi_open)

    def le0(self) -> bool:
        return self.hi <= 0

    def join(self, o: "Interval") -> "Interval":
        if self.is_empty():
            return o
        if o.is_empty():
            return self
        if self.lo < o.lo:
            lo, lo_open = self.lo, self.lo_open
        elif o.lo < self.lo:
            lo, lo_open = o.lo, o.lo_open
        else:
            lo, lo_open = self.lo, self.lo_open and o.lo_open
        if self.hi > o.hi:
            hi, hi_open = self.hi, self.hi_open
        elif o.hi > self.hi:
            hi, hi_open = o.hi, o.hi_open
        else:
            hi, hi_open = self.hi, self.hi_open and o.hi_open
        return Interval(lo, hi, lo_open, hi_open)

    def meet(self, o: "Interval") -> "Interval":
        if self.lo > o.lo:
            lo, lo_open = self.lo, self.lo_open
        elif o.lo > self.lo:
            lo, lo_open = o.lo, o.lo_open
        else:
            lo, lo_open = self.lo, self.lo_open or o.lo_open
        if self.hi < o.hi:
            hi, hi_open = self.hi, self.hi_open
        elif o.hi < self.hi:
            hi, hi_open = o.hi, o.hi_open
        else:
            hi, hi_open = self.hi, self.hi_open or o.hi_open
        return Interval(lo, hi, lo_open, hi_open)

    def widen(self, newer: "Interval") -> "Interval":
        lo, lo_open = self.lo, self.lo_open
        hi, hi_open = self.hi, self.hi_open
        if newer.lo < lo or (newer.lo == lo and lo_open and not newer.lo_open):
            lo, lo_open = -INF, True
        if newer.hi > hi or (newer.hi == hi and hi_open and not newer.hi_open):
            hi, hi_open = INF, True
        return Interval(lo, hi, lo_open, hi_open)

    # ---- arithmetic
    def neg(self) -> "Interval":
        return Interval(-self.hi, -self.lo, self.hi_open, self.lo_open)

    def add(self, o: "Interval") -> "Interval":
        return Interval(
            _sadd(self.lo, o.lo, -INF), _sadd(self.hi, o.hi, INF), self.lo_open or o.lo_open, self.hi_open or o.hi_open
        )

    def sub(self, o: "Interval") -> "Interval":
        return self.add(o.neg())

    def mul(self, o: "Interval") -> "Interval":
        cands = []
        for a, ao in ((self.lo, self.lo_open), (self.hi, self.hi_open)):
            for b, bo in ((o.lo, o.lo_open), (o.hi, o.hi_open)):
                cands.append(_smul(a, ao, b, bo))
        lo = min(cands, key=lambda c: (c[0], c[1]))  # closed (False) sorts before open at equal value
        hi = max(cands, key=lambda c: (c[0], not c[1]))
        return Interval(lo[0], hi[0], lo[1] or lo[0] == -INF, hi[1] or hi[0] == INF)

    def recip(self) -> Optional["Interval"]:
        """1/x for an interval not containing zero (None otherwise)."""
        if self.contains_zero():
            return None
        if self.gt0() or self.lt0():
            lo = 0.0 if abs(self.hi) == INF else 1.0 / self.hi
            lo_open = self.hi_open or abs(self.hi) == INF
            if self.lo == 0:
                hi, hi_open = (INF if self.gt0() else -INF), True
            else:
                hi, hi_open = 1.0 / self.lo, self.lo_open
            if self.hi == 0:  # negative interval touching zero from below
                lo, lo_open = -INF, True
            if lo > hi:
                lo, hi, lo_open, hi_open = hi, lo, hi_open, lo_open
            return Interval(lo, hi, lo_open or abs(lo) == INF, hi_open or abs(hi) == INF)
        return None

    def div(self, o: "Interval") -> Optional["Interval"]:
        r = o.recip()
        if r is None:
            return None
        return self.mul(r)

    def abs(self) -> "Interval":
        if self.ge0():
            return self
        if self.le0():
            return self.neg()
        n = self.neg()
        if n.hi > self.hi:
            hi, hi_open = n.hi, n.hi_open
        elif n.hi < self.hi:
            hi, hi_open = self.hi, self.hi_open
        else:
            hi, hi_open = self.hi, self.hi_open and n.hi_open
        return Interval(0.0, hi, False, hi_open)

    def square(self) -> "Interval":
        a = self.abs()
        return Interval(a.lo * a.lo, _smul(a.hi, False, a.hi, False)[0], a.lo_open, a.hi_open or a.hi == INF)

    def sqrt(self) -> "Interval":
        lo = max(self.lo, 0.0)
        lo_open = self.lo_open if self.lo >= 0 else False
        return Interval(math.sqrt(lo), math.sqrt(self.hi) if self.hi < INF else INF, lo_open, self.hi_open or self.hi == INF)

    def exp(self) -> "Interval":
        def e(x):
            if x == -INF:
                return 0.0
            if x > 709.78:
                return INF
            return math.exp(x)

        return Interval(e(self.lo), e(self.hi), self.lo_open or self.lo == -INF, self.hi_open or e(self.hi) == INF)

    def min(self, o: "Interval") -> "Interval":
        lo = min((self.lo, self.lo_open), (o.lo, o.lo_open), key=lambda c: (c[0], c[1]))
        hi = min((self.hi, self.hi_open), (o.hi, o.hi_open), key=lambda c: (c[0], not c[1]))
        return Interval(lo[0], hi[0], lo[1], hi[1])

    def max(self, o: "Interval") -> "Interval":
        lo = max((self.lo, self.lo_open), (o.lo, o.lo_open), key=lambda c: (c[0], c[1]))
        hi = max((self.hi, self.hi_open), (o.hi, o.hi_open), key=lambda c: (c[0], not c[1]))
        return Interval(lo[0], hi[0], lo[1], hi[1])

    def scale_count(self, nlo: int, nhi: float) -> "Interval":
        """Sum of n values from self with nlo <= n <= nhi (n integer >= 0)."""
        cnt = Interval(float(nlo), float(nhi), False, nhi == INF)
        return self.mul(cnt) if nlo > 0 else self.mul(cnt).join(Interval.point(0.0))

    def __str__(self) -> str:
        return f"{'(' if self.lo_open else '['}{_fmt(self.lo)}, {_fmt(self.hi)}{')' if self.hi_open else ']'}"


def _fmt(x: float) -> str:
    if x == INF:
        return "+inf"
    if x == -INF:
        return "-inf"
    return f"{x:.6g}"


def _sadd(a: float, b: float, default: float) -> float:
    if (a == INF and b == -INF) or (a == -INF and b == INF):
        return default
    return a + b


def _smul(a: float, ao: bool, b: float, bo: bool) -> Tuple[float, bool]:
    if a == 0 or b == 0:
        # 0 * inf = 0 in interval arithmetic (the bound 0 is attained only if the zero end is closed)
        zero_closed = (a == 0 and not ao) or (b == 0 and not bo)
        return (0.0, not zero_closed)
    return (a * b, ao or bo)


# ======================================================================================
# index terms (positions inside sequences / family parameters)
# ======================================================================================
# ('v', name)                      loop token or bound position variable
# ('perm', pid, inverse, inner)    sigma_pid^{+-1}(inner)
# ('c', int)                       constant position
# ('pa', inner) / ('pb', inner)    first / second component of the k-th ordered pair
# ('all',)                         universally generalised (overlay keys only)
# ('ghost', loopid)                an earlier iteration of loop `loopid` (overlay keys only)
# ('*',)                           unknown position

STAR = ("*",)
ALL = ("all",)


def ivar(name: str):
    return ("v", name)


def iperm(pid: str, inverse: bool, inner):
    if inner == STAR:
        return STAR
    if inner[0] == "perm" and inner[1] == pid and inner[2] != inverse:
        return inner[3]
    return ("perm", pid, inverse, inner)


def subst_index(t, env: Dict[str, Any]):
    k = t[0]
    if k == "v":
        return env.get(t[1], t)
    if k == "perm":
        return iperm(t[1], t[2], subst_index(t[3], env))
    if k in ("pa", "pb", "oth"):
        inner = subst_index(t[1], env)
        return STAR if inner == STAR else (k, inner)
    if k == "k":  # the position given by an integer term (a computed subscript): follows the term
        s2 = subst_sym(t[1], env)
        return STAR if sym_has_star(s2) else ("k", s2)
    return t


def index_vars(t, out: set) -> None:
    k = t[0]
    if k == "v":
        out.add(t[1])
    elif k == "perm":
        index_vars(t[3], out)
    elif k in ("pa", "pb", "oth"):
        index_vars(t[1], out)
    elif k == "k":
        sym_index_vars(t[1], out)


def index_str(t) -> str:
    k = t[0]
    if k == "v":
        return "$" + t[1]
    if k == "perm":
        return f"{t[1]}{'^-1' if t[2] else ''}({index_str(t[3])})"
    if k == "c":
        return str(t[1])
    if k in ("pa", "pb", "oth"):
        return f"{k}({index_str(t[1])})"
    if k == "ghost":
        return f"ghost#{t[1]}"
    if k == "k":
        return "at(" + str(t[1])[:40] + ")"
    return k


# ======================================================================================
# symbolic lengths
# ======================================================================================


@dataclass(frozen=True)
class Length:
    term: Any = None  # ('len', loc, idx) | ('const', n) | ('add', term, c) | ('pairs', term) | None
    lo: int = 0
    hi: float = INF

    @staticmethod
    def const(n: int) -> "Length":
        return Length(("const", n), n, n)

    def known(self) -> Optional[int]:
        return self.lo if self.lo == self.hi else None

    def plus(self, c: int) -> "Length":
        if c == 0:
            return self
        t = self.term
        if t is not None:
            if t[0] == "const":
                t = ("const", t[1] + c)
            elif t[0] == "add":
                t = ("add", t[1], t[2] + c) if t[2] + c != 0 else t[1]
            else:
                t = ("add", t, c)
        return Length(t, max(self.lo + c, 0), self.hi + c if self.hi < INF else INF)

    def same(self, o: "Length") -> bool:
        if self.term is not None and self.term == o.term:
            return True
        k1, k2 = self.known(), o.known()
        return k1 is not None and k1 == k2

    def join(self, o: "Length") -> "Length":
        if self == o:
            return self
        t = self.term if self.term == o.term else None
        return Length(t, min(self.lo, o.lo), max(self.hi, o.hi))

    def subst(self, env) -> "Length":
        return Length(_subst_lenterm(self.term, env), self.lo, self.hi)

    def __str__(self) -> str:
        return f"len{{{self.term}}}[{self.lo},{self.hi}]"


def _subst_lenterm(t, env):
    if t is None:
        return None
    if t[0] == "len":
        return ("len", t[1], tuple(subst_index(i, env) for i in t[2]))
    if t[0] == "add":
        return ("add", _subst_lenterm(t[1], env), t[2])
    if t[0] in ("pairs",):
        return (t[0], _subst_lenterm(t[1], env))
    return t


# ======================================================================================
# values
# ======================================================================================


class Val:
    __slots__ = ()


@dataclass(frozen=True)
class Top(Val):
    reason: str = ""


@dataclass(frozen=True)
class Bottom(Val):
    """No value (expression evaluation did not terminate normally)."""


@dataclass(frozen=True)
class NoneV(Val):
    pass


POLY = "poly"  # degree of the literal zero: fits any degree
KINDS_ALL = frozenset({"bool", "int", "float"})


@dataclass(frozen=True)
class Num(Val):
    kinds: frozenset = frozenset()  # subset of {'bool','int','float'}; empty = unknown numeric kind
    rng: Optional[Interval] = None
    deg: Any = None  # Fraction | POLY | None (unknown)
    prov: frozenset = frozenset()
    sym: Any = None
    const: Any = None
    wt: Any = None  # location weight (C16 shift clause)

    def with_(self, **kw) -> "Num":
        return replace(self, **kw)


@dataclass(frozen=True)
class Bool(Val):
    tv: Optional[bool] = None
    prov: frozenset = frozenset()
    sym: Any = None


@dataclass(frozen=True)
class Str(Val):
    const: Optional[str] = None
    prov: frozenset = frozenset()


@dataclass(frozen=True)
class Ptr(Val):
    loc: str
    idx: Tuple = ()

    def __str__(self) -> str:
        return f"&{self.loc}[{','.join(index_str(i) for i in self.idx)}]"


@dataclass(frozen=True)
class TupleV(Val):
    items: Tuple[Val, ...] = ()


@dataclass(frozen=True)
class Seq(Val):
    """Immutable abstract sequence; also the content of list objects."""

    length: Length = Length()
    elem: Val = Top("empty")
    kvar: str = "k"
    fixed: Optional[Tuple[Val, ...]] = None
    witness: Optional[Val] = None  # there EXISTS a position holding this value (shape runs)
    flags: frozenset = frozenset()  # 'partial', 'cond-append', 'multi-append', 'reordered', 'unmodelled'
    kind: str = "list"  # list | tuple | iter


@dataclass(frozen=True)
class FuncV(Val):
    fi: Any = None  # FuncInfo (None for lambdas)
    node: Any = None
    frame: Optional[int] = None
    self_val: Optional[Val] = None
    module: Any = None
    owner: Any = None  # FuncInfo of the lexically enclosing function (for lambdas)


@dataclass(frozen=True)
class ClassV(Val):
    ci: Any = None  # ClassInfo, or None for external
    ext: str = ""  # 'builtin.int', 'builtin.TypeError', 'statistics.NormalDist' ...
    prov: frozenset = frozenset()  # taint of a class obtained with type(x) / x.__class__ from a tagged value


@dataclass(frozen=True)
class ExtV(Val):
    """A builtin / stdlib callable or module, by qualified name."""

    qual: str = ""
    bound: Optional[Val] = None  # receiver for bound methods of abstract containers


@dataclass(frozen=True)
class SuperV(Val):
    """super(): attribute lookup continues in the MRO of the receiver's class after `after`."""

    after: Any = None  # ClassInfo in whose body the calling method is defined
    self_val: Optional[Val] = None  # the instance (or the class, in classmethods / __init_subclass__)


@dataclass(frozen=True)
class Opaque(Val):
    """An object of a type unrelated to everything the code tests for (shape runs)."""

    tag: str = "object"
    truthy: Optional[bool] = None


@dataclass(frozen=True)
class Union(Val):
    opts: Tuple[Val, ...] = ()


# ======================================================================================
# substitution of index variables inside values
# ======================================================================================


def subst_val(v: Val, env: Dict[str, Any]) -> Val:
    if not env:
        return v
    if isinstance(v, Ptr):
        if not v.idx:
            return v
        return Ptr(v.loc, tuple(subst_index(i, env) for i in v.idx))
    if isinstance(v, Num):
        if v.sym is None and not v.prov:
            return v
        s2 = subst_sym(v.sym, env)
        return replace(v, sym=s2, prov=_subst_prov(v.prov, env))
    if isinstance(v, Bool):
        if v.sym is None and not v.prov:
            return v
        return replace(v, sym=subst_sym(v.sym, env), prov=_subst_prov(v.prov, env))
    if isinstance(v, TupleV):
        return TupleV(tuple(subst_val(x, env) for x in v.items))
    if isinstance(v, Seq):
        inner = {k: e for k, e in env.items() if k != v.kvar}
        return replace(
            v,
            length=v.length.subst(inner),
            elem=subst_val(v.elem, inner),
            fixed=None if v.fixed is None else tuple(subst_val(x, inner) for x in v.fixed),
            witness=None if v.witness is None else subst_val(v.witness, inner),
        )
    if isinstance(v, Union):
        return Union(tuple(subst_val(x, env) for x in v.opts))
    if isinstance(v, FuncV) and v.self_val is not None:
        return replace(v, self_val=subst_val(v.self_val, env))
    if isinstance(v, ExtV) and v.bound is not None:
        return replace(v, bound=subst_val(v.bound, env))
    return v


def _subst_prov(prov: frozenset, env) -> frozenset:
    return prov


def subst_sym(s, env):
    if s is None or not env:
        return s
    k = s[0]
    if k in ("in", "elem"):
        # ('in', loc, field, idx) / ('elem', loc, idx, pos)
        if k == "in":
            return ("in", s[1], s[2], tuple(subst_index(i, env) for i in s[3]))
        return ("elem", s[1], tuple(subst_index(i, env) for i in s[2]), subst_index(s[3], env))
    if k == "idx":
        r = subst_index(s[1], env)
        return ("idx", r)
    if k == "rd":
        return ("rd", s[1], tuple(subst_index(i, env) for i in s[2]), s[3], s[4])
    if k == "len":
        return ("len", s[1], tuple(subst_index(i, env) for i in s[2]))
    if k in ("const", "param", "opaque"):
        return s
    if k == "opq":
        return ("opq", s[1], s[2], tuple(_subst_tokname(t, env) for t in s[3])) + tuple(s[4:])
    if k == "lenterm":
        return ("lenterm", _subst_lenterm(s[1], env))
    return (k,) + tuple(subst_sym(a, env) if isinstance(a, tuple) else a for a in s[1:])


def _subst_tokname(t, env):
    r = env.get(t)
    if r is None:
        return t
    if r[0] == "v":
        return r[1]
    return "*"


def opq_dead(s, depth: int = 0) -> bool:
    if s is None or not isinstance(s, tuple) or not s or depth > 80:
        return False
    if s[0] == "opq":
        return "*" in s[3]
    if s[0] in ("in", "rd", "elem", "const", "param", "lenterm", "len", "idx"):
        return False
    return any(opq_dead(a, depth + 1) for a in s[1:] if isinstance(a, tuple))


def sym_has_star(s, depth: int = 0) -> bool:
    """The term mentions an unknown position ('*'): two occurrences need not denote the same value."""
    if s is None or not isinstance(s, tuple) or depth > 80:
        return False
    if s == STAR:
        return True
    if s and s[0] == "opq":
        return "*" in s[3]
    if s and s[0] == "const":
        return False
    rest = s[1:] if s and isinstance(s[0], str) else s  # an untagged tuple (e.g. an index tuple) is searched entirely
    return any(sym_has_star(a, depth + 1) for a in rest if isinstance(a, tuple))


def has_opq(s, depth: int = 0) -> bool:
    if s is None or not isinstance(s, tuple) or depth > 80:
        return False
    if s and s[0] == "opq":
        return True
    if s and s[0] in ("in", "rd", "elem", "const", "param", "lenterm", "len", "idx", "opq"):
        return False
    return any(has_opq(a, depth + 1) for a in s[1:] if isinstance(a, tuple))


def val_index_vars(v: Val, out: set) -> None:
    if isinstance(v, Ptr):
        for i in v.idx:
            index_vars(i, out)
    elif isinstance(v, (Num, Bool)):
        sym_index_vars(v.sym, out)
    elif isinstance(v, TupleV):
        for x in v.items:
            val_index_vars(x, out)
    elif isinstance(v, Seq):
        inner: set = set()
        val_index_vars(v.elem, inner)
        if v.fixed:
            for x in v.fixed:
                val_index_vars(x, inner)
        if v.witness is not None:
            val_index_vars(v.witness, inner)
        if v.length.term is not None:
            _lenterm_vars(v.length.term, inner)
        inner.discard(v.kvar)
        out |= inner
    elif isinstance(v, Union):
        for x in v.opts:
            val_index_vars(x, out)
    elif isinstance(v, FuncV) and v.self_val is not None:
        val_index_vars(v.self_val, out)
    elif isinstance(v, ExtV) and v.bound is not None:
        val_index_vars(v.bound, out)


def _lenterm_vars(t, out: set) -> None:
    if t is None:
        return
    if t[0] == "len":
        for i in t[2]:
            index_vars(i, out)
    elif t[0] in ("add", "pairs"):
        _lenterm_vars(t[1], out)


def sym_index_vars(s, out: set) -> None:
    if s is None:
        return
    k = s[0]
    if k == "in":
        for i in s[3]:
            index_vars(i, out)
    elif k == "elem":
        for i in s[2]:
            index_vars(i, out)
        index_vars(s[3], out)
    elif k == "idx":
        index_vars(s[1], out)
    elif k == "rd":
        for i in s[2]:
            index_vars(i, out)
    elif k == "len":
        for i in s[2]:
            index_vars(i, out)
    elif k in ("const", "param", "opaque", "lenterm"):
        return
    elif k == "opq":
        for t in s[3]:
            out.add(t)
    else:
        for a in s[1:]:
            if isinstance(a, tuple):
                sym_index_vars(a, out)


# ======================================================================================
# symbolic terms (Herbrand domain with a size cap; value numbering, never solved)
# ======================================================================================

SYM_CAP = 400
_SIZE_CACHE: Dict[int, Tuple[Any, int]] = {}


def sym_size(s, cap: Optional[int] = None) -> int:
    """Number of nodes of a term (as a tree). Cached per term object: the cache keeps the term alive, so an address is never
    looked up for another object."""
    if s is None or not isinstance(s, tuple):
        return 1
    hit = _SIZE_CACHE.get(id(s))
    if hit is not None and hit[0] is s:
        return hit[1]
    n = 1
    for a in s[1:]:
        if isinstance(a, tuple):
            n += sym_size(a)
    if len(_SIZE_CACHE) > 300000:
        _SIZE_CACHE.clear()
    _SIZE_CACHE[id(s)] = (s, n)
    return n


class sym_cap:
    """Context manager: a larger term-size cap for runs on small explicit inputs (every value keeps its term)."""

    def __init__(self, cap: int):
        self.cap = cap

    def __enter__(self):
        global SYM_CAP
        self.old = SYM_CAP
        SYM_CAP = self.cap
        return self

    def __exit__(self, *a):
        global SYM_CAP
        SYM_CAP = self.old
        return False


def mk_sym(op: str, *args):
    for a in args:
        if a is None:
            return None
    t = (op,) + args
    if sym_size(t) > SYM_CAP:
        return None
    return t


def sym_const(v):
    return ("const", v)


# ======================================================================================
# join
# ======================================================================================


def join_deg(a, b):
    if a == b:
        return a
    if a == POLY:
        return b
    if b == POLY:
        return a
    return None


_WT_ZERO = ((), ())


def _join_wt(a, b):
    if a.wt is None and b.wt is None:
        return None
    wa = a.wt if a.wt is not None else (_WT_ZERO if "MU" not in a.prov else None)
    wb = b.wt if b.wt is not None else (_WT_ZERO if "MU" not in b.prov else None)
    if wa == wb:
        return wa
    # the constant 0 is 0 under every multiplicative response: it joins with (0, M) for any M
    if wa == _WT_ZERO and a.const == 0 and wb is not None and not wb[0]:
        return wb
    if wb == _WT_ZERO and b.const == 0 and wa is not None and not wa[0]:
        return wa
    return None


def join_val(a: Val, b: Val) -> Val:
    if a is b or a == b:
        return a
    if isinstance(a, Bottom):
        return b
    if isinstance(b, Bottom):
        return a
    if isinstance(a, Top):
        return a
    if isinstance(b, Top):
        return b
    if isinstance(a, Num) and isinstance(b, Num):
        rng = None
        if a.rng is not None and b.rng is not None:
            rng = a.rng.join(b.rng)
        return Num(
            kinds=(a.kinds | b.kinds) if (a.kinds and b.kinds) else frozenset(),
            rng=rng,
            deg=join_deg(a.deg, b.deg),
            prov=a.prov | b.prov,
            sym=a.sym if a.sym == b.sym else None,
            const=a.const if (a.const == b.const and type(a.const) is type(b.const)) else None,
            wt=_join_wt(a, b),
        )
    if isinstance(a, Bool) and isinstance(b, Bool):
        return Bool(a.tv if a.tv == b.tv else None, a.prov | b.prov, a.sym if a.sym == b.sym else None)
    if isinstance(a, Bool) and isinstance(b, Num):
        return join_val(bool_to_num(a), b)
    if isinstance(a, Num) and isinstance(b, Bool):
        return join_val(a, bool_to_num(b))
    if isinstance(a, Str) and isinstance(b, Str):
        return Str(a.const if a.const == b.const else None, a.prov | b.prov)
    if isinstance(a, Ptr) and isinstance(b, Ptr):
        if a.loc == b.loc and len(a.idx) == len(b.idx):
            return Ptr(a.loc, tuple(x if x == y else STAR for x, y in zip(a.idx, b.idx)))
        return _mk_union(a, b)
    if isinstance(a, TupleV) and isinstance(b, TupleV) and len(a.items) == len(b.items):
        return TupleV(tuple(join_val(x, y) for x, y in zip(a.items, b.items)))
    if isinstance(a, Seq) and isinstance(b, Seq):
        return join_seq(a, b)
    if isinstance(a, Union) or isinstance(b, Union):
        return _mk_union(a, b)
    if isinstance(a, NoneV) and isinstance(b, NoneV):
        return a
    if isinstance(a, Opaque) and isinstance(b, Opaque) and a.tag == b.tag:
        return Opaque(a.tag, a.truthy if a.truthy == b.truthy else None)
    if isinstance(a, (FuncV, ClassV, ExtV)) and isinstance(b, (FuncV, ClassV, ExtV)):
        return _mk_union(a, b)
    return _mk_union(a, b)


def _mk_union(a: Val, b: Val) -> Val:
    opts = []
    for v in (a, b):
        for o in v.opts if isinstance(v, Union) else (v,):
            merged = False
            for i, e in enumerate(opts):
                if type(e) is type(o) and not isinstance(o, (FuncV, ClassV, ExtV, Opaque)):
                    if isinstance(o, Ptr) and e.loc != o.loc:
                        continue
                    if isinstance(o, TupleV) and len(o.items) != len(e.items):
                        continue
                    opts[i] = join_val(e, o)
                    merged = True
                    break
                if e == o:
                    merged = True
                    break
            if not merged:
                opts.append(o)
    if len(opts) == 1:
        return opts[0]
    if len(opts) > 6:
        return Top("union too wide")
    return Union(tuple(opts))


def join_seq(a: Seq, b: Seq) -> Seq:
    if a == b:
        return a
    kv = a.kvar
    belem = b.elem if b.kvar == kv else subst_val(b.elem, {b.kvar: ivar(kv)})
    fixed = None
    if a.fixed is not None and b.fixed is not None and len(a.fixed) == len(b.fixed):
        fixed = tuple(join_val(x, y) for x, y in zip(a.fixed, b.fixed))
    la, lb = a.length, b.length
    if la.known() == 0:
        elem = belem
    elif lb.known() == 0:
        elem = a.elem
    else:
        elem = join_val(a.elem, belem)
    wit = a.witness if a.witness == b.witness else None
    return Seq(
        length=la.join(lb),
        elem=elem,
        kvar=kv,
        fixed=fixed,
        witness=wit,
        flags=a.flags | b.flags,
        kind=a.kind if a.kind == b.kind else "list",
    )


def bool_to_num(b: Bool) -> Num:
    rng = Interval.closed(0, 1) if b.tv is None else Interval.point(1.0 if b.tv else 0.0)
    # a decided truth value is the number 1 or 0 (its term is that constant, not the comparison it came from)
    return Num(kinds=frozenset({"bool"}), rng=rng, deg=Fraction(0), prov=b.prov, sym=("const", int(b.tv)) if b.tv is not None else b.sym, const=b.tv)


def widen_val(old: Val, new: Val) -> Val:
    """Widening for loop heads: numeric ranges jump to infinity where unstable."""
    j = join_val(old, new)
    if isinstance(old, Num) and isinstance(j, Num) and old.rng is not None and j.rng is not None:
        return replace(j, rng=old.rng.widen(j.rng))
    return j


def short(v: Val, depth: int = 0) -> str:
    """Compact rendering for diagnostics and evidence samples."""
    if depth > 4:
        return "..."
    if isinstance(v, Num):
        parts = []
        if v.const is not None:
            parts.append(repr(v.const))
        if v.kinds:
            parts.append("|".join(sorted(v.kinds)))
        if v.rng is not None and not v.rng.is_top():
            parts.append(str(v.rng))
        if v.deg is not None:
            parts.append(f"deg={v.deg}")
        if v.prov:
            parts.append("prov=" + ",".join(sorted(v.prov)))
        return "Num(" + " ".join(parts) + ")"
    if isinstance(v, Bool):
        return f"Bool({v.tv}{' prov=' + ','.join(sorted(v.prov)) if v.prov else ''})"
    if isinstance(v, Ptr):
        return str(v)
    if isinstance(v, Seq):
        f = f" fixed={[short(x, depth + 1) for x in v.fixed]}" if v.fixed is not None else ""
        fl = f" {sorted(v.flags)}" if v.flags else ""
        w = f" witness={short(v.witness, depth + 1)}" if v.witness is not None else ""
        return f"Seq(len={v.length.term}[{v.length.lo},{v.length.hi}] ${v.kvar}->{short(v.elem, depth + 1)}{f}{w}{fl})"
    if isinstance(v, TupleV):
        return "(" + ", ".join(short(x, depth + 1) for x in v.items) + ")"
    if isinstance(v, Union):
        return "Union(" + " | ".join(short(x, depth + 1) for x in v.opts) + ")"
    if isinstance(v, NoneV):
        return "None"
    if isinstance(v, Top):
        return f"TOP({v.reason})"
    if isinstance(v, Str):
        return f"Str({v.const!r})" if v.const is not None else "Str"
    if isinstance(v, FuncV):
        return f"Func({getattr(v.fi, 'qualname', 'lambda')})"
    if isinstance(v, ClassV):
        return f"Class({v.ci.name if v.ci else v.ext})"
    if isinstance(v, ExtV):
        return f"Ext({v.qual})"
    if isinstance(v, Opaque):
        return f"Opaque({v.tag})"
    return type(v).__name__


# ======================================================================================
# generic transformation of index terms inside values (used by the pair-chunking axiom)
# ======================================================================================


def map_index_term(t, fn):
    r = fn(t)
    if r is not None:
        return r
    k = t[0]
    if k == "perm":
        return iperm(t[1], t[2], map_index_term(t[3], fn))
    if k in ("pa", "pb", "oth"):
        inner = map_index_term(t[1], fn)
        return STAR if inner == STAR else (k, inner)
    if k == "k":
        return ("k", map_sym_indices(t[1], fn))
    return t


def map_sym_indices(s, fn):
    if s is None:
        return None
    k = s[0]
    if k == "in":
        return ("in", s[1], s[2], tuple(map_index_term(i, fn) for i in s[3]))
    if k == "elem":
        return ("elem", s[1], tuple(map_index_term(i, fn) for i in s[2]), map_index_term(s[3], fn))
    if k == "idx":
        return ("idx", map_index_term(s[1], fn))
    if k == "rd":
        return ("rd", s[1], tuple(map_index_term(i, fn) for i in s[2]), s[3], s[4])
    if k == "len":
        return ("len", s[1], tuple(map_index_term(i, fn) for i in s[2]))
    if k == "lenterm":
        return ("lenterm", _map_lenterm(s[1], fn))
    if k in ("const", "param", "opaque", "opq"):
        return s
    return (k,) + tuple(map_sym_indices(a, fn) if isinstance(a, tuple) else a for a in s[1:])


def _map_lenterm(t, fn):
    if t is None:
        return None
    if t[0] == "len":
        return ("len", t[1], tuple(map_index_term(i, fn) for i in t[2]))
    if t[0] in ("add", "pairs", "upairs"):
        return (t[0], _map_lenterm(t[1], fn)) + tuple(t[2:])
    return t


def map_val_indices(v: Val, fn) -> Val:
    if isinstance(v, Ptr):
        return Ptr(v.loc, tuple(map_index_term(i, fn) for i in v.idx))
    if isinstance(v, (Num, Bool)):
        return replace(v, sym=map_sym_indices(v.sym, fn)) if v.sym is not None else v
    if isinstance(v, TupleV):
        return TupleV(tuple(map_val_indices(x, fn) for x in v.items))
    if isinstance(v, Seq):
        return replace(
            v,
            length=Length(_map_lenterm(v.length.term, fn), v.length.lo, v.length.hi),
            elem=map_val_indices(v.elem, fn),
            fixed=None if v.fixed is None else tuple(map_val_indices(x, fn) for x in v.fixed),
        )
    if isinstance(v, Union):
        return Union(tuple(map_val_indices(x, fn) for x in v.opts))
    return v
