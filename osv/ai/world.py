"""Abstract inputs: model instances, team/player families, rank vectors; harness entry calls."""

from __future__ import annotations

from dataclasses import replace
from fractions import Fraction
from typing import Any, Dict, List, Optional, Tuple

from ..frontend import AnalysisError, Program, Roles
from .engine import Interp
from .expr import Frame
from .state import Cell, DictObj, InstObj, ListObj, State
from .values import (
    INF,
    Bool,
    Bottom,
    ClassV,
    ExtV,
    FuncV,
    Interval,
    Length,
    NoneV,
    Num,
    Opaque,
    Ptr,
    Seq,
    Str,
    Top,
    Val,
    ivar,
)

F0, F1 = Fraction(0), Fraction(1)
FLOAT = frozenset({"float"})

L_TEAMS, L_TEAM, L_PLAYER, L_RANKS, L_SCORES = "IN.teams", "IN.team", "IN.player", "IN.ranks", "IN.scores"


class Box:
    """Numeric seeding of inputs. Any of the facts may be disabled (None)."""

    def __init__(self, *, ranges: bool = False, degrees: bool = False, shift: bool = False, teams=(2, 8), players=(1, 16),
                 mu=(-20.0, 20.0), sigma=(1e-4, 10.0), sigma_open_lo=False, beta=(1.0, 1.0), tau=(0.0, 10.0), tau_open_lo=False,
                 kappa=(0.0, 1e-2), gamma=(0.0, 1e6)):
        self.ranges, self.degrees, self.shift = ranges, degrees, shift
        self.teams, self.players = teams, players
        self.mu, self.sigma, self.beta, self.tau, self.kappa, self.gamma = mu, sigma, beta, tau, kappa, gamma
        self.sigma_open_lo, self.tau_open_lo = sigma_open_lo, tau_open_lo

    def num(self, what: str, sym=None, prov=frozenset(), kinds=FLOAT) -> Num:
        rng = None
        deg = None
        if self.ranges:
            lo, hi = getattr(self, what)
            lo_open = {"sigma": self.sigma_open_lo, "tau": self.tau_open_lo, "kappa": True}.get(what, False)
            rng = Interval(float(lo), float(hi), lo_open, False)
        if self.degrees:
            deg = {"mu": F1, "sigma": F1, "beta": F1, "tau": F1, "kappa": F0, "gamma": F0}[what]
        return Num(kinds=kinds, rng=rng, deg=deg, prov=prov, sym=sym)


class World:
    def __init__(self, prog: Program, roles: Roles, box: Optional[Box] = None, interp: Optional[Interp] = None, callbacks=None):
        self.prog = prog
        self.roles = roles
        self.box = box or Box()
        self.I = interp or Interp(prog, callbacks=callbacks)
        self.state = State()
        self.I._fid += 1
        self.top = Frame(self.I._fid, None, None, roles.model.module, roles.model.node, "<harness>")
        self.I.frames[self.top.fid] = self.top
        self.I.stack.append(self.top)
        self.init_globals()

    def init_globals(self) -> None:
        """Evaluate module-level globals bound to a call or a container display once, so that every later
        fork of the state shares them (e.g. ``_normal = NormalDist()``)."""
        import ast as _ast

        for mi in self.prog.modules.values():
            for gname, defs in mi.assigns.items():
                if len(defs) == 1 and isinstance(defs[0], (_ast.Call, _ast.Dict, _ast.List, _ast.Set)) and not gname.startswith("__"):
                    self.I.global_value(mi, gname, defs[0], self.state)
            for ci in mi.classes.values():
                for attr, expr in ci.class_attrs.items():
                    if isinstance(expr, (_ast.Call, _ast.Dict, _ast.List, _ast.Set)) and not attr.startswith("__"):
                        self.I.class_attr_value(ci, attr, expr, expr, self.state)

        self.run_class_creation_hooks()

    def run_class_creation_hooks(self) -> None:
        """__init_subclass__ of an in-program base runs once per subclass at import time: evaluate it abstractly so that
        the class attributes it sets are known (they are class state, not effects of an operation)."""
        I = self.I
        todo = []
        for mi in self.prog.modules.values():
            for ci in mi.classes.values():
                for b in ci.mro[1:]:
                    m = b.methods.get("__init_subclass__")
                    if m is not None:
                        todo.append((len(ci.mro), ci.fq, ci, m))
                        break
        if not todo:
            return
        I.class_init_phase = True
        try:
            for _, _, ci, m in sorted(todo, key=lambda t: t[:2]):
                I.call_function(FuncV(fi=m, node=m.node, self_val=ClassV(ci=ci), module=m.module), [], {}, ci.node, self.state)
                if self.state.bottom:
                    raise AnalysisError(f"abstract evaluation of {m.qualname} for {ci.name} raises")
        finally:
            I.class_init_phase = False

    # ---------------------------------------------------------------- model
    def make_model(self, *, custom_gamma: bool = False, overrides: Optional[Dict[str, Val]] = None, tag: str = "model") -> Ptr:
        b = self.box
        kw: Dict[str, Val] = {}
        init = self.roles.model.lookup("__init__")
        if init is None:
            raise AnalysisError("model has no __init__")
        params = [a.arg for a in init.node.args.args[1:]] + [a.arg for a in init.node.args.kwonlyargs]
        for p in params:
            if p in ("mu", "sigma", "beta", "tau", "kappa"):
                kw[p] = b.num(p, sym=("param", f"{tag}.{p}"), prov=frozenset({f"CTOR:{p}"}))
            elif p == "gamma" and custom_gamma:
                kw[p] = ExtV(qual="callback.gamma")
            elif p == "limit_sigma":
                kw[p] = Bool(None, frozenset({"CTOR:limit_sigma"}), ("param", f"{tag}.limit_sigma"))
        if overrides:
            kw.update(overrides)
        ptr = self.I.instantiate(self.roles.model, [], kw, self.roles.model.node, self.state)
        if self.state.bottom or not isinstance(ptr, Ptr):
            raise AnalysisError(f"abstract construction of {self.roles.model.name} failed")
        c = self.state.heap[ptr.loc]
        self.ctor_fields = set(c.obj.names())
        self.state.heap[ptr.loc] = replace(c, origin="input:model")
        # containers created by the constructor and held by the model are model state too
        work = [v for _, v in c.obj.fields]
        seen = set()
        while work:
            v = work.pop()
            if isinstance(v, Ptr) and v.loc in self.state.heap and v.loc not in seen and v.loc != ptr.loc:
                seen.add(v.loc)
                cc = self.state.heap[v.loc]
                if cc.origin.startswith("alloc"):
                    self.state.heap[v.loc] = replace(cc, origin="input:model-owned")
                o = cc.obj
                if hasattr(o, "fields"):
                    work.extend(x for _, x in o.fields)
                elif hasattr(o, "seq"):
                    work.append(o.seq.elem)
                    work.extend(o.seq.fixed or ())
                elif hasattr(o, "val"):
                    work.append(o.val)
        self.model = ptr
        return ptr

    # ---------------------------------------------------------------- players / teams
    def _teams_len(self, lo=None, hi=None) -> Length:
        b = self.box
        return Length(("len", L_TEAMS, ()), b.teams[0] if lo is None else lo, b.teams[1] if hi is None else hi)

    def make_rating_object(self, loc: str, params: Tuple[str, ...], domains, rating_cls=None, origin="input:player", sym_loc=None) -> None:
        """A family of rating objects, fields set by abstractly running the Rating constructor."""
        b = self.box
        cls = rating_cls or self.roles.rating
        idx = tuple(ivar(p) for p in params)
        sl = sym_loc or loc
        mu = b.num("mu", sym=("in", sl, "mu", idx), prov=frozenset({"MU"}))
        if b.shift:
            from .shift import player_mu_weight

            mu = replace(mu, wt=player_mu_weight())
        sigma = b.num("sigma", sym=("in", sl, "sigma", idx), prov=frozenset({"SIGMA"}))
        name = Str(None, frozenset({"NAME"}))
        tmp = self.I.instantiate(cls, [mu, sigma, name], {}, cls.node, self.state)
        if self.state.bottom or not isinstance(tmp, Ptr):
            raise AnalysisError(f"abstract construction of {cls.name} failed")
        c = self.state.heap.pop(tmp.loc)
        obj = c.obj
        # the id produced by the constructor is a per-object unknown string
        flds = []
        for n, v in obj.fields:
            if isinstance(v, Str) and "RANDOM" in v.prov:
                v = Str(None, frozenset({"ID"}))
            flds.append((n, v))
        self.state.heap[loc] = Cell(InstObj(cls, tuple(flds)), params, tuple(domains), origin, None)

    def make_teams(self, *, n=None, m=None, rating_cls=None) -> Ptr:
        b = self.box
        n_len = self._teams_len(*(n or (None, None)))
        self.n_len = n_len
        m_lo, m_hi = m or b.players
        m_len = Length(("len", L_TEAM, (ivar("T"),)), m_lo, m_hi)
        self.make_rating_object(L_PLAYER, ("T", "P"), (n_len, m_len), rating_cls)
        self.state.heap[L_TEAM] = Cell(
            ListObj(Seq(m_len, Ptr(L_PLAYER, (ivar("T"), ivar("kP"))), "kP")), ("T",), (n_len,), "input:team", None
        )
        self.state.heap[L_TEAMS] = Cell(ListObj(Seq(n_len, Ptr(L_TEAM, (ivar("kT"),)), "kT")), (), (), "input:teams", None)
        self.teams = Ptr(L_TEAMS, ())
        return self.teams

    def make_number_list(self, loc: str, *, tag: str, kinds=frozenset({"int", "float", "bool"}), same_len_as_teams=True,
                         length: Optional[Length] = None, witness: Optional[Val] = None, rng: Optional[Interval] = None) -> Ptr:
        if length is None:
            length = getattr(self, "n_len", None) or self._teams_len()
            if not same_len_as_teams:
                length = Length(("len", loc, ()), 1, INF)
        elem = Num(kinds=kinds, rng=rng if rng is not None else (Interval.top() if self.box.ranges else None),
                   deg=F0 if self.box.degrees else None, prov=frozenset({tag}), sym=("elem", loc, (), ivar("kR")))
        self.state.heap[loc] = Cell(ListObj(Seq(length, elem, "kR", None, witness)), (), (), f"input:{tag.lower()}", None)
        return Ptr(loc, ())

    # ---------------------------------------------------------------- calling
    def call(self, recv: Ptr, method: str, args: List[Val], kwargs: Optional[Dict[str, Val]] = None) -> Val:
        I = self.I
        fv = I.load_attr(recv, method, self.roles.model.node, self.state)
        if self.state.bottom:
            return Bottom()
        return I.call_value(fv, args, kwargs or {}, self.roles.model.node, self.state)

    def call_class_static(self, cls, method: str, args: List[Val], kwargs=None) -> Val:
        m = cls.lookup(method)
        if m is None:
            raise AnalysisError(f"{cls.name}.{method} not found")
        return self.I.call_function(FuncV(fi=m, node=m.node, module=m.module), args, kwargs or {}, m.node, self.state)


# ======================================================================================
# abstract input classes of the malformed-argument grammar (C13) and option classes
# ======================================================================================

TEAMS_CLASSES = [
    # (name, well_formed)
    ("teams:well-formed", True),
    ("teams:not-a-list(object)", False),
    ("teams:not-a-list(None)", False),
    ("teams:not-a-list(tuple-of-teams)", False),
    ("teams:not-a-list(number)", False),
    ("teams:empty-list", False),
    ("teams:one-team", False),
    ("teams:one-element-not-a-list(object)", False),
    ("teams:one-element-not-a-list(None)", False),
    ("teams:one-element-not-a-list(tuple-of-ratings)", False),
    ("teams:one-element-not-a-list(rating)", False),
    ("teams:one-empty-team", False),
    ("teams:one-player-not-a-rating(object)", False),
    ("teams:one-player-not-a-rating(None)", False),
    ("teams:one-player-not-a-rating(number)", False),
    ("teams:one-player-not-a-rating(list)", False),
]

NUMLIST_CLASSES = [
    # (name, status) status: 'ok' well-formed & given, 'absent' (treated as not given), 'bad' malformed
    ("None", "absent"),
    ("empty-list", "absent"),
    ("list-of-int", "ok"),
    ("list-of-float", "ok"),
    ("list-of-bool", "ok"),
    ("list-of-mixed-int-float-bool", "ok"),
    ("truthy-non-list(object)", "bad"),
    ("truthy-non-list(number)", "bad"),
    ("truthy-non-list(str)", "bad"),
    ("truthy-non-list(tuple-of-numbers)", "bad"),
    ("list-of-wrong-length", "bad"),
    ("list-with-one-non-number(str)", "bad"),
    ("list-with-one-non-number(None)", "bad"),
    ("list-with-one-non-number(object)", "bad"),
    ("list-with-one-non-number(list)", "bad"),
]


def build_teams(w: World, cls_name: str, foreign=None) -> Val:
    """Abstract `teams` argument of the given class. `foreign` = Rating ClassInfo of another model."""
    b = w.box
    st = w.state
    if cls_name == "teams:well-formed":
        return w.make_teams()
    if cls_name == "teams:not-a-list(object)":
        return Opaque("object", True)
    if cls_name == "teams:not-a-list(None)":
        return NoneV()
    if cls_name == "teams:not-a-list(number)":
        return Num(kinds=frozenset({"int"}))
    if cls_name == "teams:not-a-list(tuple-of-teams)":
        w.make_teams()
        s = st.heap[L_TEAMS].obj.seq
        return replace(s, kind="tuple")
    if cls_name == "teams:empty-list":
        st.heap[L_TEAMS] = Cell(ListObj(Seq(Length.const(0), Top("empty"), "kT", ())), (), (), "input:teams", None)
        return Ptr(L_TEAMS, ())
    if cls_name == "teams:one-team":
        w.make_teams(n=(1, 1))
        return w.teams
    # otherwise: a list of >= 2 valid teams in which one element (at an unknown position) is bad
    w.make_teams()
    bad: Val
    kind = cls_name
    if kind == "teams:one-element-not-a-list(object)":
        bad = Opaque("object", True)
    elif kind == "teams:one-element-not-a-list(None)":
        bad = NoneV()
    elif kind == "teams:one-element-not-a-list(tuple-of-ratings)":
        bad = Seq(Length(("len", "IN.badteam", ()), 1, b.players[1]), Ptr(L_PLAYER, (("*",), ivar("kB"))), "kB", None, None, frozenset(), "tuple")
    elif kind == "teams:one-element-not-a-list(rating)":
        w.make_rating_object("IN.strayplayer", (), (), origin="input:player")
        bad = Ptr("IN.strayplayer", ())
    elif kind == "teams:one-empty-team":
        st.heap["IN.badteam"] = Cell(ListObj(Seq(Length.const(0), Top("empty"), "kB", ())), (), (), "input:team", None)
        bad = Ptr("IN.badteam", ())
    else:
        # a team with >= 1 players in which one (unknown position) is not an own-model rating
        if kind == "teams:one-player-not-a-rating(object)":
            badp: Val = Opaque("object", True)
        elif kind == "teams:one-player-not-a-rating(None)":
            badp = NoneV()
        elif kind == "teams:one-player-not-a-rating(number)":
            badp = Num(kinds=frozenset({"float"}))
        elif kind == "teams:one-player-not-a-rating(list)":
            st.heap["IN.badplayerlist"] = Cell(ListObj(Seq(Length.const(0), Top("empty"), "kL", ())), (), (), "input:junk", None)
            badp = Ptr("IN.badplayerlist", ())
        elif kind.startswith("teams:one-player-foreign-rating"):
            w.make_rating_object("IN.foreign", (), (), rating_cls=foreign, origin="input:foreign-player")
            badp = Ptr("IN.foreign", ())
        else:
            raise AnalysisError(f"unknown teams class {kind}")
        m_len = Length(("len", "IN.badteam", ()), 1, b.players[1])
        st.heap["IN.badteam"] = Cell(
            ListObj(Seq(m_len, Ptr(L_PLAYER, (("*",), ivar("kB"))), "kB", None, badp)), (), (), "input:team", None
        )
        bad = Ptr("IN.badteam", ())
    c = st.heap[L_TEAMS]
    st.heap[L_TEAMS] = replace(c, obj=ListObj(replace(c.obj.seq, witness=bad)))
    return w.teams


def build_numlist(w: World, cls_name: str, loc: str, tag: str) -> Val:
    st = w.state
    if cls_name == "None":
        return NoneV()
    if cls_name == "empty-list":
        st.heap[loc] = Cell(ListObj(Seq(Length.const(0), Top("empty"), "kR", ())), (), (), f"input:{tag.lower()}", None)
        return Ptr(loc, ())
    if cls_name.startswith("list-of-"):
        kinds = {
            "list-of-int": {"int"},
            "list-of-float": {"float"},
            "list-of-bool": {"bool"},
            "list-of-mixed-int-float-bool": {"int", "float", "bool"},
            "list-of-wrong-length": {"int", "float", "bool"},
        }[cls_name]
        if cls_name == "list-of-wrong-length":
            k = getattr(w, "n_len", None)
            k = k.known() if k is not None else None
            p = w.make_number_list(loc, tag=tag, kinds=frozenset(kinds), same_len_as_teams=False,
                                   length=Length(("len", loc, ()), k + 1, INF) if k is not None else None)
            # definitely a different length than teams
            a = ("lenterm", ("len", loc, ()))
            bsym = ("lenterm", ("len", L_TEAMS, ()))
            st.rel_set(a, bsym, frozenset({"LT", "GT"}))
            return p
        return w.make_number_list(loc, tag=tag, kinds=frozenset(kinds))
    if cls_name == "truthy-non-list(object)":
        return Opaque("object", True)
    if cls_name == "truthy-non-list(number)":
        return Num(kinds=frozenset({"int"}), rng=Interval(1.0, INF, False, True), prov=frozenset({tag}), sym=("param", loc))
    if cls_name == "truthy-non-list(str)":
        return Str("abc")
    if cls_name == "truthy-non-list(tuple-of-numbers)":
        p = w.make_number_list(loc, tag=tag)
        return replace(st.heap[loc].obj.seq, kind="tuple")
    if cls_name.startswith("list-with-one-non-number"):
        bad: Val
        if cls_name.endswith("(str)"):
            bad = Str("1")
        elif cls_name.endswith("(None)"):
            bad = NoneV()
        elif cls_name.endswith("(object)"):
            bad = Opaque("object", True)
        else:
            st.heap[loc + ".junk"] = Cell(ListObj(Seq(Length.const(0), Top("empty"), "kL", ())), (), (), "input:junk", None)
            bad = Ptr(loc + ".junk", ())
        return w.make_number_list(loc, tag=tag, witness=bad)
    raise AnalysisError(f"unknown number-list class {cls_name}")
