"""Resolved call graph (syntactic receiver resolution + role knowledge).

Edges are over-approximate for unknown receivers (method-name fallback over the
package's classes) and exact for ``self.m()``, bare names, ``mod.f()`` and
``Class.m()``.  Calls that resolve to nothing inside the package are recorded as
external (qualified name when it can be derived) or unresolved.
"""

from __future__ import annotations

import ast
from typing import Dict, List, Optional, Set, Tuple

from .frontend import ClassInfo, FuncInfo, Program, Roles

CONTAINER_METHODS = {
    "append", "extend", "insert", "pop", "remove", "clear", "sort", "reverse", "copy", "index", "count",
    "values", "keys", "items", "get", "setdefault", "update", "popitem", "add", "discard", "join",
    "lower", "upper", "format", "hex", "startswith", "endswith", "strip", "split",
}


class CallSite:
    __slots__ = ("node", "caller", "targets", "external", "kind")

    def __init__(self, node, caller):
        self.node = node
        self.caller = caller
        self.targets: List[FuncInfo] = []
        self.external: Optional[str] = None
        self.kind = "unresolved"  # resolved | external | builtin | container | callback | unresolved


def own_nodes(fn_node: ast.AST):
    """All nodes of a function including nested defs and lambdas (they run as part of it)."""
    return ast.walk(fn_node)


class CallGraph:
    def __init__(self, prog: Program, roles: Optional[Roles] = None):
        self.prog = prog
        self.roles = roles
        self.sites: Dict[FuncInfo, List[CallSite]] = {}

    # -------------------------------------------------------------- per function
    def callsites(self, fi: FuncInfo, receiver: Optional[ClassInfo] = None) -> List[CallSite]:
        key = fi
        if key in self.sites and receiver is None:
            return self.sites[key]
        out: List[CallSite] = []
        local_defs = self._local_function_names(fi)
        cls = receiver or fi.cls or (fi.parent.cls if fi.parent else None)
        p = fi
        while cls is None and p is not None:
            cls = p.cls
            p = p.parent
        for n in own_nodes(fi.node):
            if not isinstance(n, ast.Call):
                continue
            cs = CallSite(n, fi)
            self._resolve(cs, fi, cls, local_defs)
            out.append(cs)
        if receiver is None:
            self.sites[key] = out
        return out

    def _local_function_names(self, fi: FuncInfo) -> Set[str]:
        names = set()
        for n in ast.walk(fi.node):
            if isinstance(n, (ast.FunctionDef, ast.AsyncFunctionDef)) and n is not fi.node:
                names.add(n.name)
        return names

    def _local_names(self, fi: FuncInfo) -> Set[str]:
        names = set()
        for n in ast.walk(fi.node):
            if isinstance(n, ast.Name) and isinstance(n.ctx, (ast.Store, ast.Del)):
                names.add(n.id)
            elif isinstance(n, ast.arg):
                names.add(n.arg)
        return names

    def _resolve(self, cs: CallSite, fi: FuncInfo, cls: Optional[ClassInfo], local_defs: Set[str]) -> None:
        f = cs.node.func
        prog = self.prog
        mi = fi.module
        if isinstance(f, ast.Name):
            if f.id in local_defs:
                cs.kind = "resolved"  # nested function: its body is part of the caller
                return
            if f.id in self._local_names(fi):
                cs.kind = "local-callable"
                return
            r = prog.resolve_global_name(mi, f.id)
            self._from_resolution(cs, r)
            return
        if isinstance(f, ast.Attribute):
            # self.m(...)
            if isinstance(f.value, ast.Name) and f.value.id == "self" and cls is not None:
                m = cls.lookup(f.attr)
                if m is not None:
                    cs.targets.append(m)
                    cs.kind = "resolved"
                    return
                # attribute holding a class (self.<RatingAttr>) or the callback slot
                if self.roles is not None and f.attr == self.roles.rating_attr:
                    init = self.roles.rating.lookup("__init__")
                    if init:
                        cs.targets.append(init)
                    cs.kind = "resolved"
                    return
                cs.kind = "callback"
                cs.external = f"self.{f.attr}"
                return
            r = prog.resolve_expr(mi, f)
            if r is not None:
                self._from_resolution(cs, r)
                return
            # unknown receiver: method-name fallback
            if f.attr in CONTAINER_METHODS:
                cs.kind = "container"
                cs.external = f".{f.attr}"
                return
            cands = []
            for ci in prog.all_classes():
                if f.attr in ci.methods:
                    cands.append(ci.methods[f.attr])
            if cands:
                if self.roles is not None:
                    own = [
                        c
                        for c in cands
                        if c.cls in (self.roles.model, self.roles.rating, self.roles.team_rating)
                        or any(c.cls in k.mro for k in (self.roles.model, self.roles.rating, self.roles.team_rating))
                    ]
                    cands = own or cands
                cs.targets.extend(cands)
                cs.kind = "resolved"
                return
            cs.kind = "unresolved"
            cs.external = "." + f.attr
            return
        cs.kind = "unresolved"

    def _from_resolution(self, cs: CallSite, r) -> None:
        if r is None:
            cs.kind = "unresolved"
            return
        k, obj = r
        if k == "func":
            cs.targets.append(obj)
            cs.kind = "resolved"
        elif k == "class":
            init = obj.lookup("__init__")
            if init is not None:
                cs.targets.append(init)
            cs.kind = "resolved"
        elif k == "builtin":
            cs.kind = "builtin"
            cs.external = obj
        elif k == "external":
            cs.kind = "external"
            cs.external = obj
            if obj in ("copy.deepcopy", "copy.copy") and self.roles is not None:
                dn = "__deepcopy__" if obj.endswith("deepcopy") else "__copy__"
                m = self.roles.rating.lookup(dn)
                if m is not None:
                    cs.targets.append(m)
        elif k == "global":
            cs.kind = "global-callable"
            cs.external = f"{obj[0].name}.{obj[1]}"
        else:
            cs.kind = "unresolved"

    # -------------------------------------------------------------- reachability
    def reachable(
        self, roots: List[FuncInfo], receiver: Optional[ClassInfo] = None, cut: Tuple[str, ...] = ()
    ) -> List[FuncInfo]:
        """Functions reachable from roots; functions whose *name* is in ``cut`` are not entered."""
        seen: List[FuncInfo] = []
        work = list(roots)
        while work:
            f = work.pop()
            if f in seen:
                continue
            if f.name in cut and f not in roots:
                continue
            seen.append(f)
            for cs in self.callsites(f, receiver):
                for t in cs.targets:
                    if t not in seen:
                        work.append(t)
        return seen
