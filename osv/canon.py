"""Canonical forms of definitions for sibling agreement (DESIGN §4.4).

A definition is normalised so that the five mechanical copies of a shared method
have the same canonical text: docstrings and annotations removed, role class names
replaced by role placeholders, exception messages dropped, locals alpha-renamed in
order of first binding, the boolean-return idiom collapsed, ``if c: pass else: S``
turned into ``if not c: S``, operands of numeric ``+``/``*`` and of ``==``/``!=``
sorted.  ``and``/``or`` are never reordered.
"""

from __future__ import annotations

import ast
import copy
import difflib
from typing import Dict, List, Optional

from .frontend import FuncInfo, Roles, strip_docstring

PH_MODEL, PH_RATING, PH_TEAM, PH_RATTR = "__Model__", "__Rating__", "__TeamRating__", "__RatingAttr__"


def role_names(roles: Roles) -> Dict[str, str]:
    return {
        roles.model.name: PH_MODEL,
        roles.rating.name: PH_RATING,
        roles.team_rating.name: PH_TEAM,
    }


def _replace_in_str(s: str, names: Dict[str, str]) -> str:
    for k in sorted(names, key=len, reverse=True):
        s = s.replace(k, names[k])
    return s


class _Canon(ast.NodeTransformer):
    def __init__(self, names: Dict[str, str], rating_attr: str, drop_strings: bool, keep_params: List[str]):
        self.names = names
        self.rating_attr = rating_attr
        self.drop_strings = drop_strings
        self.ren: Dict[str, str] = {}
        self.keep = set(keep_params)
        self.in_raise = 0

    # ---- names
    def _local(self, name: str) -> str:
        if name in self.keep:
            return name
        if name not in self.ren:
            self.ren[name] = f"v{len(self.ren)}"
        return self.ren[name]

    def visit_Name(self, node: ast.Name):
        if node.id in self.names:
            return ast.Name(id=self.names[node.id], ctx=node.ctx)
        if isinstance(node.ctx, (ast.Store, ast.Del)):
            return ast.Name(id=self._local(node.id), ctx=node.ctx)
        if node.id in self.ren:
            return ast.Name(id=self.ren[node.id], ctx=node.ctx)
        return node

    def visit_arg(self, node: ast.arg):
        return ast.arg(arg=self._local(node.arg), annotation=None)

    def visit_Attribute(self, node: ast.Attribute):
        self.generic_visit(node)
        if self.rating_attr and node.attr == self.rating_attr:
            node.attr = PH_RATTR
        return node

    # ---- strings
    def visit_Constant(self, node: ast.Constant):
        if isinstance(node.value, str):
            if self.drop_strings or self.in_raise:
                return ast.Constant(value="<str>")
            return ast.Constant(value=_replace_in_str(node.value, self.names))
        return node

    def visit_JoinedStr(self, node: ast.JoinedStr):
        if self.drop_strings or self.in_raise:
            return ast.Constant(value="<str>")
        self.generic_visit(node)
        return node

    def visit_Raise(self, node: ast.Raise):
        self.in_raise += 1
        self.generic_visit(node)
        self.in_raise -= 1
        # exception messages are not behaviour the properties speak about
        if isinstance(node.exc, ast.Call):
            node.exc = ast.Call(func=node.exc.func, args=[], keywords=[])
        return node

    # ---- definitions
    def visit_FunctionDef(self, node: ast.FunctionDef):
        node.name = self._local(node.name) if getattr(self, "_depth", 0) else node.name
        self._depth = getattr(self, "_depth", 0) + 1
        node.returns = None
        node.body = strip_docstring(node.body) or [ast.Pass()]
        node.decorator_list = [self.visit(d) for d in node.decorator_list]
        # defaults first (evaluated in the enclosing scope)
        node.args.defaults = [self.visit(d) for d in node.args.defaults]
        node.args.kw_defaults = [self.visit(d) if d is not None else None for d in node.args.kw_defaults]
        for lst in (node.args.posonlyargs, node.args.args, node.args.kwonlyargs):
            lst[:] = [self.visit_arg(a) for a in lst]
        if node.args.vararg:
            node.args.vararg = self.visit_arg(node.args.vararg)
        if node.args.kwarg:
            node.args.kwarg = self.visit_arg(node.args.kwarg)
        node.body = self._stmts(node.body)
        self._depth -= 1
        return node

    def visit_Lambda(self, node: ast.Lambda):
        for lst in (node.args.posonlyargs, node.args.args, node.args.kwonlyargs):
            lst[:] = [self.visit_arg(a) for a in lst]
        node.args.defaults = [self.visit(d) for d in node.args.defaults]
        node.body = self.visit(node.body)
        return node

    def visit_AnnAssign(self, node: ast.AnnAssign):
        if node.value is None:
            return None
        return self.visit(ast.Assign(targets=[node.target], value=node.value))

    def _stmts(self, body: List[ast.stmt]) -> List[ast.stmt]:
        out: List[ast.stmt] = []
        for st in body:
            r = self.visit(st)
            if r is None:
                continue
            if isinstance(r, list):
                out.extend(r)
            else:
                out.append(r)
        # drop bare string expression statements and trailing `pass` noise
        out = [
            s
            for s in out
            if not (isinstance(s, ast.Expr) and isinstance(s.value, ast.Constant) and isinstance(s.value.value, str))
        ]
        if len(out) > 1:
            out = [s for s in out if not isinstance(s, ast.Pass)] or [ast.Pass()]
        return out or [ast.Pass()]

    def visit_If(self, node: ast.If):
        node.test = self.visit(node.test)
        node.body = self._stmts(node.body)
        node.orelse = self._stmts(node.orelse) if node.orelse else []
        # if c: pass else: S   ==>   if not c: S
        if node.orelse and all(isinstance(s, ast.Pass) for s in node.body):
            node = ast.If(test=_negate(node.test), body=node.orelse, orelse=[])
        # if c: return True else: return False  ==>  return c   (c is a comparison/bool op)
        if (
            len(node.body) == 1
            and len(node.orelse) == 1
            and isinstance(node.body[0], ast.Return)
            and isinstance(node.orelse[0], ast.Return)
            and _is_const(node.body[0].value, True)
            and _is_const(node.orelse[0].value, False)
            and _is_boolean_expr(node.test)
        ):
            return ast.Return(value=node.test)
        return node

    def visit_For(self, node: ast.For):
        node.iter = self.visit(node.iter)
        node.target = self.visit(node.target)
        node.body = self._stmts(node.body)
        node.orelse = self._stmts(node.orelse) if node.orelse else []
        return node

    def visit_While(self, node: ast.While):
        node.test = self.visit(node.test)
        node.body = self._stmts(node.body)
        node.orelse = self._stmts(node.orelse) if node.orelse else []
        return node

    # ---- expressions
    def visit_BinOp(self, node: ast.BinOp):
        self.generic_visit(node)
        if isinstance(node.op, (ast.Add, ast.Mult)) and _numericish(node.left) and _numericish(node.right):
            l, r = ast.dump(node.left), ast.dump(node.right)
            if r < l:
                node.left, node.right = node.right, node.left
        return node

    def visit_Compare(self, node: ast.Compare):
        self.generic_visit(node)
        if len(node.ops) == 1 and isinstance(node.ops[0], (ast.Eq, ast.NotEq)):
            l, r = ast.dump(node.left), ast.dump(node.comparators[0])
            if r < l:
                node.left, node.comparators[0] = node.comparators[0], node.left
        return node

    def visit_Call(self, node: ast.Call):
        self.generic_visit(node)
        return node


def _negate(e: ast.expr) -> ast.expr:
    if isinstance(e, ast.UnaryOp) and isinstance(e.op, ast.Not):
        return e.operand
    return ast.UnaryOp(op=ast.Not(), operand=e)


def _is_const(e: Optional[ast.expr], v) -> bool:
    return isinstance(e, ast.Constant) and e.value is v


def _is_boolean_expr(e: ast.expr) -> bool:
    if isinstance(e, ast.Compare):
        return True
    if isinstance(e, ast.BoolOp):
        return all(_is_boolean_expr(v) for v in e.values)
    if isinstance(e, ast.UnaryOp) and isinstance(e.op, ast.Not):
        return True
    if isinstance(e, ast.Call) and isinstance(e.func, ast.Name) and e.func.id in ("isinstance", "bool", "all", "any"):
        return True
    return False


def _numericish(e: ast.expr) -> bool:
    return not isinstance(
        e, (ast.List, ast.ListComp, ast.Tuple, ast.JoinedStr, ast.Dict, ast.Set, ast.GeneratorExp)
    ) and not (isinstance(e, ast.Constant) and isinstance(e.value, (str, bytes)))


def canonical_def(fi: FuncInfo, roles: Optional[Roles], drop_strings: Optional[bool] = None) -> ast.AST:
    node = copy.deepcopy(fi.node)
    names = role_names(roles) if roles else {}
    if drop_strings is None:
        drop_strings = fi.name == "__str__"
    params = []
    if isinstance(node, (ast.FunctionDef, ast.AsyncFunctionDef)):
        a = node.args
        params = [x.arg for x in a.posonlyargs + a.args + a.kwonlyargs]
        if a.vararg:
            params.append(a.vararg.arg)
        if a.kwarg:
            params.append(a.kwarg.arg)
    c = _Canon(names, roles.rating_attr if roles else "", drop_strings, params)
    out = c.visit(node)
    ast.fix_missing_locations(out)
    return out


def canonical_text(fi: FuncInfo, roles: Optional[Roles], drop_strings: Optional[bool] = None) -> str:
    return ast.unparse(canonical_def(fi, roles, drop_strings))


def canonical_expr_text(e: ast.expr, roles: Optional[Roles]) -> str:
    node = copy.deepcopy(e)
    c = _Canon(role_names(roles) if roles else {}, roles.rating_attr if roles else "", False, [])
    out = c.visit(node)
    ast.fix_missing_locations(out)
    return ast.unparse(out)


def diff_text(a: str, b: str, la: str = "majority", lb: str = "deviant", limit: int = 30) -> str:
    lines = list(difflib.unified_diff(a.splitlines(), b.splitlines(), la, lb, lineterm="", n=1))
    if len(lines) > limit:
        lines = lines[:limit] + [f"... ({len(lines) - limit} more diff lines)"]
    return "\n".join(lines)


def fold_const(e: ast.expr):
    """Fold literal arithmetic (``25.0 / 3.0``) to a (type name, value) pair, else None."""
    try:
        if isinstance(e, ast.Constant):
            return (type(e.value).__name__, e.value)
        if isinstance(e, ast.UnaryOp) and isinstance(e.op, (ast.USub, ast.UAdd)):
            v = fold_const(e.operand)
            if v and isinstance(v[1], (int, float)):
                r = -v[1] if isinstance(e.op, ast.USub) else +v[1]
                return (type(r).__name__, r)
        if isinstance(e, ast.BinOp):
            l, r = fold_const(e.left), fold_const(e.right)
            if l and r and isinstance(l[1], (int, float)) and isinstance(r[1], (int, float)):
                op = e.op
                if isinstance(op, ast.Add):
                    v = l[1] + r[1]
                elif isinstance(op, ast.Sub):
                    v = l[1] - r[1]
                elif isinstance(op, ast.Mult):
                    v = l[1] * r[1]
                elif isinstance(op, ast.Div):
                    v = l[1] / r[1]
                elif isinstance(op, ast.Pow):
                    v = l[1] ** r[1]
                else:
                    return None
                return (type(v).__name__, v)
    except Exception:
        return None
    return None
