"""Front end: loader, module/class tables, name and callee resolution, role discovery.

The analysed program is the package ``openskill`` under ``$VERIF_REPO`` (default
``/repo``).  Everything is re-derived from the source on every run.
"""

from __future__ import annotations

import ast
import hashlib
import importlib.util
import os
from dataclasses import dataclass, field
from typing import Dict, List, Optional, Tuple


class AnalysisError(Exception):
    """The analysis met something it cannot model, or an anchor vanished (exit 2)."""


def repo_root() -> str:
    return os.environ.get("VERIF_REPO", "/repo")


# --------------------------------------------------------------------------------------
# tables
# --------------------------------------------------------------------------------------


@dataclass
class FuncInfo:
    name: str
    qualname: str  # "Class.method", "func", "Class.method.<locals>.inner"
    module: "ModuleInfo"
    node: ast.AST  # FunctionDef | Lambda
    cls: Optional["ClassInfo"] = None
    kind: str = "function"  # function | method | staticmethod | classmethod | property
    parent: Optional["FuncInfo"] = None  # enclosing function for nested defs

    @property
    def fq(self) -> str:
        return f"{self.module.name}::{self.qualname}"

    def __hash__(self):
        return id(self)

    def __eq__(self, other):
        return self is other

    def params(self) -> List[str]:
        a = self.node.args
        return [x.arg for x in list(a.posonlyargs) + list(a.args)]


@dataclass
class ClassInfo:
    name: str
    module: "ModuleInfo"
    node: ast.ClassDef
    base_exprs: List[ast.expr] = field(default_factory=list)
    bases: List["ClassInfo"] = field(default_factory=list)
    ext_bases: List[str] = field(default_factory=list)  # resolved external/builtin bases
    methods: Dict[str, FuncInfo] = field(default_factory=dict)
    class_attrs: Dict[str, ast.expr] = field(default_factory=dict)
    decorators: List[str] = field(default_factory=list)
    mro: List["ClassInfo"] = field(default_factory=list)

    @property
    def fq(self) -> str:
        return f"{self.module.name}::{self.name}"

    def __hash__(self):
        return id(self)

    def __eq__(self, other):
        return self is other

    def lookup(self, name: str) -> Optional[FuncInfo]:
        for c in self.mro:
            if name in c.methods:
                return c.methods[name]
        return None

    def lookup_class_attr(self, name: str) -> Optional[Tuple["ClassInfo", ast.expr]]:
        for c in self.mro:
            if name in c.class_attrs:
                return c, c.class_attrs[name]
        return None

    def all_method_names(self) -> List[str]:
        seen = []
        for c in self.mro:
            for m in c.methods:
                if m not in seen:
                    seen.append(m)
        return seen

    def is_subclass_of(self, other: "ClassInfo") -> bool:
        return other in self.mro

    def ext_ancestors(self) -> List[str]:
        out = []
        for c in self.mro:
            out.extend(c.ext_bases)
        return out


@dataclass
class ModuleInfo:
    name: str
    path: str
    source: str
    tree: ast.Module
    is_package: bool = False
    imports: Dict[str, Tuple[str, Optional[str]]] = field(default_factory=dict)
    # alias -> (module qualified name, attribute or None)
    funcs: Dict[str, FuncInfo] = field(default_factory=dict)
    classes: Dict[str, ClassInfo] = field(default_factory=dict)
    assigns: Dict[str, List[ast.expr]] = field(default_factory=dict)
    external: bool = False  # stdlib module parsed for resolution only

    def __hash__(self):
        return id(self)

    def __eq__(self, other):
        return self is other


@dataclass
class Roles:
    """Role slots of one registered model, filled from the repository itself."""

    model: ClassInfo
    rating: ClassInfo
    team_rating: ClassInfo
    gamma_default: Optional[FuncInfo]
    rating_attr: str  # the attribute of the model that holds the Rating class

    @property
    def short(self) -> str:
        return self.model.name


PUBLIC_OPS = ("rate", "predict_win", "predict_draw", "predict_rank")


class Program:
    def __init__(self, root: Optional[str] = None, package: str = "openskill"):
        self.root = root or repo_root()
        self.package = package
        self.modules: Dict[str, ModuleInfo] = {}
        self.ext_modules: Dict[str, Optional[ModuleInfo]] = {}
        self._load()
        self._link_classes()
        self._roles: Optional[List[Roles]] = None

    # ---------------------------------------------------------------- loading
    def _load(self) -> None:
        pkg_dir = os.path.join(self.root, self.package)
        if not os.path.isdir(pkg_dir):
            raise AnalysisError(f"vanished anchor: package directory {pkg_dir} not found")
        for dirpath, dirnames, filenames in os.walk(pkg_dir):
            dirnames[:] = sorted(d for d in dirnames if d != "__pycache__")
            for fn in sorted(filenames):
                if not fn.endswith(".py"):
                    continue
                path = os.path.join(dirpath, fn)
                rel = os.path.relpath(path, self.root)[:-3].replace(os.sep, ".")
                is_pkg = False
                if rel.endswith(".__init__"):
                    rel = rel[: -len(".__init__")]
                    is_pkg = True
                with open(path, "r", encoding="utf-8") as fh:
                    src = fh.read()
                try:
                    tree = ast.parse(src, filename=path)
                except SyntaxError as e:  # pragma: no cover
                    raise AnalysisError(f"cannot parse {path}: {e}")
                mi = ModuleInfo(rel, path, src, tree, is_package=is_pkg)
                self._index_module(mi)
                self.modules[rel] = mi
        if not self.modules:
            raise AnalysisError("vanished anchor: no modules found")

    def digest(self) -> str:
        h = hashlib.sha1()
        for name in sorted(self.modules):
            h.update(name.encode())
            h.update(self.modules[name].source.encode())
        return h.hexdigest()

    def _index_module(self, mi: ModuleInfo) -> None:
        for st in mi.tree.body:
            self._index_stmt(mi, st)

    def _index_stmt(self, mi: ModuleInfo, st: ast.stmt) -> None:
        if isinstance(st, ast.Import):
            for a in st.names:
                if a.asname:
                    mi.imports[a.asname] = (a.name, None)
                else:
                    top = a.name.split(".")[0]
                    mi.imports[top] = (top, None)
        elif isinstance(st, ast.ImportFrom):
            mod = st.module or ""
            if st.level:
                base = mi.name.split(".")
                if not mi.is_package:
                    base = base[:-1]
                base = base[: len(base) - (st.level - 1)]
                mod = ".".join(base + ([mod] if mod else []))
            for a in st.names:
                mi.imports[a.asname or a.name] = (mod, a.name)
        elif isinstance(st, (ast.FunctionDef, ast.AsyncFunctionDef)):
            fi = FuncInfo(st.name, st.name, mi, st)
            mi.funcs[st.name] = fi
            self._index_nested(fi)
        elif isinstance(st, ast.ClassDef):
            ci = ClassInfo(st.name, mi, st, base_exprs=list(st.bases))
            ci.decorators = [ast.unparse(d) for d in st.decorator_list]
            for b in st.body:
                if isinstance(b, (ast.FunctionDef, ast.AsyncFunctionDef)):
                    kind = "method"
                    for d in b.decorator_list:
                        ds = ast.unparse(d)
                        if ds in ("staticmethod", "classmethod", "property"):
                            kind = ds
                        elif ds.endswith(".setter") or ds.endswith(".getter"):
                            kind = "property"
                        else:
                            kind = kind if kind != "method" else "decorated:" + ds
                    fi = FuncInfo(b.name, f"{st.name}.{b.name}", mi, b, cls=ci, kind=kind)
                    ci.methods[b.name] = fi
                    self._index_nested(fi)
                elif isinstance(b, ast.Assign):
                    for t in b.targets:
                        if isinstance(t, ast.Name):
                            ci.class_attrs[t.id] = b.value
                elif isinstance(b, ast.AnnAssign) and isinstance(b.target, ast.Name) and b.value is not None:
                    ci.class_attrs[b.target.id] = b.value
            mi.classes[st.name] = ci
        elif isinstance(st, ast.Assign):
            for t in st.targets:
                if isinstance(t, ast.Name):
                    mi.assigns.setdefault(t.id, []).append(st.value)
                elif isinstance(t, ast.Attribute) and isinstance(t.value, ast.Name) and t.value.id in mi.classes:
                    # module-level  Class.attr = expr  after the class statement: a class attribute bound at import time
                    mi.classes[t.value.id].class_attrs[t.attr] = st.value
        elif isinstance(st, ast.AnnAssign):
            if isinstance(st.target, ast.Name) and st.value is not None:
                mi.assigns.setdefault(st.target.id, []).append(st.value)
        elif isinstance(st, ast.AugAssign):
            if isinstance(st.target, ast.Name):
                mi.assigns.setdefault(st.target.id, []).append(st)
        elif isinstance(st, (ast.If, ast.Try)):
            # conditional module-level definitions: index both arms
            for sub in ast.iter_child_nodes(st):
                if isinstance(sub, ast.stmt):
                    self._index_stmt(mi, sub)

    def _index_nested(self, fi: FuncInfo) -> None:
        fi.nested = {}

        def walk(node, owner: FuncInfo):
            for ch in ast.iter_child_nodes(node):
                if isinstance(ch, (ast.FunctionDef, ast.AsyncFunctionDef)):
                    sub = FuncInfo(
                        ch.name, f"{owner.qualname}.<locals>.{ch.name}", owner.module, ch, cls=None, parent=owner
                    )
                    sub.nested = {}
                    owner.nested[ch.name] = sub
                    walk(ch, sub)
                elif isinstance(ch, ast.ClassDef):
                    continue
                else:
                    walk(ch, owner)

        walk(fi.node, fi)

    # ---------------------------------------------------------------- classes
    def _link_classes(self) -> None:
        for mi in list(self.modules.values()):
            for ci in mi.classes.values():
                for be in ci.base_exprs:
                    r = self.resolve_expr(mi, be)
                    if r and r[0] == "class":
                        ci.bases.append(r[1])
                    elif r and r[0] in ("builtin", "external"):
                        ci.ext_bases.append(r[1])
                    else:
                        ci.ext_bases.append("?" + ast.unparse(be))
        for mi in self.modules.values():
            for ci in mi.classes.values():
                ci.mro = self._c3(ci, ())

    def _c3(self, ci: ClassInfo, stack) -> List[ClassInfo]:
        if ci in stack:
            raise AnalysisError(f"inheritance cycle at {ci.fq}")
        seqs = [self._c3(b, stack + (ci,)) for b in ci.bases] + [list(ci.bases)]
        out = [ci]
        seqs = [s[:] for s in seqs if s]
        while seqs:
            for s in seqs:
                cand = s[0]
                if not any(cand in t[1:] for t in seqs):
                    break
            else:
                raise AnalysisError(f"inconsistent MRO for {ci.fq}")
            out.append(cand)
            for s in seqs:
                if s and s[0] is cand:
                    del s[0]
            seqs = [s for s in seqs if s]
        return out

    # ---------------------------------------------------------------- resolution
    def resolve_module_attr(self, modname: str, attr: str, _depth: int = 0):
        """Resolve ``modname.attr`` to ('func'|'class'|'module'|'global'|'external', obj)."""
        if _depth > 12:
            return None
        mi = self.modules.get(modname)
        if mi is None:
            sub = f"{modname}.{attr}"
            if sub in self.modules:
                return ("module", sub)
            return ("external", f"{modname}.{attr}")
        if attr in mi.funcs:
            return ("func", mi.funcs[attr])
        if attr in mi.classes:
            return ("class", mi.classes[attr])
        if attr in mi.assigns:
            return ("global", (mi, attr))
        if attr in mi.imports:
            m2, a2 = mi.imports[attr]
            if a2 is None:
                return ("module", m2) if m2 in self.modules else ("external", m2)
            return self.resolve_module_attr(m2, a2, _depth + 1)
        sub = f"{modname}.{attr}"
        if sub in self.modules:
            return ("module", sub)
        return None

    def resolve_global_name(self, mi: ModuleInfo, name: str):
        if name in mi.funcs:
            return ("func", mi.funcs[name])
        if name in mi.classes:
            return ("class", mi.classes[name])
        if name in mi.assigns:
            return ("global", (mi, name))
        if name in mi.imports:
            m2, a2 = mi.imports[name]
            if a2 is None:
                return ("module", m2) if m2 in self.modules else ("external", m2)
            return self.resolve_module_attr(m2, a2)
        import builtins

        if hasattr(builtins, name):
            return ("builtin", name)
        return None

    def resolve_expr(self, mi: ModuleInfo, e: ast.expr):
        """Resolve a Name / dotted Attribute in module scope."""
        if isinstance(e, ast.Name):
            return self.resolve_global_name(mi, e.id)
        if isinstance(e, ast.Attribute):
            base = self.resolve_expr(mi, e.value)
            if base is None:
                return None
            if base[0] == "module":
                return self.resolve_module_attr(base[1], e.attr)
            if base[0] == "external":
                return ("external", f"{base[1]}.{e.attr}")
            if base[0] == "class":
                m = base[1].lookup(e.attr)
                if m:
                    return ("func", m)
        return None

    # ---------------------------------------------------------------- stdlib sources
    def stdlib_module(self, name: str) -> Optional[ModuleInfo]:
        """Parse (never import) a pure-Python stdlib module for callee resolution."""
        if name in self.ext_modules:
            return self.ext_modules[name]
        mi = None
        try:
            spec = importlib.util.find_spec(name)
        except (ImportError, ValueError):
            spec = None
        if spec is not None and spec.origin and spec.origin.endswith(".py") and os.path.exists(spec.origin):
            with open(spec.origin, "r", encoding="utf-8") as fh:
                src = fh.read()
            tree = ast.parse(src, filename=spec.origin)
            mi = ModuleInfo(name, spec.origin, src, tree, external=True)
            self._index_module(mi)
            for ci in mi.classes.values():
                ci.mro = [ci]
        self.ext_modules[name] = mi
        return mi

    # ---------------------------------------------------------------- iteration helpers
    def all_functions(self) -> List[FuncInfo]:
        out = []

        def add(fi):
            out.append(fi)
            for sub in getattr(fi, "nested", {}).values():
                add(sub)

        for mi in self.modules.values():
            for fi in mi.funcs.values():
                add(fi)
            for ci in mi.classes.values():
                for fi in ci.methods.values():
                    add(fi)
        return out

    def all_classes(self) -> List[ClassInfo]:
        return [ci for mi in self.modules.values() for ci in mi.classes.values()]

    # ---------------------------------------------------------------- roles
    def registry(self) -> List[ClassInfo]:
        """Model classes = the elements of ``<package>.models.MODELS``."""
        mi = self.modules.get(f"{self.package}.models")
        if mi is None or "MODELS" not in mi.assigns:
            raise AnalysisError("vanished anchor: openskill.models.MODELS registry not found")
        vals = mi.assigns["MODELS"]
        if len(vals) != 1 or not isinstance(vals[0], (ast.List, ast.Tuple)):
            raise AnalysisError("vanished anchor: MODELS is not a single list literal")
        out = []
        for el in vals[0].elts:
            r = self.resolve_expr(mi, el)
            if not r or r[0] != "class":
                raise AnalysisError(f"MODELS element {ast.unparse(el)} does not resolve to a class")
            out.append(r[1])
        return out

    def roles(self) -> List[Roles]:
        if self._roles is None:
            self._roles = [self._discover_roles(ci) for ci in self.registry()]
        return self._roles

    def _discover_roles(self, model: ClassInfo) -> Roles:
        init = model.lookup("__init__")
        rating_m = model.lookup("rating")
        if init is None or rating_m is None:
            raise AnalysisError(f"vanished anchor: {model.fq} lacks __init__ or rating")
        # class-valued attributes bound in __init__:  self.<Attr> = <Class>
        class_attrs: Dict[str, ClassInfo] = {}
        for st in ast.walk(init.node):
            tgt = val = None
            if isinstance(st, ast.Assign) and len(st.targets) == 1:
                tgt, val = st.targets[0], st.value
            elif isinstance(st, ast.AnnAssign) and st.value is not None:
                tgt, val = st.target, st.value
            if (
                isinstance(tgt, ast.Attribute)
                and isinstance(tgt.value, ast.Name)
                and tgt.value.id == "self"
                and val is not None
            ):
                r = self.resolve_expr(init.module, val) if isinstance(val, (ast.Name, ast.Attribute)) else None
                if r and r[0] == "class":
                    class_attrs[tgt.attr] = r[1]
        def class_of_attr(attr: str) -> Optional[ClassInfo]:
            """self.<attr> / cls.<attr> as a class: bound in __init__, or a class attribute found through the MRO."""
            if attr in class_attrs:
                return class_attrs[attr]
            ca = model.lookup_class_attr(attr)
            if ca is not None and isinstance(ca[1], (ast.Name, ast.Attribute)):
                r = self.resolve_expr(ca[0].module, ca[1])
                if r and r[0] == "class":
                    return r[1]
            return None

        def constructed(fi: FuncInfo) -> List[Tuple[ClassInfo, str]]:
            out = []
            for n in ast.walk(fi.node):
                if isinstance(n, ast.Call):
                    f = n.func
                    if isinstance(f, ast.Attribute) and isinstance(f.value, ast.Name) and f.value.id in ("self", "cls"):
                        c = class_of_attr(f.attr)
                        if c is not None:
                            out.append((c, f.attr))
                    elif isinstance(f, (ast.Name, ast.Attribute)):
                        r = self.resolve_expr(fi.module, f)
                        if r and r[0] == "class":
                            out.append((r[1], ""))
            return out

        # the class `rating` constructs
        rating_cls = None
        rating_attr = ""
        for c, attr in constructed(rating_m):
            rating_cls = c
            if attr in class_attrs:
                rating_attr = attr
        # TeamRating role: the class constructed in _calculate_team_ratings
        ctr = model.lookup("_calculate_team_ratings")
        team_cls = None
        if ctr is not None and rating_cls is not None:
            for c, _ in constructed(ctr):
                if c is not rating_cls:
                    team_cls = c
        if rating_cls is None or team_cls is None:
            # the syntactic patterns do not apply (e.g. the class is looked up dynamically): evaluate the model abstractly
            from .ai.discover import discover_semantic

            rating_cls, team_cls, rating_attr = discover_semantic(self, model, rating_cls, team_cls, rating_attr)
        # default gamma
        gamma_default = None
        a = init.node.args
        names = [x.arg for x in a.args]
        defaults = [None] * (len(names) - len(a.defaults)) + list(a.defaults)
        for nm, d in zip(names, defaults):
            if nm == "gamma" and d is not None:
                r = self.resolve_expr(init.module, d) if isinstance(d, (ast.Name, ast.Attribute)) else None
                if r and r[0] == "func":
                    gamma_default = r[1]
        for nm, d in zip([x.arg for x in a.kwonlyargs], a.kw_defaults):
            if nm == "gamma" and d is not None:
                r = self.resolve_expr(init.module, d) if isinstance(d, (ast.Name, ast.Attribute)) else None
                if r and r[0] == "func":
                    gamma_default = r[1]
        return Roles(model, rating_cls, team_cls, gamma_default, rating_attr)


def strip_docstring(body: List[ast.stmt]) -> List[ast.stmt]:
    if (
        body
        and isinstance(body[0], ast.Expr)
        and isinstance(body[0].value, ast.Constant)
        and isinstance(body[0].value.value, str)
    ):
        return body[1:]
    return body


def norm_text(node: ast.AST, limit: int = 160) -> str:
    """Normalised statement text used in finding keys (never line numbers)."""
    try:
        s = ast.unparse(node)
    except Exception:  # pragma: no cover
        s = type(node).__name__
    s = " ".join(s.split())
    if len(s) > limit:
        s = s[: limit - 3] + "..."
    return s
