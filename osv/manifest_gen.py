"""Generates /verif/MANIFEST.json from the table below:  python -m osv.manifest_gen"""

from __future__ import annotations

import json
import os

VERIF = os.path.dirname(os.path.dirname(os.path.abspath(__file__)))

PY = "/venv/bin/python"

# property -> (technique, category, level text, level note, design ref)
CLAIMED = {
    "C19": (
        "sibling canonical-form agreement over resolved definitions (AST), deviant by majority",
        "other",
        "Every method of the model/Rating/TeamRating roles reachable outside the update kernel has one canonical "
        "form across the five registered models; method sets, signatures and default values agree; registry "
        "complete. A structural sufficient condition for 'identical shared behaviour' that covers all inputs at "
        "once and names the deviant copy; BT-part==BT-full on two teams is decided as equality of the per-pair "
        "kernel terms only.",
        "Trusted: the canonicaliser (alpha-renaming, message/docstring/annotation stripping, commutative operand "
        "sorting) and the own name resolver. Not decided: that _ladder_pairs on two teams yields exactly the other "
        "team (run-time fact, pinned by test_ladder_pairs).",
        "DESIGN.md §5 C19",
    ),
}

CLAIMED.update({
    "C13": (
        "abstract interpretation on a type-shape domain over the malformed-argument grammar (existential bad-element witnesses) + effect-before-raise analysis",
        "proof",
        "Every public operation of every registered model is evaluated abstractly on every class of the statement's malformed-argument "
        "grammar and on the well-formed classes; malformed => all paths raise TypeError/ValueError with an empty effect set, "
        "well-formed => no path raises. Exhaustive over the abstract grammar; obligations = abstract cases + rejection points.",
        "Trusted: the abstract semantics of isinstance/len/truthiness/iteration and CPython's implicit TypeError in osv/ai, the own resolver. "
        "Assumes arguments are plain containers/numbers/ratings or unrelated objects (no adversarial list subclasses).",
        "DESIGN.md §5 C13",
    ),
    "C14": (
        "transitive effect analysis + provenance (taint) analysis by abstract interpretation; syntactic call-graph cross-check",
        "proof",
        "The write set of rate/predict_* (all paths of all argument classes, through every resolved callee) contains no model attribute, "
        "module global, class attribute, default-argument object; id/name/identity/hash/random never reach a stored or returned number, "
        "a branch or a sort key; every model attribute read is constructor-stored. The thread clause is derived from these facts.",
        "Trusted: osv/ai effect events and allocation-site classification; stdlib leaves (deepcopy, itertools, NormalDist) assumed to write no shared state; "
        "the gamma callback is assumed pure. Schedules are not explored: the interleaving claim is an argument from disjoint write sets.",
        "DESIGN.md §5 C14",
    ),
    "C15": (
        "abstract evaluation on the option domain {None, falsy-not-None, truthy} with ARG/CTOR provenance through data flow and control dependence; "
        "substitution equivalence of the stored terms between 'option None, model setting X' and 'option X' (R15.5)",
        "proof",
        "For each option and option class the numbers stored into ratings depend on the argument (never on the model attribute) when the argument is not None "
        "and on the constructor attribute when it is None; the constructor stores the parameter unchanged modulo float(). 30 option cases x selector classes per model.",
        "Trusted: provenance propagation of osv/ai. R15.5 compares the position-erased normal forms of the values stored by the two abstract runs.",
        "DESIGN.md §5 C15",
    ),
})

CLAIMED.update({
    "C18": (
        "abstract evaluation of the resolved operators on the 3-point order domain (assumed relation between value-numbered ordinals), exhaustive",
        "proof",
        "Each of the 20 hand-written order operators is evaluated on every relation of (a.ordinal(), b.ordinal()) in {<, ==, >, unordered} and on every "
        "foreign operand class (other models' ratings, None, number, str, object); __eq__ on the four orderings of (mu, sigma) and on foreign operands; "
        "ordinal's normal form equals mu - z*sigma with default 3. The operators touch ordinals only through comparisons, so this finite space is the whole input space.",
        "Trusted: osv/ai comparison semantics on assumed relations, polynomial normal form for the one-line ordinal formula. A hand-written __ne__ or total_ordering synthesis would be reported undecided.",
        "DESIGN.md §5 C18",
    ),
    "C20": (
        "abstract evaluation of rating/create_rating/constructor/deepcopy on option and shape domains with value-numbered arguments; read/write-set confinement",
        "other",
        "Defaulting uses the argument's own term unless it is None; create_rating transfers rating[0], rating[1], name on well-formed lists and rejects malformed ones with "
        "TypeError/ValueError; the constructor stores parameters unchanged and generates the id inside the body; deepcopy returns a new object of its own class with every "
        "attribute preserved; public operations read only mu and sigma of ratings. Bit-identity of rebuilt ratings is derived from the read sets, not measured.",
        "Trusted: osv/ai. Not decided: uniqueness of uuid4 values.",
        "DESIGN.md §5 C20",
    ),
    "C03": (
        "information-flow (taint) analysis with validated-type facts by abstract interpretation; declassification only at comparisons of two raw values",
        "other",
        "Raw rank/score elements reach only sort keys, comparisons with another raw value, a uniform negation and type tests that cannot tell int/float/bool apart; "
        "no raw value and no outcome of a type-separating test reaches a stored rating number; the sort key at position j is exactly ranks[j] / -scores[j]; "
        "default ranks are positions, unsorted. This non-interference premise makes the result a function of the weak order for every encoding; the numbers themselves are not decided.",
        "Trusted: osv/ai provenance propagation; the contract that sorting by a key depends on keys only through their order.",
        "DESIGN.md §5 C03",
    ),
})

CLAIMED.update({
    "C02": (
        "order-tag and alias analysis by abstract interpretation (sequences with index terms over input families, permutation symbols, inverse recognition)",
        "other",
        "On every argument class the returned value is Seq[k -> Seq[p -> the object passed at teams[k][p]]] with the input's symbolic lengths: every sort is undone with its own "
        "tenet, every rebuild is order preserving, no player is dropped/duplicated/moved; ids and names are written only by constructor/copy; the passed objects are the returned "
        "ones (or untouched); the limit_sigma cap pairs each player with its own pre-inflation value. Decides position correspondence for all rank vectors at once; numbers are not decided.",
        "Trusted: osv/ai Seq/index-term abstraction; list.sort/sorted as a stable permutation of positions; zip(*rows) transposition; deepcopy preserves positions. "
        "Assumes the passed rating objects are pairwise distinct.",
        "DESIGN.md §5 C02",
    ),
    "C04": (
        "order-tag analysis + fold recognition + index-use discipline (value numbering of loop positions) by abstract interpretation; "
        "abstract evaluation of the rank computation on the finite set of weak orderings of 2 and 3 values (R4.5)",
        "other",
        "Structural necessary conditions of equivariance: the update kernel receives the teams as the image of one stable ascending key-only sort by exactly the given values "
        "(input order when none), no reverse/key-less sort, team statistics are additive commutative folds over all members, loop positions never enter arithmetic, ordering "
        "comparisons or stored numbers outside five frozen exceptions; every kernel call receives the rank values when given; the rank numbers are order isomorphic to the values on "
        "every non-decreasing weak ordering of 2 and 3 values. Narrow claim: numerical equivariance itself is not decided.",
        "Trusted: osv/ai; lemma L-SORT (two stable sorts by the same keys are aligned). Frozen exceptions listed in osv/rules/c04.py with reasons.",
        "DESIGN.md §5 C04",
    ),
    "C10": (
        "value-numbered term inspection (symmetric-by-construction) + interval abstract interpretation",
        "other",
        "predict_draw's returned term is built only from len(teams), additive folds over all teams / all ordered pairs / all members, parameters and constants, hence a function of the "
        "multiset of teams; it is finite and >= 0 and every partial operation is inside its domain on the input box. Narrow claim: the upper bound 1 and the monotonicity clauses are not decided.",
        "Trusted: osv/ai value numbering and interval domain, NormalDist axioms (cdf in [0,1] monotone, inv_cdf defined on (0,1)).",
        "DESIGN.md §5 C10",
    ),
})

CLAIMED.update({
    "C16": (
        "units-of-measure (homogeneity degree) typing and location-weight (shift response) typing of every arithmetic node by abstract interpretation",
        "other",
        "Every arithmetic node reachable from rate/predict_* is typed with its degree in the skill unit; posteriors have degree 1, predictions degree 0, no node is ill-typed; in the two "
        "Thurstone-Mosteller models the kappa-derived margins handed to the correction functions are the only exempted values (the statement's exemption). By parametricity this is the scale clause "
        "for every game and factor. Shift clause: every node is typed with its response (additive weight, multiplicative exponent) to adding one constant to every mu with all team sizes equal; "
        "stored mu has weight exactly 1, stored sigma and every prediction weight 0, exp/Phi/sqrt/comparisons only see invariant arguments (softmax exponents cancel by value-numbered 1/c).",
        "Trusted: osv/ai degree and weight domains (DESIGN A.6, R16.3). Assumes the gamma callback is dimensionless and shift invariant. Rounding differences are not bounded.",
        "DESIGN.md §5 C16",
    ),
    "C09": (
        "role-swap symmetry on value-numbered terms (polynomial normal form with the CDF complement identity) + order-tag alignment + interval analysis; "
        "monotonicity typing of the returned terms in the mu of a member (R9.7)",
        "other",
        "The pair term for (a, b) plus the role-swapped term is identically 1 (antisymmetric margin, symmetric scale) in both the two-team and the n-team code path; the two-team form returns p and 1-p; "
        "entry k of the n-team result sums exactly the pair terms with teams[k] first; the scale is positive. Necessary structure of 'sums to 1 / permutes with the teams / one half for identical teams'; "
        "each returned term is typed non-decreasing in the mu of the own team's members and non-increasing in every other team's (CDF monotone by role, signs of mu-independent factors "
        "from the interval analysis); no test on the value equality of teams. Range for n > 2 is not decided.",
        "Trusted: osv/ai, osv/poly.py, phi_major in the CDF role, itertools.permutations order and the k-chunk idiom.",
        "DESIGN.md §5 C09",
    ),
    "C11": (
        "intra-class sibling agreement of value-numbered terms (predict_rank vs predict_draw) in polynomial normal form; "
        "abstract evaluation of the ranking code on every weak ordering of 2 and 3 (thorough: 4) probabilities (3-point order domain, R11.4)",
        "other",
        "predict_rank's CDF argument equals one of predict_draw's two arguments and the negation of the other (same margin and scale), predict_draw's divisor is exactly twice predict_rank's, and the result is one "
        "(int rank, probability) pair per team in input order: the structural content of 'rank probabilities + draw = 1'. The ranking clause (larger probability => better rank, equal => equal, "
        "best = 1, ranks in 1..n) is decided exhaustively for 2 and 3 teams (4 in the thorough tier); ranks are computed from the returned numbers; two-team probabilities lie in [0, 1].",
        "Trusted: osv/ai, osv/poly.py, pair-chunking axiom, _rank_data positional alignment.",
        "DESIGN.md §5 C11",
    ),
})

CLAIMED.update({
    "C07": (
        "role-swap symmetry on value-numbered kernel terms under assumed rank relations (3-point order domain) in polynomial normal form; "
        "abstract evaluation of the Plackett-Luce helpers on every weak ordering of 2 and 3 ranks (R7.7f); value-equality tag (R7.10)",
        "other",
        "For the four pairwise models the omega increment of team i against q divided by team i's variance is the negation of the mirrored, role-exchanged increment (symmetric scale, "
        "complementary score table/expectation, Gaussian correction at the mirrored argument); the callback never reaches omega; for Plackett-Luce the normaliser is filled over exactly the set "
        "it is applied to, with the same exponential and one tie divisor per normaliser, and _sum_q / _a agree with their definitions on every weak ordering of 2 and 3 ranks; teams are told apart "
        "by position, never by value equality. Necessary conditions of the zero-sum identity; the floating-point residual and the symmetry of "
        "_ladder_pairs' neighbour relation are not decided.",
        "Trusted: osv/ai, osv/poly.py; v/w/vt/wt/phi_major as uninterpreted functions. Accumulator roles are found by data flow.",
        "DESIGN.md §5 C07",
    ),
    "C08": (
        "interval abstract interpretation (absence of run-time errors) with bounded loop iteration over symbolic length ranges",
        "other",
        "At every partial-operation site reachable from rate/predict_* (division, sqrt, non-integer power, exp, inverse CDF, reduce/max of a sequence) the operand is proven inside the "
        "operation's domain on the declared input box, and every stored/returned number has finite bounds. Sound over the reals for the whole box; rounding is not modelled.",
        "Box: 2..8 teams, 1..16 players, |mu| <= 20 beta, sigma in [1e-4 beta, 10 beta] (0 only with tau > 0), tau <= 10 beta, kappa in (0, 1e-2], callback in [0, 1e6]; beta normalised to 1 by C16. "
        "Named lemmas (L-A reflexive tie count, L-SHARE member share <= 1, L-PL softmax <= 1) are discharged by structural rules and listed in the evidence.",
        "DESIGN.md §5 C08",
    ),
    "C17": (
        "numeric-stability lint by abstract interpretation of the resolved CDF call chain (followed into the stdlib source) + interval analysis of v, w, vt, wt",
        "other",
        "The CDF primitive reached from phi_major forms no value as constant +/- saturating-function whose interval reaches 0 (the cancelling asymptote that destroys lower-tail relative accuracy); "
        "v >= 0, every quotient is evaluated only where its guard's negation bounds the denominator away from 0, w uses v only on v's exact branch, all four functions are finite on the sweep box. "
        "Partial claim: the accuracy figures and w, wt in [0, 1] are not decided.",
        "Trusted: osv/ai interval domain and monotonicity axioms; role assumption that phi_major is the normal CDF.",
        "DESIGN.md §5 C17",
    ),
})

CLAIMED.update({
    "C06": (
        "shape of stored terms in polynomial normal form + interval abstract interpretation + order domain on the cap",
        "other",
        "The value stored before the update is sqrt(sigma^2 + tau^2) of the same player's prior and the resolved tau, by a full unconditional traversal preceding the update; the kernel stores that "
        "inflated value times F with the interval of F proven inside (0, 1] on the input box (kappa floor, delta >= 0); posterior sigma finite and > 0; with limit_sigma every player's final sigma is on each "
        "branch either its own prior or ordered below it. The history clause follows by induction.",
        "Lemmas: L-A, L-SHARE, L-PL discharged structurally; assumption A-W (w, wt in [0, 1]) for the Thurstone-Mosteller models with premise R17.1 checked. Rounding in the last ulp not decided.",
        "DESIGN.md §5 C06",
    ),
    "C05": (
        "polynomial normal form of the stored mu (member share) + interval runs under assumed rank relations (3-point order domain); "
        "rank computation evaluated on the finite set of weak orderings of 2 and 3 values (R5.3)",
        "other",
        "Partial claim: every member's mu step is (own tau-inflated variance) x (player-independent team-level quantity), so members move together in proportion to own variance; "
        "omega increments are >= 0 against worse-placed and <= 0 against better-placed teams (pairwise models), own-stage >= 0 / other-stage <= 0 (Plackett-Luce). "
        "The two-team ordering, draw, monotonicity and identical-team clauses are inequalities between different calls and are not decided.",
        "Same box and lemmas as C06; V >= 0 from C17 R17.2.",
        "DESIGN.md §5 C05",
    ),
})

GAME = ("abstract evaluation in the term domain on explicit small games (2-4 teams, every player and rank value its own abstract object, one assumed weak ordering of the ranks per run; "
        "polynomial normal form with denominators cleared)")

CLAIMED.update({
    "C01": (
        GAME + ": the terms rate() stores are compared with a transcription of the five Weng-Lin update rules and their documented extensions",
        "other",
        "Narrow claim. On explicit games of 2 and 3 (thorough: 4) teams with one or two players per team, for every weak ordering of the rank values and all five models, the mu and sigma that rate() stores "
        "for every player are, as functions of the inputs, the Weng-Lin closed forms with tau inflation, team sums, member share by own variance, kappa floor and gamma-scaled variance step: equality of polynomial "
        "normal forms with denominators cleared and the logistic identity; v, w, vt, wt uninterpreted. Nothing is executed; the 1e-9 numeric agreement is not decided.",
        "The oracle is a transcription of Weng & Lin (JMLR 2011) Algorithms 1-4 with the library's documented extensions, written out in osv/rules/c01.py and part of the trusted base (it is not contained in the property's sentence). "
        "Not decided: floating-point rounding, the asymptotic branches of the Gaussian corrections (C17), games with more than three (four) teams or more than two players per team, a user-supplied gamma, limit_sigma (C06).",
        "DESIGN.md §10.10 C01",
    ),
    "C12": (
        GAME + ": the term each prediction returns is compared with the closed form spelled out in the statement",
        "other",
        "Narrow claim. On explicit games of 2, 3 and 4 teams with one or two players per team, predict_win, predict_rank and predict_draw return, as functions of the inputs, exactly the closed forms "
        "written in the statement (which count multiplies beta^2, the normalisers n(n-1)/2, n(n-1) and 1, the draw margin sqrt(N) beta Phi^-1((1+1/N)/2) and its sign), for all five models: equality of "
        "polynomial normal forms with Phi(z) + Phi(-z) = 1 and each abs() read as either sign. Nothing is executed; the 1e-9 numeric agreement is not decided.",
        "Not decided: floating-point rounding and the accuracy of Phi / Phi^-1 (C17), games with more than four teams or more than two players per team, two-team predict_rank / predict_draw with "
        "several players per team (the statement does not fix the pairwise form there). A term built from functions the comparison does not know ends undecided, not violated.",
        "DESIGN.md §10.10 C12",
    ),
})

for _pid, _extra in {
    "C02": "; result positions on explicit small and larger games (R2.9); the limit_sigma cap by finite case analysis (R2.10)",
    "C03": "; explicit small games: omitted ranks == increasing ranks, scores == ranks (R3.5), closed form under every weak ordering (R3.6)",
    "C04": "; explicit small games: the stored terms are unchanged under exchanges of teams / players (R4.6)",
    "C05": "; explicit small games: members move in the ratio of their inflated variances (R5.4), closed form (R5.5)",
    "C06": "; explicit small games: the limit_sigma cap by finite case analysis (R6.6), stored sigma == closed form (R6.7)",
    "C07": "; explicit small games: the statement's sum is the zero rational function (R7.11)",
    "C08": "; explicit games: every operation returns normally (R8.3), results are the closed forms (R8.4, R8.5)",
    "C09": "; explicit small games: the returned terms sum to 1, permute with the teams, coincide for identical teams (R9.9)",
    "C10": "; explicit small games: the returned term is unchanged under exchanges of teams / players (R10.5), closed form (R10.6)",
    "C11": "; explicit small games: probabilities in input order, probabilities + predict_draw == 1 up to abs signs (R11.8), ranking clause on every weak ordering of the returned probabilities for any ranking code (R11.9)",
    "C13": "; explicit games: well-formed calls return normally (R13.5)",
    "C15": "; explicit small games: per-call option == model-level setting, float and int tau (R15.6)",
    "C19": "; explicit small games: Bradley-Terry part == full on two teams (R19.5), predictions agree across models (R19.6)",
}.items():
    _t = CLAIMED[_pid]
    CLAIMED[_pid] = (_t[0] + _extra, _t[1], _t[2], _t[3] + " Explicit-game rules: " + GAME + "; finite in the number of teams and players per team, exhaustive in the weak orderings of the ranks for 2-3 (thorough 4) teams. "
                     "A structural rule contradicted by the explicit-game rule of the same clause is reported undecided (exit 2), one that did not recognise the idiom is recorded as assumed (DESIGN 10.11).", _t[4])

for _pid, _extra in {
    "C14": "; sets modelled: iteration over a set of objects or strings is a hash-order finding",
    "C17": "; interval analysis on the whole float range for raising operations (R17.6)",
    "C20": "; memo protocol of __deepcopy__ evaluated with a pre-filled memo (R20.4)",
}.items():
    _t = CLAIMED[_pid]
    CLAIMED[_pid] = (_t[0] + _extra,) + _t[1:]

NOT_APPLICABLE = {
}

PENDING = "static check designed (DESIGN.md §5) but not built yet in this tree; not claimed until it exists"

ALL = [f"C{i:02d}" for i in range(1, 21)]


def build() -> dict:
    checks = []
    for pid in ALL:
        if pid not in CLAIMED:
            continue
        tech, cat, text, note, ref = CLAIMED[pid]
        checks.append(
            {
                "property_id": pid,
                "quick_cmd": f"{PY} -m osv check {pid} --tier quick",
                "thorough_cmd": f"{PY} -m osv check {pid} --tier thorough",
                "evidence_file": f"/verif/evidence/{pid}.json",
                "replay_cmd_template": f"{PY} -m osv replay {{path}}",
                "engine": "osv",
                "level_claimed": {"category": cat, "text": text, "design_ref": ref},
                "level_note": note,
                "technique": tech,
            }
        )
    na = []
    for pid in ALL:
        if pid in CLAIMED:
            continue
        na.append({"property_id": pid, "reason": NOT_APPLICABLE.get(pid, PENDING)})
    return {
        "version": 1,
        "setup_cmd": f"cd /verif && {PY} -m compileall -q osv && {PY} -m osv selfcheck",
        "hooks": {
            "guard": "OPENSKILL_VERIF",
            "enable": "none: static analysis reads /repo's source text; no hook or instrumentation exists, no code reads the guard",
            "baseline_off_cmd": "cd /repo && /venv/bin/python -m pytest -ra -q -p no:cacheprovider --timeout=900 --continue-on-collection-errors",
            "source_commits": [],
            "add_only": True,
        },
        "engines": [
            {
                "name": "osv",
                "path": "/verif/osv",
                "serves_properties": sorted(CLAIMED),
                "kind_free_text": "repository-specific static analyser on Python's ast: own resolver and call graph, "
                "canonical sibling comparison, effect analysis, abstract interpreter with pluggable domains; "
                "never imports or runs the analysed code",
            }
        ],
        "checks": checks,
        "notes": "Exit 0 held / 1 VIOLATION / 2 ANALYSIS-ERROR (undecided or broken analysis, never a silent pass). "
        "Known findings: /verif/known_findings.json.",
        "not_applicable": na,
    }


def main() -> None:
    m = build()
    with open(os.path.join(VERIF, "MANIFEST.json"), "w") as fh:
        json.dump(m, fh, indent=1)
        fh.write("\n")
    print(f"MANIFEST.json: {len(m['checks'])} checks, {len(m['not_applicable'])} not applicable")


if __name__ == "__main__":
    main()
