"""Canonical normal form of symbolic terms (DESIGN A.8): sum of monomials with rational coefficients.

Used only to compare two pieces of the program with each other (copy A vs copy B, term(i,q) vs
term(q,i)) and for the two one-line formulas that define an order/bound in a property statement.
No solving, no path conditions.
"""

from __future__ import annotations

from fractions import Fraction
from typing import Any, Dict, Optional, Tuple

Mono = Tuple[Tuple[Any, Fraction], ...]  # sorted ((atom, exponent), ...)
Poly = Dict[Mono, Fraction]


def _c(v) -> Fraction:
    if isinstance(v, bool):
        return Fraction(int(v))
    if isinstance(v, int):
        return Fraction(v)
    if isinstance(v, float):
        # a float that is, to within a few ulps, a ratio of small integers stands for that ratio: constants folded in floating
        # point by the analysed code (1 / 3, 0.1 + 0.2) and the same constants kept symbolic elsewhere get one normal form
        f = Fraction(v)
        if f.denominator > 10**6:
            g = f.limit_denominator(10**6)
            if g != 0 and abs(g - f) <= abs(f) * Fraction(1, 2**50):
                return g
        return f
    raise TypeError(v)


def p_const(v) -> Poly:
    f = v if isinstance(v, Fraction) else _c(v)
    return {(): f} if f != 0 else {}


def p_atom(a) -> Poly:
    return {((a, Fraction(1)),): Fraction(1)}


def p_add(a: Poly, b: Poly, sign: int = 1) -> Poly:
    out = dict(a)
    for m, c in b.items():
        n = out.get(m, Fraction(0)) + sign * c
        if n == 0:
            out.pop(m, None)
        else:
            out[m] = n
    return out


def _mono_mul(a: Mono, b: Mono) -> Mono:
    d: Dict[Any, Fraction] = {}
    for at, e in a + b:
        d[at] = d.get(at, Fraction(0)) + e
    return tuple(sorted(((at, e) for at, e in d.items() if e != 0), key=repr))


def _has_expandable(m: Mono) -> bool:
    for at, e in m:
        if isinstance(at, tuple) and at and at[0] == "sum" and e.denominator == 1 and e > 0:
            return True
    return False


def _expand_mono(m: Mono, c: Fraction) -> Poly:
    """A sum atom with a positive integer exponent is multiplied out: sqrt(S) * sqrt(S) is S, not an opaque atom."""
    rest = []
    factors = []
    for at, e in m:
        if isinstance(at, tuple) and at and at[0] == "sum" and e.denominator == 1 and e > 0:
            factors.append(({mm: cc for mm, cc in at[1]}, int(e)))
        else:
            rest.append((at, e))
    out: Poly = {tuple(rest): c}
    for sp, k in factors:
        for _ in range(k):
            out = p_mul(out, sp)
    return out


def p_mul(a: Poly, b: Poly) -> Poly:
    out: Poly = {}
    for m1, c1 in a.items():
        for m2, c2 in b.items():
            m = _mono_mul(m1, m2)
            if _has_expandable(m):
                for m3, c3 in _expand_mono(m, c1 * c2).items():
                    n = out.get(m3, Fraction(0)) + c3
                    if n == 0:
                        out.pop(m3, None)
                    else:
                        out[m3] = n
                continue
            n = out.get(m, Fraction(0)) + c1 * c2
            if n == 0:
                out.pop(m, None)
            else:
                out[m] = n
    return out


def p_neg(a: Poly) -> Poly:
    return {m: -c for m, c in a.items()}


def freeze(p: Poly):
    return tuple(sorted(((m, c) for m, c in p.items()), key=repr))


def p_pow(a: Poly, k: Fraction) -> Optional[Poly]:
    if k.denominator == 1 and 0 <= k <= 6:
        out = p_const(1)
        for _ in range(int(k)):
            out = p_mul(out, a)
        return out
    if len(a) == 1:
        (m, c), = a.items()
        if c > 0 or k.denominator == 1:
            try:
                if k.denominator == 1:
                    cc = c ** int(k)
                else:
                    return _atomize_pow(a, k)
            except ZeroDivisionError:
                return None
            m2 = tuple((at, e * k) for at, e in m)
            if _has_expandable(m2):
                return _expand_mono(m2, cc)
            return {m2: cc}
    return _atomize_pow(a, k)


def _atomize_pow(a: Poly, k: Fraction) -> Poly:
    """(sum)^k for a non-monomial base: pull out sign and leading coefficient, keep the sum as an atom."""
    if not a:
        return {}
    items = sorted(a.items(), key=repr)
    lead = items[0][1]
    norm = {m: c / lead for m, c in a.items()}
    atom = ("sum", freeze(norm))
    if k.denominator == 1:
        coef = lead ** int(k)
        return {((atom, k),): coef}
    if lead > 0 and k == Fraction(1, 2):
        # sqrt(lead * S) = sqrt(lead) * sqrt(S): keep lead inside unless it is a perfect square
        from math import isqrt

        n, d = lead.numerator, lead.denominator
        if isqrt(n) ** 2 == n and isqrt(d) ** 2 == d:
            return {((atom, k),): Fraction(isqrt(n), isqrt(d))}
    return {((("sum", freeze(a)), k),): Fraction(1)}


def to_poly(s, atom_map=None, _depth: int = 0) -> Optional[Poly]:
    """Normal form of a symbolic term; None when the term is unknown."""
    if s is None:
        return None
    k = s[0]
    if k == "const":
        v = s[1]
        if isinstance(v, (int, float, bool)):
            try:
                return p_const(v)
            except (ValueError, OverflowError):
                return p_atom(s)
        return p_atom(s)
    if k in ("add", "sub"):
        a, b = to_poly(s[1], atom_map, _depth), to_poly(s[2], atom_map, _depth)
        if a is None or b is None:
            return None
        return p_add(a, b, 1 if k == "add" else -1)
    if k == "mul":
        a, b = to_poly(s[1], atom_map, _depth), to_poly(s[2], atom_map, _depth)
        if a is None or b is None:
            return None
        return p_mul(a, b)
    if k == "neg":
        a = to_poly(s[1], atom_map, _depth)
        return None if a is None else p_neg(a)
    if k == "div":
        lg = _logistic_arg(s)
        if lg is not None:
            z = to_poly(("neg", lg), atom_map, _depth)
            return None if z is None else _complement_call("$logistic", z)
        a, b = to_poly(s[1], atom_map, _depth), to_poly(s[2], atom_map, _depth)
        if a is None or b is None or not b:
            return None
        if a and len(b) > 1 and set(a) == set(b):
            # proportional polynomials cancel: (c*S)/S = c
            ratios = {a[m] / b[m] for m in b}
            if len(ratios) == 1:
                return p_const(ratios.pop())
        inv = p_pow(b, Fraction(-1))
        return None if inv is None else p_mul(a, inv)
    if k == "pow":
        a, e = to_poly(s[1], atom_map, _depth), s[2]
        if a is None or e is None:
            return None
        if e[0] == "const" and isinstance(e[1], (int, float)) and not isinstance(e[1], bool):
            return p_pow(a, Fraction(e[1]).limit_denominator(1000))
        ep = to_poly(e, atom_map, _depth)
        return p_atom(("pow", freeze(a), freeze(ep) if ep is not None else None))
    if k == "call":
        name = s[1]
        args = [to_poly(x, atom_map, _depth) for x in s[2:]]
        if any(a is None for a in args):
            return None
        if name == "math.sqrt" and len(args) == 1:
            return p_pow(args[0], Fraction(1, 2))
        if name == "float" and len(args) == 1:
            return args[0]
        if name in COMPLEMENT_FUNCS and len(args) == 1:
            return _complement_call(name, args[0])
        if name in EVEN_FUNCS and len(args) == 1:
            return p_atom(("call", name, freeze(_abs_canon(args[0]))))
        if name in EVEN_IN_FIRST and len(args) == 2:
            return p_atom(("call", name, freeze(_abs_canon(args[0])), freeze(args[1])))
        if name in ODD_IN_FIRST and len(args) == 2:
            z = args[0]
            if not z:
                return {}
            canon = _abs_canon(z)
            at = p_atom(("call", name, freeze(canon), freeze(args[1])))
            return at if canon == z else p_neg(at)
        # odd/even structure of a few functions is used by the symmetry rules through recognised shapes only
        return p_atom(("call", name) + tuple(freeze(a) for a in args))
    if k == "fold":
        # ('fold', ('const','+'), ('const', var), elem, ('lenterm', term)): alpha-normalise the bound variable
        var = s[2][1]
        from .ai.values import subst_sym, ivar

        elem = subst_sym(s[3], {var: ivar(f"$fold{_depth}")})
        pe = to_poly(elem, atom_map, _depth + 1)
        lt = s[4]
        if atom_map is not None:
            lt = atom_map(lt)
        return p_atom(("fold", s[1][1], freeze(pe) if pe is not None else None, lt))
    if k == "abs":
        inner = to_poly(s[1], atom_map, _depth)
        if inner is None:
            return None
        if len(inner) == 1 and () in inner:
            return p_const(abs(inner[()]))
        return p_atom(("abs", freeze(_abs_canon(inner))))
    if k in ("max", "min", "cmp"):
        args = []
        for x in s[1:]:
            if isinstance(x, tuple) and x and x[0] not in ("lenterm",):
                px = to_poly(x, atom_map, _depth)
                args.append(freeze(px) if px is not None else x)
            else:
                args.append(x)
        if k in ("max", "min"):
            args = sorted(args, key=repr)
        return p_atom((k,) + tuple(args))
    # atoms: ('in', ...), ('rd', ...), ('param', ...), ('elem', ...), ('idx', ...), ('lenterm', ...), ...
    if atom_map is not None:
        s2 = atom_map(s)
        if s2 is not s and isinstance(s2, tuple) and s2 and s2[0] in ("add", "sub", "mul", "neg", "div", "const", "pow"):
            return to_poly(s2, None, _depth)  # an atom replaced by an expression (substitution of an assumed equation)
        s = s2
    if _has_star(s):
        # a term at an unknown position ('*'): two occurrences need not denote the same value, so each occurrence is
        # its own atom (never cancels, never proves two normal forms equal)
        _STAR_COUNTER[0] += 1
        return p_atom(("star-occurrence", _STAR_COUNTER[0], s))
    return p_atom(s)


_STAR_COUNTER = [0]


def _has_star(s, depth: int = 0) -> bool:
    if not isinstance(s, tuple) or depth > 60:
        return False
    if s == ("*",):
        return True
    if s and s[0] == "opq":
        return len(s) > 3 and isinstance(s[3], tuple) and "*" in s[3]
    if s and s[0] == "const":
        return False
    rest = s[1:] if s and isinstance(s[0], str) else s  # an untagged tuple (e.g. an index tuple) is searched entirely
    return any(_has_star(a, depth + 1) for a in rest if isinstance(a, tuple))


# functions with f(z) + f(-z) = 1, known by a recognised shape (logistic) or by role (the Gaussian CDF)
COMPLEMENT_FUNCS = {"$logistic", "NormalDist.cdf", "fn:phi_major"}


# even functions f(-z) = f(z) (the Gaussian density), by role
EVEN_FUNCS = {"NormalDist.pdf", "fn:phi_minor"}


# the draw corrections by role: W~(x, t) is even and V~(x, t) is odd in x (checked on the code, branch by branch, by C17 R17.5)
EVEN_IN_FIRST = {"fn:wt"}
ODD_IN_FIRST = {"fn:vt"}


def _abs_canon(z: Poly) -> Poly:
    """Representative of {z, -z}: leading coefficient positive."""
    if not z:
        return z
    lead = sorted(z.items(), key=repr)[0][1]
    return p_neg(z) if lead < 0 else z


def _logistic_arg(s):
    """1 / (1 + exp(Z))  ->  Z   (either operand order of the sum)."""
    if s[0] != "div" or s[1] != ("const", 1) and s[1] != ("const", 1.0):
        return None
    d = s[2]
    if d is None or d[0] != "add":
        return None
    for one, ex in ((d[1], d[2]), (d[2], d[1])):
        if one in (("const", 1), ("const", 1.0)) and ex is not None and ex[0] == "call" and ex[1] == "math.exp" and len(ex) == 3:
            return ex[2]
    return None


def _complement_call(name: str, z: Poly) -> Poly:
    """Canonical form of f(z) for f(z) + f(-z) = 1: the argument's leading coefficient is made positive."""
    if not z:
        return p_const(Fraction(1, 2))
    lead = sorted(z.items(), key=repr)[0][1]
    if lead < 0:
        pos = p_atom(("call", name, freeze(p_neg(z))))
        return p_add(p_const(1), pos, -1)
    return p_atom(("call", name, freeze(z)))


def p_equal(a: Optional[Poly], b: Optional[Poly]) -> bool:
    return a is not None and b is not None and a == b


def p_is_negation(a: Optional[Poly], b: Optional[Poly]) -> bool:
    return a is not None and b is not None and p_add(a, b) == {}


def show(p: Optional[Poly], limit: int = 300) -> str:
    if p is None:
        return "<unknown>"
    if not p:
        return "0"
    parts = []
    for m, c in sorted(p.items(), key=repr):
        ms = "*".join((_show_atom(at) + (f"^{e}" if e != 1 else "")) for at, e in m)
        parts.append(f"{c}" + (f"*{ms}" if ms else ""))
    s = " + ".join(parts)
    return s if len(s) <= limit else s[: limit - 3] + "..."


def _show_atom(a) -> str:
    if isinstance(a, tuple) and a:
        if a[0] == "in":
            return f"{a[1]}.{a[2]}"
        if a[0] == "param":
            return str(a[1])
        if a[0] == "sum":
            return "(" + show(dict(a[1]), 120) + ")"
        if a[0] == "call":
            return f"{a[1]}(" + ", ".join(show(dict(x), 80) for x in a[2:]) + ")"
        if a[0] == "lenterm":
            t = a[1]
            if t == ("len", "IN.teams", ()):
                return "len(teams)"
            if t and t[0] == "len" and t[1] == "IN.team":
                return f"len(teams[{t[2][0]}])"
            return f"len{t}"
        if a[0] == "fold":
            return f"fold{a[1]}[{a[3]}](" + (show(dict(a[2]), 100) if a[2] is not None else "?") + ")"
        if a[0] == "rd":
            return f"{a[1].split('@')[0]}{list(a[2])}.{a[3]}"
    return repr(a)
