"""Verdicts, findings, known findings, evidence and replay files, exit codes."""

from __future__ import annotations

import hashlib
import json
import os
import sys
import time
from dataclasses import dataclass, field
from typing import Any, Dict, List, Optional

VERIF_DIR = os.path.dirname(os.path.dirname(os.path.abspath(__file__)))
KNOWN_FINDINGS = os.path.join(VERIF_DIR, "known_findings.json")

HOLDS, VIOLATED, UNDECIDED, ASSUMED = "HOLDS", "VIOLATED", "UNDECIDED", "ASSUMED"


@dataclass
class Instance:
    """One evaluated rule instance."""

    rule: str
    verdict: str
    module: str = ""
    function: str = ""
    construct: str = ""  # normalised text of the construct (key component)
    line: int = 0
    message: str = ""
    detail: Dict[str, Any] = field(default_factory=dict)
    nontrivial: bool = True

    def key(self) -> Dict[str, str]:
        return {"module": self.module, "function": self.function, "construct": self.construct}

    def key_id(self, prop: str) -> str:
        s = json.dumps([prop, self.rule, self.module, self.function, self.construct], sort_keys=True)
        return hashlib.sha1(s.encode()).hexdigest()[:16]

    def as_sample(self) -> Dict[str, Any]:
        d = {
            "rule": self.rule,
            "verdict": self.verdict,
            "where": f"{self.module}::{self.function}:{self.line}" if self.module else "",
            "construct": self.construct,
        }
        if self.message:
            d["message"] = self.message
        if self.detail:
            d["detail"] = self.detail
        return d


class Report:
    """Collects rule instances for one property check and turns them into the interface."""

    def __init__(self, prop: str, tier: str, level: str):
        self.prop = prop
        self.tier = tier
        self.level = level
        self.instances: List[Instance] = []
        self.floors: Dict[str, int] = {}
        self.assumptions: List[str] = []
        self.trusted_base: List[str] = []
        self.not_decided: List[str] = []
        self.explanation: str = ""
        self.rule_text: str = ""
        self.extra: Dict[str, Any] = {}
        self.errors: List[str] = []
        self.t0 = time.time()
        self.functions_analysed: List[str] = []
        self.lemmas: Dict[str, str] = {}
        self.exhaustive: Optional[bool] = None

    # ------------------------------------------------------------ collecting
    def add(self, inst: Instance) -> Instance:
        self.instances.append(inst)
        return inst

    def holds(self, rule, **kw) -> Instance:
        return self.add(Instance(rule, HOLDS, **kw))

    def violated(self, rule, **kw) -> Instance:
        return self.add(Instance(rule, VIOLATED, **kw))

    def undecided(self, rule, **kw) -> Instance:
        return self.add(Instance(rule, UNDECIDED, **kw))

    def assumed(self, rule, **kw) -> Instance:
        return self.add(Instance(rule, ASSUMED, **kw))

    def floor(self, rule: str, n: int) -> None:
        self.floors[rule] = n

    def error(self, msg: str) -> None:
        self.errors.append(msg)

    def assume(self, text: str) -> None:
        if text not in self.assumptions:
            self.assumptions.append(text)

    def trust(self, text: str) -> None:
        if text not in self.trusted_base:
            self.trusted_base.append(text)

    def supersede(self, old_rules, new_rule: str, what: str) -> None:
        """(deferred to finish(): floors and instances are complete by then)"""
        self.__dict__.setdefault("_deferred", []).append(lambda: self._supersede(old_rules, new_rule, what))

    def arbitrate(self, old_rules, new_rule: str, what: str, pred=None, also=(), lenient=()) -> None:
        """(deferred to finish(); arbitration runs before supersession). `also`: further rules every instance of which must hold
        (the counterpart has to cover every input class the structural rule covers)."""
        def go():
            for r in also:
                rs = [i for i in self.instances if i.rule == r]
                if not rs or any(i.verdict != HOLDS for i in rs):
                    return 0
            n = self._arbitrate(old_rules, new_rule, what, pred)
            if lenient:
                n += self._arbitrate_unfinished(set(lenient) & set(old_rules), new_rule, what, pred)
            return n

        self.__dict__.setdefault("_deferred_first", []).append(go)

    def _supersede(self, old_rules, new_rule: str, what: str) -> int:
        """A structural rule that ended UNDECIDED (its idiom was not recognised) is covered by a semantic rule that decides the
        same clause on the explicit small games: when every instance of `new_rule` holds (and its floor is met), the undecided
        instances of `old_rules` are recorded as assumed, with the reason. A violated instance is never touched."""
        new = [i for i in self.instances if i.rule == new_rule]
        if not new or len(new) < max(self.floors.get(new_rule, 1), self.__dict__.get("counterpart_min", {}).get(new_rule, 1)) or any(i.verdict != HOLDS for i in new):
            return 0
        n = 0
        for i in self.instances:
            if i.rule in old_rules and i.verdict == UNDECIDED and not (i.detail or {}).get("contradicted_structural_finding"):
                i.verdict = ASSUMED
                i.message = (i.message + " -- " if i.message else "") + f"idiom not recognised; the clause ({what}) is decided on the explicit small games by {new_rule}, which holds on all {len(new)} instances"
                self.floors.pop(i.rule, None)
                n += 1
        # a structural rule that found fewer places to apply than on the pinned tree (the code is shaped differently) does not make
        # the run undecided when the explicit-game rule decides its clause
        for r in old_rules:
            if r in self.floors and sum(1 for i in self.instances if i.rule == r) < self.floors[r]:
                self.floors.pop(r, None)
                n += 1
        return n

    def _arbitrate_unfinished(self, old_rules, new_rule: str, what: str, pred=None) -> int:
        """For rules of the "bound not proven / idiom not recognised" kind only (interval rules, the normaliser idiom): when the
        explicit-game counterpart *did not finish within its time budget* and reports no violation on what it did evaluate, such a
        finding is recorded as undecided — the code is shaped in a way neither side handles; an alarm would rest on the interval
        domain's imprecision alone."""
        new = [i for i in self.instances if i.rule == new_rule]
        if not new or any(i.verdict == VIOLATED or "(violated there)" in (i.message or "") for i in new) or not any("time budget" in (i.message or "") for i in new):
            return 0
        n = 0
        for i in self.instances:
            if i.rule in old_rules and i.verdict == VIOLATED and (pred is None or pred(i)):
                i.verdict = UNDECIDED
                i.detail = dict(i.detail or {}, contradicted_structural_finding=True)
                i.message = f"[bound / idiom rule; its explicit-game counterpart {new_rule} ({what}) did not finish within its time budget and found no violation where it did: undecided] " + i.message
                n += 1
        return n

    def _arbitrate(self, old_rules, new_rule: str, what: str, pred=None) -> int:
        """A structural rule is a sufficient condition phrased on the shape of the code; the explicit-game rule `new_rule` decides
        the same clause on whole small games. When the structural rule reports a violation but *every* instance of `new_rule` holds
        (and its floor is met), the structural finding is contradicted on the games where the clause can be checked exactly: it is
        recorded as undecided (exit 2, no VIOLATION line) — the code shape is not one the structural rule understands, and beyond
        the small games nothing is known. A violation reported by `new_rule` itself, or by a rule without such a counterpart, stands."""
        new = [i for i in self.instances if i.rule == new_rule]
        if not new or len(new) < max(self.floors.get(new_rule, 1), self.__dict__.get("counterpart_min", {}).get(new_rule, 1)) or any(i.verdict != HOLDS for i in new):
            return 0
        n = 0
        for i in self.instances:
            if i.rule in old_rules and i.verdict == VIOLATED and (pred is None or pred(i)):
                i.verdict = UNDECIDED
                i.detail = dict(i.detail or {}, contradicted_structural_finding=True)
                i.message = (f"[structural finding contradicted on the explicit small games: the clause ({what}) is decided by {new_rule}, which holds on all {len(new)} instances; "
                             f"undecided beyond them] " + i.message)
                n += 1
        return n

    # ------------------------------------------------------------ finishing
    def _known(self) -> List[Dict[str, Any]]:
        if not os.path.exists(KNOWN_FINDINGS):
            return []
        with open(KNOWN_FINDINGS) as fh:
            return json.load(fh).get("findings", [])

    def finish(self, seed: int = 0, selftest: Optional[Dict[str, Any]] = None) -> int:
        for fn in self.__dict__.get("_deferred_first", []) + self.__dict__.get("_deferred", []):
            fn()
        self.__dict__["_deferred_first"], self.__dict__["_deferred"] = [], []
        known_open = [
            k for k in self._known() if k.get("status") == "open" and k.get("property") == self.prop
        ]

        def is_known(inst: Instance) -> Optional[Dict[str, Any]]:
            for k in known_open:
                if k.get("rule") == inst.rule and k.get("key") == inst.key():
                    return k
            return None

        rule_stats: Dict[str, Dict[str, int]] = {}
        new_violations: List[Instance] = []
        known_hits: List[tuple] = []
        undecided: List[Instance] = []
        for inst in self.instances:
            st = rule_stats.setdefault(
                inst.rule, {"matched": 0, "holds": 0, "violated": 0, "undecided": 0, "assumed": 0}
            )
            st["matched"] += 1
            st[inst.verdict.lower()] += 1
            if inst.verdict == VIOLATED:
                k = is_known(inst)
                if k is not None:
                    known_hits.append((inst, k))
                else:
                    new_violations.append(inst)
            elif inst.verdict == UNDECIDED:
                undecided.append(inst)
        for rule, n in self.floors.items():
            st = rule_stats.setdefault(
                rule, {"matched": 0, "holds": 0, "violated": 0, "undecided": 0, "assumed": 0}
            )
            st["floor"] = n
            if st["matched"] < n and not new_violations:
                # (with a violation reported the run does not pass anyway; instances of a violated class are deduplicated)
                self.errors.append(
                    f"instance floor: rule {rule} matched {st['matched']} instances, expected at least {n}"
                )

        # ---- output lines
        for inst, k in known_hits:
            print(
                f"KNOWN-FINDING: property={self.prop} {k.get('what', inst.message)} "
                f"[{inst.module}::{inst.function}: {inst.construct}]"
            )
        seen_keys = set()
        for inst in new_violations:
            kid = inst.key_id(self.prop)
            path = os.path.join(os.environ.get("VERIF_REPLAY_DIR", os.path.join(VERIF_DIR, "replay")), self.prop, kid + ".json")
            if kid not in seen_keys:
                seen_keys.add(kid)
                os.makedirs(os.path.dirname(path), exist_ok=True)
                with open(path, "w") as fh:
                    json.dump(
                        {
                            "property": self.prop,
                            "rule": inst.rule,
                            "key": inst.key(),
                            "line": inst.line,
                            "message": inst.message,
                            "detail": inst.detail,
                            "repo": os.environ.get("VERIF_REPO", "/repo"),
                        },
                        fh,
                        indent=1,
                        default=str,
                    )
                print(
                    f"  {inst.rule} VIOLATED at {inst.module}::{inst.function}:{inst.line}: "
                    f"{inst.construct} -- {inst.message}"
                )
                print(f"VIOLATION property={self.prop} replay={path}")
        for inst in undecided:
            print(
                f"ANALYSIS-ERROR property={self.prop} undecided {inst.rule} at "
                f"{inst.module}::{inst.function}:{inst.line}: {inst.construct} -- {inst.message}"
            )
        for e in self.errors:
            print(f"ANALYSIS-ERROR property={self.prop} {e}")

        if new_violations:
            code = 1
        elif undecided or self.errors:
            code = 2
        else:
            code = 0

        # ---- evidence
        decided = [i for i in self.instances if i.verdict in (HOLDS, VIOLATED, ASSUMED)]
        obligations = len(self.instances)
        discharged = sum(1 for i in self.instances if i.verdict in (HOLDS, ASSUMED))
        distinct = len(
            {(i.rule, i.module, i.function, i.construct, json.dumps(i.detail, sort_keys=True, default=str)) for i in decided if i.nontrivial}
        )
        samples: List[Dict[str, Any]] = []
        seen_rules: Dict[str, int] = {}
        for inst in new_violations + [h[0] for h in known_hits] + undecided + self.instances:
            c = seen_rules.get(inst.rule, 0)
            if c >= 3 and inst.verdict == HOLDS:
                continue
            seen_rules[inst.rule] = c + 1
            samples.append(inst.as_sample())
            if len(samples) >= 60:
                break
        coverage: Dict[str, Any] = {
            "evaluations": len(self.instances),
            "distinct_nontrivial": distinct,
            "rule": self.rule_text
            or "rule instances enumerated from the resolved program; an instance is non-trivial when the rule had a construct to decide",
            "samples": samples or [{"note": "no instances"}],
            "obligations": obligations,
            "discharged": discharged,
            "checker_cmd": f"/venv/bin/python -m osv check {self.prop} --tier {self.tier}",
            "trusted_base": self.trusted_base,
            "explanation": self.explanation or "see DESIGN.md",
            "rule_instances": rule_stats,
            "not_decided": self.not_decided,
            "functions_analysed": sorted(set(self.functions_analysed)),
            "lemmas": self.lemmas,
            "known_findings_hit": [h[1].get("what", "") for h in known_hits],
            "analysis_errors": self.errors[:20],
            "exit_code": code,
        }
        if self.exhaustive is not None:
            coverage["exhaustive"] = self.exhaustive
        if selftest is not None:
            coverage["selftest"] = selftest
        coverage.update(self.extra)
        ev = {
            "property_id": self.prop,
            "tier": self.tier,
            "seed": seed,
            "level": self.level,
            "coverage": coverage,
            "assumptions": self.assumptions,
            "wall_s": round(time.time() - self.t0, 3),
            "violations": len(new_violations),
        }
        evdir = os.environ.get("VERIF_EVIDENCE_DIR", os.path.join(VERIF_DIR, "evidence"))
        os.makedirs(evdir, exist_ok=True)
        with open(os.path.join(evdir, f"{self.prop}.json"), "w") as fh:
            json.dump(ev, fh, indent=1, default=str)
        verdict = {0: "HOLDS", 1: "VIOLATED", 2: "ANALYSIS-ERROR"}[code]
        print(
            f"[{self.prop}] {verdict}: {len(self.instances)} rule instances "
            f"({discharged} discharged, {len(new_violations)} new violations, {len(known_hits)} known, "
            f"{len(undecided)} undecided) in {ev['wall_s']}s"
        )
        for rule in sorted(rule_stats):
            st = rule_stats[rule]
            print(
                f"    {rule}: matched={st['matched']} holds={st['holds']} violated={st['violated']} "
                f"undecided={st['undecided']} assumed={st['assumed']}"
                + (f" floor={st['floor']}" if "floor" in st else "")
            )
        sys.stdout.flush()
        return code
