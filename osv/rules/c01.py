"""C01 (narrow) — on explicit small games rate() stores the Weng-Lin closed forms, as functions of the inputs.

Same machinery as C12 (osv/rules/game.py: explicit games in the term domain, one assumed weak ordering of the ranks per run,
nothing executed). The oracle here is *not* in the property's sentence: it is a transcription, into terms over the input atoms, of
the five update rules of Weng & Lin (JMLR 2011, Algorithms 1-4) with the extensions the sentence lists — prior variance inflated by
tau, team skill = sum of members, member share proportional to own variance, variance factor floored at kappa, variance step scaled by
the gamma callback (default sqrt(team variance) / c) — exactly as the library documents them (the factor 2 in the partial-pairing
Thurstone-Mosteller scale included). That transcription is part of the trusted base and is written out below, one function per model;
it was checked against the paper's algorithms and the docstrings of the five `_compute` methods when it was written.

With s2_ij = sigma_ij^2 + tau^2, S_i = sum_j s2_ij, M_i = sum_j mu_ij, the rank relation from the assumed ordering:

  pairwise models   c_iq = sqrt(S_i + S_q + 2 beta^2)   (Thurstone-Mosteller partial pairing: twice that), gamma_i = sqrt(S_i) / c_iq
    Bradley-Terry     p = 1 / (1 + exp((M_q - M_i) / c_iq)),  s = 1 / 0.5 / 0 for q placed worse / level / better
                      Omega_i = sum_q (S_i / c_iq) (s - p),          Delta_i = sum_q gamma_i (S_i / c_iq^2) p (1 - p)
    Thurstone-M.      x = (M_i - M_q) / c_iq, t = kappa / c_iq
                      Omega_i = sum_q (S_i / c_iq) {v(x,t) | -v(-x,t) | vt(x,t)},  Delta_i = sum_q gamma_i (S_i / c_iq^2) {w(x,t) | w(-x,t) | wt(x,t)}
    full pairing: q over all other teams; partial pairing: q over the neighbours in the rank-sorted order (ties keep input order)
  Plackett-Luce     c = sqrt(sum_k (S_k + beta^2)), C_q = teams placed level with or below q, A_q = teams level with q, p_iq = exp(M_i/c) / sum_{s in C_q} exp(M_s/c)
                      Omega_i = (S_i / c) sum_{q placed level with or above i} ([i = q] - p_iq) / A_q,   Delta_i = gamma (S_i / c^2) sum_q p_iq (1 - p_iq) / A_q
  every player      mu' = mu + (s2 / S_i) Omega_i,   sigma' = sqrt(s2) sqrt(max(1 - (s2 / S_i) Delta_i, kappa))

Decided: on games of 2 and 3 (thorough: 4) teams with one or two players per team and every weak ordering of the ranks, the terms rate()
stores are these (normal form, denominators cleared, logistic identity). Not decided: the 1e-9 numeric agreement (rounding; the
asymptotic branches of v, w, vt, wt — those are C17), larger games, a user-supplied gamma (C07 R7.5 / C16 cover its placement), limit_sigma
(C06).
"""

from __future__ import annotations

from fractions import Fraction
from typing import Any, Dict, List, Optional, Tuple

from ..frontend import Program
from ..poly import p_add, show, to_poly
from ..report import Instance, Report
from . import game
from .harness import parallel_map

KNOWN_CALLS = {"fn:v", "fn:w", "fn:vt", "fn:wt", "math.exp", "math.sqrt", "$logistic"}


def _calls_in(p, out: set) -> None:
    def walk(x):
        if isinstance(x, tuple):
            if len(x) >= 2 and x[0] == "call" and isinstance(x[1], str):
                out.add(x[1])
            for y in x:
                walk(y)

    for mono in p:
        walk(mono)


BETA = ("param", "model.beta")
KAPPA = ("param", "model.kappa")
TAU = ("param", "g.tau")
ONE = ("const", 1)


def add(*xs):
    out = xs[0]
    for x in xs[1:]:
        out = ("add", out, x)
    return out


def mul(*xs):
    out = xs[0]
    for x in xs[1:]:
        out = ("mul", out, x)
    return out


def sub(a, b):
    return ("sub", a, b)


def div(a, b):
    return ("div", a, b)


def sq(a):
    return ("pow", a, ("const", 2))


def sqrt(a):
    return ("call", "math.sqrt", a)


def exp(a):
    return ("call", "math.exp", a)


def fn(name, *args):
    return ("call", "fn:" + name) + tuple(args)


def s2(i, j):
    return add(sq(game.sg_atom(i, j)), sq(TAU))


def S(i, sizes):
    return add(*[s2(i, j) for j in range(sizes[i])])


def M(i, sizes):
    return add(*[game.mu_atom(i, j) for j in range(sizes[i])])


def _pair_terms(kind: str, i: int, q: int, sizes, levels, scale2: bool):
    """(omega increment, delta increment) of team i against team q."""
    c = sqrt(add(S(i, sizes), S(q, sizes), mul(("const", 2), sq(BETA))))
    if scale2:
        c = mul(("const", 2), c)
    gamma = div(sqrt(S(i, sizes)), c)
    s_over_c = div(S(i, sizes), c)
    rel = "worse" if levels[q] > levels[i] else "better" if levels[q] < levels[i] else "level"
    if kind == "bt":
        p = div(ONE, add(ONE, exp(div(sub(M(q, sizes), M(i, sizes)), c))))
        s = {"worse": ("const", 1), "level": ("const", 0.5), "better": ("const", 0)}[rel]
        return mul(s_over_c, sub(s, p)), mul(div(mul(gamma, s_over_c), c), p, sub(ONE, p))
    x = div(sub(M(i, sizes), M(q, sizes)), c)
    t = div(KAPPA, c)
    if rel == "worse":
        om, de = mul(s_over_c, fn("v", x, t)), fn("w", x, t)
    elif rel == "better":
        om, de = mul(("neg", s_over_c), fn("v", ("neg", x), t)), fn("w", ("neg", x), t)
    else:
        om, de = mul(s_over_c, fn("vt", x, t)), fn("wt", x, t)
    return om, mul(div(mul(gamma, s_over_c), c), de)


def expected(model: str, sizes, levels) -> Optional[Dict[Tuple[int, int], Tuple[Any, Any]]]:
    n = len(sizes)
    omega: Dict[int, Any] = {}
    delta: Dict[int, Any] = {}
    if model in ("BradleyTerryFull", "BradleyTerryPart", "ThurstoneMostellerFull", "ThurstoneMostellerPart"):
        kind = "bt" if model.startswith("Bradley") else "tm"
        partial = model.endswith("Part")
        order = sorted(range(n), key=lambda i: levels[i])  # stable: tied teams keep their input order
        pos = {t: k for k, t in enumerate(order)}
        for i in range(n):
            if partial:
                others = [order[k] for k in (pos[i] - 1, pos[i] + 1) if 0 <= k < n]
            else:
                # the code visits the other teams in rank-sorted order; addition order does not matter to the normal form
                others = [q for q in order if q != i]
            om, de = ("const", 0), ("const", 0)
            for q in others:
                a, b = _pair_terms(kind, i, q, sizes, levels, scale2=(model == "ThurstoneMostellerPart"))
                om, de = add(om, a), add(de, b)
            omega[i], delta[i] = om, de
    elif model == "PlackettLuce":
        c = sqrt(add(*[add(S(k, sizes), sq(BETA)) for k in range(n)]))
        e = {k: exp(div(M(k, sizes), c)) for k in range(n)}
        sum_q = {q: add(*[e[s] for s in range(n) if levels[s] >= levels[q]]) for q in range(n)}
        a = {q: ("const", sum(1 for s in range(n) if levels[s] == levels[q])) for q in range(n)}
        for i in range(n):
            om, de = ("const", 0), ("const", 0)
            for q in range(n):
                if levels[q] <= levels[i]:
                    p = div(e[i], sum_q[q])
                    de = add(de, div(mul(p, sub(ONE, p)), a[q]))
                    om = add(om, div(sub(ONE, p), a[q])) if q == i else sub(om, div(p, a[q]))
            gamma = div(sqrt(S(i, sizes)), c)
            omega[i] = mul(om, div(S(i, sizes), c))
            delta[i] = mul(de, div(S(i, sizes), sq(c)), gamma)
    else:
        return None
    out = {}
    for i in range(n):
        for j in range(sizes[i]):
            share = div(s2(i, j), S(i, sizes))
            mu = add(game.mu_atom(i, j), mul(share, omega[i]))
            sg = mul(sqrt(s2(i, j)), sqrt(("max", sub(ONE, mul(share, delta[i])), KAPPA)))
            out[(i, j)] = (mu, sg)
    return out


def _job(job) -> List[Dict[str, Any]]:
    idx, tier = job
    prog = Program()
    roles = prog.roles()[idx]
    out: List[Dict[str, Any]] = []
    games = [(sizes, lv) for sizes in game._sizes(tier) for lv in game.weak_orderings(len(sizes))] + list(game.LARGE_GAMES)
    n_viol = 0
    for sizes, lv in games:
        if n_viol >= 3:
            break  # three games on which the stored terms are not the closed form are reported; the remaining games would add nothing
        if True:
            c = f"rate stores the closed-form posterior: team sizes {sizes}, {game.describe(lv)}"
            want = expected(roles.short, sizes, lv)
            if want is None:
                out.append(game._inst("R1.1", "UNDECIDED", roles, "rate", c, f"no closed form is transcribed for a model named {roles.short}"))
                continue
            def leaves(rels, depth):
                """finite case analysis on comparisons between two input-dependent terms that a run leaves open (special-case paths for
                'identical' team mates and the like): the three relations are assumed in turn, at most `depth` comparisons deep"""
                run_ = game.run_rate_seeded(prog, roles, sizes, lv, rels, limit_sigma=False)
                opens = [p_ for p_ in game.open_compares(run_) if not any({p_[0], p_[1]} == {r_[0], r_[1]} for r_ in rels)]
                if not opens or depth == 0:
                    return [(rels, run_)]
                a_, b_ = opens[0]
                res_ = []
                for rel_ in ("LT", "EQ", "GT"):
                    res_.extend(leaves(tuple(rels) + ((a_, b_, rel_),), depth - 1))
                return res_

            try:
                lf = leaves((), 2)
            except Exception as e:  # noqa: BLE001
                out.append(game._inst("R1.1", "UNDECIDED", roles, "rate", c, f"abstract evaluation failed: {type(e).__name__}: {e}"))
                continue
            verdict, msg = "HOLDS", ""
            for rels, run in lf:
                case = ("" if not rels else " [case " + ", ".join(f"{show(to_poly(a), 40)} {dict(LT='<', EQ='==', GT='>')[r]} {show(to_poly(b), 40)}" for a, b, r in rels) + "]")
                bad = run.ok()
                if bad:
                    if verdict == "HOLDS":
                        verdict, msg = "UNDECIDED", bad + case
                    continue
                amap, unsolved = game.equation_substitution(rels)
                for who, (wmu, wsg) in want.items():
                    for name, wt_ in (("mu", wmu), ("sigma", wsg)):
                        gv = run.field(who, name)
                        got = to_poly(gv.sym, amap) if getattr(gv, "sym", None) is not None else game.poly_of(gv)
                        wp = to_poly(wt_, amap)
                        if got is None or wp is None:
                            if verdict == "HOLDS":
                                verdict, msg = "UNDECIDED", f"the {name} stored for player {who[1]} of team {who[0]} has no term" + case
                            continue
                        s = game.same(got, wp)
                        if s is True:
                            continue
                        if s is None or unsolved:
                            if verdict == "HOLDS":
                                verdict, msg = "UNDECIDED", f"the {name} of player {who[1]} of team {who[0]} could not be compared with the closed form" + case
                            continue
                        calls: set = set()
                        _calls_in(got, calls)
                        foreign = sorted(x for x in calls if x not in KNOWN_CALLS)
                        wcalls: set = set()
                        _calls_in(wp, wcalls)
                        missing = sorted(x for x in wcalls - calls if x in ("fn:v", "fn:w", "fn:vt", "fn:wt"))
                        if missing and not foreign:
                            # the code computes a Gaussian correction in line (its own branches) where the transcription has the
                            # uninterpreted function: not comparable
                            foreign = [f"in-line form of {m_}" for m_ in missing]
                        if foreign:
                            if verdict == "HOLDS":
                                verdict, msg = "UNDECIDED", (f"the code's term for the {name} of player {who[1]} of team {who[0]} is built from functions the comparison does not know ({foreign}): "
                                                             "not comparable with the transcribed closed form" + case)
                            continue
                        verdict = "VIOLATED"
                        msg = f"the posterior {name} of player {who[1]} of team {who[0]} is not the closed form{case}; code minus closed form = {show(p_add(got, wp, -1), 260)}"
                        break
                    if verdict == "VIOLATED":
                        break
                if verdict == "VIOLATED":
                    break
            out.append(game._inst("R1.1", verdict, roles, "rate", c, msg))
            n_viol += verdict == "VIOLATED"
    return out


def closed_form_job(job) -> List[Dict[str, Any]]:
    """The same comparison under another rule id (used by other checks as the exact small-game counterpart of a structural rule)."""
    idx, tier, rule = job
    out = game.budgeted(_job, (idx, tier), Program().digest())
    return [dict(d, rule=rule) for d in out]


def run(prog: Program, rep: Report, tier: str = "quick") -> None:
    roles = prog.roles()
    rep.explanation = (
        "Narrow claim. rate() is evaluated abstractly, in the term domain, on explicit games of 2 and 3 (thorough: 4) teams with one or two players per team, once per weak ordering of the rank values "
        "(every player its own atoms, tau per call, limit_sigma off, default gamma; nothing is executed). The terms stored into every player's mu and sigma are compared, in polynomial normal form with "
        "denominators cleared and the logistic identity, with a transcription of the Weng-Lin update of that model and its documented extensions (tau inflation, team sums, member share by own variance, "
        "kappa floor, gamma-scaled variance step) written out in osv/rules/c01.py. Decides which function of the inputs rate computes on these games; the transcription is trusted, the 1e-9 numeric agreement is not decided."
    )
    rep.rule_text = "per model x explicit game x weak ordering of the ranks: normal form of every stored mu and sigma == normal form of the transcribed closed form"
    rep.trust("the transcription of Weng & Lin's Algorithms 1-4 with the library's documented extensions in osv/rules/c01.py (one function per model family)")
    rep.trust("abstract interpreter osv/ai in explicit mode (osv/rules/game.py); osv/poly.py normal form; v, w, vt, wt as uninterpreted functions")
    rep.not_decided = ["agreement to 1e-9 relative with a numeric evaluation (rounding; the asymptotic branches of the Gaussian corrections: C17)", "games of more than three (thorough: four) teams or more than two players per team",
                       "a user-supplied gamma callback (its placement: C07 R7.5, C16)", "limit_sigma (C06 R6.5)"]
    for lst in parallel_map(closed_form_job, [(i, tier, "R1.1") for i in range(len(roles))]):
        for d in lst:
            rep.add(Instance(d["rule"], d["verdict"], d["module"], d["function"], d["construct"], d["line"], d.get("message", ""), d.get("detail", {})))
    rep.floor("R1.1", 28 * len(roles))
