"""C02 — rate() result corresponds to its input position by position and player by player.

Decided with the order-tag/alias abstraction of the interpreter: lists are sequences whose element at
position k is described by index terms over the input families (IN.team[k], IN.player[k, p]); a sort
introduces a permutation symbol, sorting by a known permutation's values introduces its inverse.
R2.1/2.2/2.3 the returned nest is Seq[k -> Seq[p -> the player passed at teams[k][p]]] with the input's
lengths; R2.4 ids/names are never written; R2.5 all-or-nothing on the passed objects; R2.7 the prior used by the clamp is the same player's pre-inflation value.
"""

from __future__ import annotations

from typing import Any, Dict, List, Optional

from ..ai.state import InstObj, ListObj
from ..ai.values import Bool, Num, Ptr, Seq, Union, Val, ivar, short
from ..frontend import Program, norm_text
from ..report import Instance, Report
from .harness import parallel_map, run_op, valeq_instances, where

IRREGULAR = {"cond-append", "multi-append", "reordered", "reversed", "insert", "pop", "remove", "tail-append", "weak-append", "break", "building", "unmodelled", "partial", "index-assigned"}


def analyse_result(oc, roles) -> Dict[str, Any]:
    """Describe the returned nest: style ('in-place' | 'copy' | None), problems found."""
    I, st = oc.I, oc.world.state
    res = oc.result
    problems: List[str] = []
    undecided: List[str] = []
    styles = set()
    for p in res.opts if isinstance(res, Union) else (res,):
        if not isinstance(p, Ptr) or not isinstance(st.heap.get(p.loc).obj if p.loc in st.heap else None, ListObj):
            problems.append(f"rate returns {short(p)}, not a list")
            continue
        outer = I.list_seq(st, p)
        if outer.length.term != ("len", "IN.teams", ()):
            problems.append(f"the result does not have exactly as many teams as the input (length {outer.length.term} in [{outer.length.lo},{outer.length.hi}])")
        bad = outer.flags & IRREGULAR
        if bad:
            problems.append(f"the outer result list is not an order-preserving image of the input teams ({sorted(bad)})")
        e = outer.elem
        if not isinstance(e, Ptr):
            problems.append(f"result[k] is {short(e)}, not a list of ratings")
            continue
        inner = I.list_seq(st, e)
        if inner is None:
            problems.append(f"result[k] is {short(e)}, not a list")
            continue
        K, P = ivar(outer.kvar), ivar(inner.kvar)
        pe0 = inner.elem
        misplaced = isinstance(pe0, Ptr) and pe0.loc == "IN.player" and pe0.idx != (K, P)
        if inner.length.term != ("len", "IN.team", (K,)) and not misplaced:
            problems.append(f"result[k] does not have exactly as many players as teams[k] (length term {inner.length.term})")
        badi = inner.flags & IRREGULAR
        if badi:
            problems.append(f"result[k] is not an order-preserving image of teams[k] ({sorted(badi)})")
        pe = inner.elem
        if not isinstance(pe, Ptr):
            problems.append(f"result[k][p] is {short(pe)}")
            continue
        if pe.loc == "IN.player":
            styles.add("in-place")
            if pe.idx != (K, P):
                from ..ai.values import index_str

                problems.append(f"result[k][p] is the player passed at teams[{index_str(pe.idx[0])}][{index_str(pe.idx[1])}] instead of teams[k][p] "
                                "(teams or players are permuted/moved; a sort is not undone with its own tenet)")
        else:
            c = st.heap.get(pe.loc)
            if c is not None and isinstance(c.obj, InstObj) and c.obj.cls is roles.rating and pe.loc in oc.copy_families:
                styles.add("copy")
                if pe.idx != (K, P):
                    problems.append("result[k][p] is a copy of another position's player")
            else:
                undecided.append(f"result[k][p] is {short(pe)}: neither the passed object nor a deep copy of it made from the input order (style not modelled)")
    return {"styles": styles, "problems": problems, "undecided": undecided}


def _copy_families(oc) -> Dict[str, int]:
    """Rating families created by copy.deepcopy(teams) while teams was in input order: loc -> event index."""
    out = {}
    I, st = oc.I, oc.world.state
    evs = I.events
    for i, ev in enumerate(evs):
        if ev.kind == "deepcopy":
            src = ev.data["src"]
            if isinstance(src, Ptr) and src.loc == "IN.teams":
                # find the matching return value: the next 'ext-call'-level result is not recorded; locate rating cells allocated in __deepcopy__
                for loc, c in st.heap.items():
                    if isinstance(c.obj, InstObj) and c.origin.endswith("__deepcopy__") and len(c.params) == 2:
                        out[loc] = i
    return out


def _job(job) -> List[Dict[str, Any]]:
    idx, sel, ls = job
    prog = Program()
    roles = prog.roles()[idx]
    mod = roles.model.module.name
    entry = f"{roles.model.name}.rate"
    rate = roles.model.lookup("rate")
    line = rate.node.lineno
    kw = {"tau": "any", "limit_sigma": ls}
    if ls == "model-truthy":
        # the cap is switched on at the model level and the call leaves the argument at None
        from ..ai.values import Bool

        kw["limit_sigma"] = "None"
        kw["model_overrides"] = {"limit_sigma": Bool(True, frozenset({"CTOR:limit_sigma"}), ("param", "model.limit_sigma"))}
    if sel:
        kw[sel] = "list-of-mixed-int-float-bool"
    case = f"{sel or 'no ranks'}, limit_sigma={ls}"
    out: List[Dict[str, Any]] = []

    def inst(rule, verdict, construct, message="", detail=None, m=mod, fn=entry, ln=line):
        out.append(dict(rule=rule, verdict=verdict, module=m, function=fn, construct=construct, line=ln, message=message, detail=dict(detail or {}, case=case)))

    try:
        oc = run_op(prog, roles, "rate", **kw)
    except Exception as e:
        inst("R2.1", "UNDECIDED", case, f"abstract evaluation failed: {type(e).__name__}: {e}")
        return out
    if oc.undecided or not oc.returned:
        inst("R2.1", "UNDECIDED", case, "; ".join(oc.undecided[:3]) or "rate does not return")
        return out
    I = oc.I
    oc.copy_families = _copy_families(oc)
    # ---------------------------------------------------------------- R2.1-2.3 structure of the result
    a = analyse_result(oc, roles)
    # name the order-breaking constructs met on the way, for the diagnosis
    breakers = [f"{where(ev)[1]}:{where(ev)[2]} {ev.data.get('how', '')}" for ev in I.events if ev.kind == "reorder"]
    sorts = [ev for ev in I.events if ev.kind == "sort"]
    if a["problems"]:
        for p in a["problems"]:
            inst("R2.1", "VIOLATED", f"result alignment ({case})", p + (f"; order-breaking constructs: {breakers}" if breakers else ""),
                 {"sorts": [(ev.data["pid"], where(ev)[1], str(ev.data["info"]["inverse_of"])) for ev in sorts]})
    elif a["undecided"]:
        inst("R2.1", "UNDECIDED", f"result alignment ({case})", "; ".join(a["undecided"]))
    else:
        inst("R2.1", "HOLDS", f"result[k][p] is the posterior of the player passed at teams[k][p] ({case})", "",
             {"style": sorted(a["styles"]), "sorts": [(ev.data["pid"], where(ev)[1], str(ev.data["info"]["inverse_of"])) for ev in sorts]})
    # ---------------------------------------------------------------- R2.8 players and teams are positions, not values
    ve = valeq_instances(oc, "R2.8", "so the posterior of one player/team can be handed to another one with equal ratings", kinds=("valeq-lookup",))
    for d in ve:
        d["detail"] = dict(d["detail"], case=case)
    out.extend(ve)
    if not ve:
        inst("R2.8", "HOLDS", f"no position is looked up by the value equality of ratings or teams ({case})")
    # ---------------------------------------------------------------- R2.4 ids and names
    wrote_id = False
    for ev in I.events:
        if ev.kind == "write" and ev.data["field"] in ("id", "name") and ev.data.get("cls") is roles.rating:
            m, fn, ln = where(ev)
            if fn in {f"{c.name}.{meth}" for c in roles.rating.mro for meth in ("__init__", "__deepcopy__")}:  # constructor / copy, possibly inherited
                continue
            wrote_id = True
            inst("R2.4", "VIOLATED", norm_text(ev.node, 100), f"rate overwrites the {ev.data['field']} of a rating object", {}, m, fn, ln)
    if not wrote_id:
        inst("R2.4", "HOLDS", f"ids and names are written only by the Rating constructor/copy ({case})")
    # ---------------------------------------------------------------- R2.5 all-or-nothing on the passed objects
    writes = [ev for ev in I.events if ev.kind == "write" and ev.data["origin"] == "input:player"]
    if "copy" in a["styles"] and writes:
        ev = writes[0]
        m, fn, ln = where(ev)
        inst("R2.5", "VIOLATED", norm_text(ev.node, 100), "the passed rating objects are modified while fresh copies are returned: afterwards the passed objects are neither untouched nor equal to the returned ratings", {}, m, fn, ln)
    elif "in-place" in a["styles"] and not a["problems"]:
        # every passed object is the returned object of its position, so it trivially equals it; partial (weak) stores cannot create a mixture
        inst("R2.5", "HOLDS", f"the passed objects are the returned objects ({case})", "", {"stores_to_passed_ratings": len(writes)})
    elif not a["problems"] and not a["undecided"]:
        inst("R2.5", "HOLDS", f"the passed objects are untouched ({case})")
    # ---------------------------------------------------------------- R2.7 the clamp pairs each player with its own prior
    if ls in ("truthy", "any", "model-truthy"):
        clamp = [ev for ev in writes if ev.data["field"] == "sigma" and any(t.endswith(":limit_sigma") for t in getattr(ev.data.get("val"), "prov", frozenset()))]
        if ls in ("truthy", "model-truthy") and not clamp:
            inst("R2.7", "VIOLATED", "limit_sigma cap", "with limit_sigma in force no store caps a returned sigma")
        for ev in clamp:
            tgt = ev.data["ptr"]
            v = ev.data["val"]
            m, fn, ln = where(ev)
            prior = ("in", "IN.player", "sigma", tgt.idx)
            ok = isinstance(v, Num) and v.sym is not None and (v.sym == prior or (v.sym[0] == "rd" and v.sym[1] == "IN.player" and v.sym[2] == tgt.idx and v.sym[3] == "sigma"))
            inst("R2.7", "HOLDS" if ok else "VIOLATED", f"clamp: {norm_text(ev.node, 90)}",
                 "" if ok else f"the value the cap stores for the player at teams[k][p] is not that same player's own prior (pre-inflation) sigma nor its own current sigma (term {getattr(v, 'sym', None)})",
                 {}, m, fn, ln)
    return out


def run(prog: Program, rep: Report, tier: str = "quick") -> None:
    roles = prog.roles()
    rep.explanation = (
        "Order-tag and alias analysis by abstract interpretation: the returned value is evaluated as a nest of sequences whose element at "
        "position (k, p) is described by index terms over the input families. On every argument class (ranks / scores / none x limit_sigma) "
        "it must be Seq[k -> Seq[p -> the object passed at teams[k][p]]] with the input's symbolic lengths; every sort introduces a permutation "
        "that must be cancelled by sorting with its own tenet (recognised because the key at position j is sigma(j)); conditional/multiple "
        "appends, insert/pop/reversed and mismatched zips break the order tag. Ids/names are only written by constructor and copy; the passed "
        "objects are the returned ones (in-place) or untouched (copy style); the cap uses the same player's pre-inflation value."
    )
    rep.rule_text = "per model: 3 selector classes x 2 limit_sigma classes; one instance per class and rule, per sort, per clamp store"
    rep.trust("abstract interpreter osv/ai: Seq/index-term abstraction, list.sort/sorted as a stable permutation of positions, zip(*rows) transposition, deepcopy preserves positions")
    rep.assume("the rating objects passed in are pairwise distinct objects")
    rep.not_decided = ["the numeric content of the posteriors (C01)"]
    jobs = [(i, sel, ls) for i in range(len(roles)) for sel in ("ranks", "scores", None) for ls in ("truthy", "falsy")]
    jobs += [(i, "ranks", "model-truthy") for i in range(len(roles))]
    seen = set()
    for lst in parallel_map(_job, jobs):
        for d in lst:
            key = (d["rule"], d["verdict"], d["module"], d["function"], d["construct"], d.get("model", ""))
            if key in seen:
                continue
            seen.add(key)
            rep.add(Instance(d["rule"], d["verdict"], d["module"], d["function"], d["construct"], d["line"], d.get("message", ""), d.get("detail", {})))
    n = len(roles)
    from . import game

    game.add_instances(rep, game.c02_job, [(i, tier) for i in range(n)], "R2.9", 100 * n)
    game.add_instances(rep, game.cap_job, [(i, tier, "R2.10") for i in range(n)], "R2.10", 5 * n)
    rep.arbitrate({"R2.1"}, "R2.9", "every sort is undone: result positions")
    rep.arbitrate({"R2.7"}, "R2.10", "the cap pairs every player with its own prior")
    rep.supersede({"R2.1", "R2.5"}, "R2.9", "every sort is undone: result positions; the returned ratings are the passed objects")
    rep.supersede({"R2.7"}, "R2.10", "the cap pairs every player with its own prior")
    rep.floor("R2.1", 6 * n)
    rep.floor("R2.4", 6 * n)
    rep.floor("R2.5", 6 * n)
    rep.floor("R2.7", n)
