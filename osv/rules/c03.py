"""C03 — outcomes are ordinal: only the order and equality of ranks/scores matter.

R3.1 ordinal-only discipline (non-interference): raw rank/score values reach nothing but sort keys,
comparisons with another raw value, a uniform negation, and type tests that cannot tell int/float/bool
apart; no raw value, and no result of a type-separating test on one, reaches a stored rating number.
R3.2 scores are ranks negated (key at position j is exactly -scores[j]); R3.3 default ranks are the
positions of the input order, unsorted; R3.4 ties are decided by comparisons of raw values only.
"""

from __future__ import annotations

import ast
from typing import Any, Dict, List

from ..ai.values import Bool, Num, Ptr, Seq, TupleV, ivar, short
from ..frontend import Program, norm_text
from ..report import Instance, Report
from .harness import parallel_map, run_op, where

RAW, TYPED = "RANKRAW", "RANKTYPE"
ALLOWED_EXT = {
    "builtin.sorted", "builtin.isinstance", "builtin.len", "builtin.enumerate", "builtin.zip", "builtin.list", "builtin.tuple",
    "builtin.max", "builtin.min", "builtin.reversed", "builtin.iter", "builtin.next", "builtin.map", "builtin.filter", "builtin.type",
    "builtin.repr", "builtin.print", "builtin.format", "builtin.str", "builtin.all", "builtin.any", "operator.neg", "list.append",
    "list.extend", "list.sort", "list.copy", "copy.deepcopy", "copy.copy", "itertools.zip_longest", "list.index", "list.count",
}


class Collector:
    def __init__(self):
        self.sites: List[Dict[str, Any]] = []
        self.rank_cmps: List[Any] = []  # comparisons made by _calculate_rankings (no-ranks case: R3.3)

    def add(self, I, node, what: str, msg: str):
        f = I.cur_func()
        mod, _, qn = f.partition("::")
        self.sites.append(dict(module=mod, function=qn, line=getattr(node, "lineno", 0), construct=norm_text(node, 110), what=what, message=msg))


def _setup(col: Collector):
    def setup(w):
        I = w.I
        I.ordinal_tags = {RAW}
        I.type_test_tags = {RAW: TYPED}

        def arith(I, node, opname, a, b):
            if RAW in a.prov or RAW in b.prov:
                col.add(I, node, "arith", f"arithmetic ({opname}) on a raw rank/score value: the result depends on the encoding, not only on the order")

        def compare(I, node, op, a, b):
            if I.cur_func().endswith("._calculate_rankings") and isinstance(a, Num) and isinstance(b, Num) and a.const is None and b.const is None:
                col.rank_cmps.append((I.cur_func(), node, a, b))
            ta, tb = RAW in a.prov, RAW in b.prov
            if ta != tb:
                other = b if ta else a
                col.add(I, node, "mixed-compare", f"a raw rank/score value is compared with something that is not one ({short(other)}): the outcome depends on the magnitude of the encoding")

        def convert(I, node, name, n):
            if RAW in n.prov:
                col.add(I, node, "convert", f"{name}() applied to a raw rank/score value changes ties or order for some encodings (large ints, floats, bools)")

        def subscript(I, node, obj, key, seq):
            if isinstance(key, (Num, Bool)) and RAW in key.prov:
                col.add(I, node, "index", "a raw rank/score value is used as an index/key")

        I.hooks.update(arith=arith, compare=compare, convert=convert, subscript=subscript)

    return setup


def _job(job) -> List[Dict[str, Any]]:
    idx, sel, kinds = job
    prog = Program()
    roles = prog.roles()[idx]
    out: List[Dict[str, Any]] = []
    mod = roles.model.module.name
    entry = f"{roles.model.name}.rate"
    line = roles.model.lookup("rate").node.lineno
    col = Collector()
    kw = {"tau": "any", "limit_sigma": "any"}
    custom = False
    if sel and kinds.endswith("+callback"):
        # a user-supplied gamma: what it is handed must not be a raw rank / score value either (it may use its `rank` argument)
        kinds = kinds[: -len("+callback")]
        custom = True
        kw["custom_gamma"] = True
    if sel:
        kw[sel] = kinds
    case = f"{sel or 'no ranks'}={kinds if sel else ''}" + (" (user gamma)" if custom else "")
    try:
        oc = run_op(prog, roles, "rate", setup=_setup(col), **kw)
    except Exception as e:
        return [dict(rule="R3.1", verdict="UNDECIDED", module=mod, function=entry, construct=case, line=line, message=f"abstract evaluation failed: {type(e).__name__}: {e}", detail={})]
    I = oc.I
    if oc.undecided or not oc.returned:
        return [dict(rule="R3.1", verdict="UNDECIDED", module=mod, function=entry, construct=case, line=line, message="; ".join(oc.undecided[:3]) or "rate does not return", detail={})]
    # ---- R3.1 site diagnostics
    seen = set()
    for s in col.sites:
        k = (s["module"], s["function"], s["construct"], s["what"])
        if k in seen:
            continue
        seen.add(k)
        out.append(dict(rule="R3.1", verdict="VIOLATED", module=s["module"], function=s["function"], construct=s["construct"], line=s["line"], message=s["message"], detail={"case": case, "use": s["what"]}))
    # branches on raw values (truthiness of an element, `not rank`, ...)
    for ev in I.events:
        if ev.kind == "branch" and RAW in ev.data["prov"]:
            m, fn, ln = where(ev)
            out.append(dict(rule="R3.1", verdict="VIOLATED", module=m, function=fn, construct=norm_text(ev.node, 110), line=ln,
                            message="a branch depends on the value (truthiness / non-ordinal test) of a raw rank/score element: 0, False and 0.0 are treated differently from other values", detail={"case": case}))
        if ev.kind == "ext-call" and ev.data["qual"] not in ALLOWED_EXT:
            for a in ev.data["args"]:
                if isinstance(a, Num) and RAW in a.prov and not ev.data["qual"].startswith("builtin.float") and not ev.data["qual"].startswith("math."):
                    m, fn, ln = where(ev)
                    out.append(dict(rule="R3.1", verdict="VIOLATED", module=m, function=fn, construct=norm_text(ev.node, 110), line=ln,
                                    message=f"a raw rank/score value is passed to {ev.data['qual']} (not an order-only operation)", detail={"case": case}))
        if ev.kind == "callback":
            for a in ev.data["args"]:
                if isinstance(a, Num) and RAW in a.prov:
                    m, fn, ln = where(ev)
                    out.append(dict(rule="R3.1", verdict="VIOLATED", module=m, function=fn, construct=norm_text(ev.node, 110), line=ln, message="a raw rank/score value is handed to the gamma callback", detail={"case": case}))
    # ---- R3.1 sinks: numbers stored into ratings
    typed_sink = None
    raw_sink = None
    n_sinks = 0
    for ev in I.events:
        if ev.kind == "write" and ev.data["origin"] == "input:player" and ev.data["field"] in ("mu", "sigma"):
            n_sinks += 1
            prov = getattr(ev.data.get("val"), "prov", frozenset())
            if TYPED in prov and typed_sink is None:
                typed_sink = ev
            if RAW in prov and raw_sink is None:
                raw_sink = ev
    if raw_sink is not None and not col.sites:
        m, fn, ln = where(raw_sink)
        out.append(dict(rule="R3.1", verdict="VIOLATED", module=m, function=fn, construct=norm_text(raw_sink.node, 110), line=ln,
                        message="a number stored into a rating depends on a raw rank/score value other than through order comparisons", detail={"case": case}))
    if typed_sink is not None:
        # report at the type tests that separate int/float/bool on raw values
        tests = [ev for ev in I.events if ev.kind == "isinstance" and ev.data.get("separates")]
        if not tests:
            # the type was obtained with type(x) / x.__class__ and tested some other way
            m, fn, ln = where(typed_sink)
            out.append(dict(rule="R3.1", verdict="VIOLATED", module=m, function=fn, construct=norm_text(typed_sink.node, 110), line=ln,
                            message="the exact type (type(x) / __class__) of a raw rank/score value decides what reaches the stored ratings: bool, int and float encodings of the same "
                                    "value are treated differently (True vs 1 vs 1.0)", detail={"case": case}))
        for ev in tests:
            m, fn, ln = where(ev)
            out.append(dict(rule="R3.1", verdict="VIOLATED", module=m, function=fn, construct=norm_text(ev.node, 110), line=ln,
                            message="this type test tells int, float and bool rank/score values apart and its outcome reaches the stored ratings: "
                                    "equal values of different numeric type (1 vs 1.0) are not treated as the same rank", detail={"case": case, "sink": norm_text(typed_sink.node, 80)}))
    if sel and not any(d["verdict"] == "VIOLATED" for d in out):
        out.append(dict(rule="R3.1", verdict="HOLDS", module=mod, function=entry, construct=f"ordinal-only discipline: {case}", line=line, message="",
                        detail={"case": case, "rating_stores_checked": n_sinks, "functions": sorted(x.split("::")[-1] for x in I.functions_entered)[:40]}))
    # ---- R3.2 / R3.3 / R3.4
    sorts = [ev for ev in I.events if ev.kind == "sort"]
    if sel:
        loc = "IN.ranks" if sel == "ranks" else "IN.scores"
        keyed = []
        for ev in sorts:
            info = ev.data["info"]
            kv = info["keyval"]
            tok = info["tok"]
            raw_term = ("elem", loc, (), ivar(tok))
            want = raw_term if sel == "ranks" else ("neg", raw_term)
            if isinstance(kv, Num) and RAW in kv.prov:
                ok = kv.sym == want and info["reverse"] is False and not (info["src"].flags & {"partial", "reordered"})
                keyed.append(ok)
                m, fn, ln = where(ev)
                msg = ""
                if not ok:
                    msg = (f"the sort key at position j is not exactly {'ranks[j]' if sel == 'ranks' else '-scores[j]'} over the whole list "
                           f"(key term {kv.sym}, reverse={info['reverse']}, flags={sorted(info['src'].flags)})")
                out.append(dict(rule="R3.2", verdict="HOLDS" if ok else "VIOLATED", module=m, function=fn, construct=f"{sel}: {norm_text(ev.node, 90)}", line=ln, message=msg, detail={"case": case}))
        # R3.4 a key-less sort of (value, something) tuples breaks ties by the second component: equal values are not ties any more
        for ev in sorts:
            info = ev.data["info"]
            el = info["src"].elem
            if not info["key_given"] and isinstance(el, TupleV) and len(el.items) > 1 and isinstance(el.items[0], Num) and RAW in el.items[0].prov and info["inverse_of"] is None:
                m, fn, ln = where(ev)
                out.append(dict(rule="R3.4", verdict="VIOLATED", module=m, function=fn, construct=f"{sel}: {norm_text(ev.node, 90)}", line=ln,
                                message="tuples (raw value, other component) are sorted without a key: equal rank/score values are ordered by the other component and receive distinct places — "
                                        "teams with equal values are no longer tied", detail={"case": case}))
        if not keyed:
            out.append(dict(rule="R3.2", verdict="VIOLATED", module=mod, function=entry, construct=f"{sel}: no sort keyed by the given values", line=line,
                            message=f"with {sel} given, nothing is ordered by the supplied values", detail={"case": case}))
        # R3.4: which comparisons decide ties — all comparisons on raw values are raw-vs-raw (mixed ones reported above)
        ncmp = sum(1 for ev in I.events if ev.kind == "branch" and isinstance(ev.node, ast.Compare))
        out.append(dict(rule="R3.4", verdict="HOLDS" if not any(s["what"] == "mixed-compare" for s in col.sites) else "VIOLATED", module=mod, function=entry,
                        construct=f"ties are == on the supplied values: {case}", line=line,
                        message="" if not any(s["what"] == "mixed-compare" for s in col.sites) else "a tie/order decision compares a raw value with a non-raw value", detail={"case": case}))
    else:
        ok = not sorts
        out.append(dict(rule="R3.3", verdict="HOLDS" if ok else "VIOLATED", module=mod, function=entry, construct="no ranks: teams are processed in input order (no sort)", line=line,
                        message="" if ok else "a sort is applied although no ranks/scores were given", detail={}))
        # the values standing in for ranks are the positions 0..n-1
        found = False
        for ev in I.events:
            if ev.kind == "for" and ev.func.endswith("._calculate_rankings"):
                s = ev.data["seq"]
                el = s.elem
                if isinstance(el, TupleV) and len(el.items) == 2 and isinstance(el.items[1], Num):
                    v = el.items[1]
                    found = True
                    okp = v.sym == ("idx", ivar(s.kvar)) and not (s.flags & {"partial", "reordered"})
                    m, fn, ln = where(ev)
                    out.append(dict(rule="R3.3", verdict="HOLDS" if okp else "VIOLATED", module=m, function=fn, construct="default rank of the team at position k is k", line=ln,
                                    message="" if okp else f"without ranks the value standing in for the rank at position k is {short(v)} (term {v.sym}), not k", detail={}))
        if not found and col.rank_cmps:
            # other spellings of the competition ranking: the values it compares are read from the stand-in list; a value read at
            # position p must be p itself (term idx(p))
            for f_, node_, a_, b_ in col.rank_cmps:
                found = True
                syms = [x.sym for x in (a_, b_)]
                okp = all(s_ is not None and s_[0] == "idx" for s_ in syms)
                und = any(s_ is None for s_ in syms)
                out.append(dict(rule="R3.3", verdict="HOLDS" if okp else ("UNDECIDED" if und else "VIOLATED"), module=f_.partition("::")[0], function=f_.partition("::")[2],
                                construct="default rank of the team at position k is k", line=getattr(node_, "lineno", line),
                                message="" if okp else f"without ranks the values compared by the ranking are {short(a_)} and {short(b_)} (terms {syms}), not the positions they are read at", detail={}))
        if not found:
            # no comparison at all: the ranks returned without ranks given are the positions themselves
            for ev in I.events:
                if ev.kind == "return" and ev.data["callee"].endswith("._calculate_rankings") and isinstance(ev.data["val"], Ptr):
                    s = I.list_seq(oc.world.state, ev.data["val"])
                    if s is not None and isinstance(s.elem, Num) and s.elem.sym is not None:
                        found = True
                        okp = s.elem.sym == ("idx", ivar(s.kvar)) and not (s.flags & {"partial", "reordered"})
                        m, fn, ln = where(ev)
                        out.append(dict(rule="R3.3", verdict="HOLDS" if okp else "VIOLATED", module=m, function=fn, construct="default rank of the team at position k is k", line=ln,
                                        message="" if okp else f"without ranks the rank at position k is {short(s.elem)} (term {s.elem.sym}), not k", detail={}))
        if not found:
            out.append(dict(rule="R3.3", verdict="UNDECIDED", module=mod, function=entry, construct="default ranks", line=line, message="could not locate the default rank values (idiom not recognised)", detail={}))
    return out


def run(prog: Program, rep: Report, tier: str = "quick") -> None:
    roles = prog.roles()
    rep.explanation = (
        "Information-flow analysis with validated-type facts: the elements of ranks/scores carry a tag that only a comparison with another "
        "tagged value removes. Reported: arithmetic on a tagged value, comparison with an untagged value, truthiness, conversion, indexing, "
        "foreign calls, a type test separating int/float/bool whose outcome reaches a stored rating, or the tag itself reaching a stored "
        "rating. If none occurs the result is a function of the weak order of the supplied values for every encoding. The sort key at "
        "position j is exactly ranks[j] (or -scores[j], uniform negation, full list); without ranks the stand-in values are the positions and no sort is applied."
    )
    rep.rule_text = "per model: ranks and scores x {int, float, bool, mixed} element kinds, plus the no-ranks class; one instance per class, per offending site, per keyed sort"
    rep.trust("abstract interpreter osv/ai (provenance through data flow and control dependence; comparisons of two raw values are declassified)")
    rep.trust("sorting by a key depends on the keys only through their order (list.sort/sorted contract)")
    rep.not_decided = ["the numbers that come out (C01)"]
    jobs = []
    for i in range(len(roles)):
        for sel in ("ranks", "scores"):
            for kinds in ("list-of-int", "list-of-float", "list-of-bool", "list-of-mixed-int-float-bool", "list-of-mixed-int-float-bool+callback"):
                jobs.append((i, sel, kinds))
        jobs.append((i, None, ""))
    seen = set()
    for lst in parallel_map(_job, jobs):
        for d in lst:
            key = (d["rule"], d["verdict"], d["module"], d["function"], d["construct"], d.get("model", ""))
            if key in seen:
                continue
            seen.add(key)
            rep.add(Instance(d["rule"], d["verdict"], d["module"], d["function"], d["construct"], d["line"], d.get("message", ""), d.get("detail", {})))
    n = len(roles)
    from . import game

    game.add_instances(rep, game.c03_job, [(i, tier) for i in range(n)], "R3.5", 30 * n)
    from . import c01

    game.add_instances(rep, c01.closed_form_job, [(i, tier, "R3.6") for i in range(n)], "R3.6", 28 * n, counterpart_only=True)
    rep.arbitrate({"R3.2", "R3.3"}, "R3.5", "scores are ranks negated; omitted ranks are the positions")
    rep.arbitrate({"R3.4"}, "R3.6", "ties are exactly the equal values: the stored terms are the closed forms under every weak ordering of the values", also=("R3.5",))
    rep.supersede({"R3.2", "R3.3"}, "R3.5", "scores are ranks negated; omitted ranks are the positions")
    rep.supersede({"R3.4"}, "R3.6", "ties are exactly the equal values")
    rep.floor("R3.1", 8 * n)
    rep.floor("R3.2", 2 * n)
    rep.floor("R3.3", 2 * n)
    rep.floor("R3.4", 8 * n)
