"""C04 — rate() is equivariant under reordering of teams and of players (narrow, structural claim).

R4.1 the update kernel always sees the teams in the order of a stable, key-only, ascending sort by the
given ranks/scores (input order when none are given); R4.2 sort discipline; R4.3 team aggregates are
commutative additive folds over all members of player-local terms; R4.4 index-use discipline: a loop
position over teams or players is used only as a subscript/key or in == / != tests.
"""

from __future__ import annotations

import ast
from typing import Any, Dict, List

from ..ai.values import Bool, Num, Ptr, Seq, TupleV, ivar, short, sym_index_vars
from ..frontend import Program, norm_text
from ..report import Instance, Report
from .harness import parallel_map, run_op, where

# confirmed exceptions of R4.4, one line each with the reason
INDEX_EXCEPTIONS = {
    "_calculate_rankings": "positions of a rank-sorted list are order statistics, not presentation positions (adjacent comparison index - 1)",
    "_unwind": "permutation bookkeeping of the sort (R4.2 / C02)",
    "_ladder_pairs": "neighbours in rank order: the statement's own exception for partial pairing",
    "_rank_data": "competition ranking of probabilities (predict_rank only, not reachable from rate)",
    "_arg_sort": "competition ranking of probabilities (predict_rank only, not reachable from rate)",
}


def _mentions_idx(sym) -> bool:
    if sym is None or not isinstance(sym, tuple):
        return False
    if sym and sym[0] == "idx":
        return True
    if sym and sym[0] in ("in", "rd", "elem", "const", "param", "lenterm", "len"):
        return False
    return any(_mentions_idx(a) for a in sym[1:] if isinstance(a, tuple))


def _exempt(func: str) -> bool:
    qn = func.split("::")[-1]
    parts = qn.replace(".<locals>", "").split(".")
    return any(p in INDEX_EXCEPTIONS for p in parts)


def in_kernel_label(lbl: str) -> bool:
    return lbl.endswith("._compute") or "._compute.<locals>" in lbl


def _job(job) -> List[Dict[str, Any]]:
    idx, sel = job
    prog = Program()
    roles = prog.roles()[idx]
    mod = roles.model.module.name
    entry = f"{roles.model.name}.rate"
    line = roles.model.lookup("rate").node.lineno
    kw = {"tau": "any", "limit_sigma": "any"}
    if sel:
        kw[sel] = "list-of-mixed-int-float-bool"
    case = sel or "no ranks"
    out: List[Dict[str, Any]] = []
    sites: List[Dict[str, Any]] = []

    def inst(rule, verdict, construct, message="", detail=None, m=mod, fn=entry, ln=line):
        out.append(dict(rule=rule, verdict=verdict, module=m, function=fn, construct=construct, line=ln, message=message, detail=dict(detail or {}, case=case)))

    teams_terms = (("len", "IN.teams", ()), ("add", ("len", "IN.teams", ()), -1))

    def pos_tagger(I, length):
        # which dimension a position value ranges over, and whether it was made inside the update kernel
        dim = "teams" if length.term in teams_terms else "other"
        return {f"POS:{dim}:k" if any(in_kernel_label(f.label) for f in I.stack) else f"POS:{dim}"}

    def _rank_order_positions(I, *vals) -> bool:
        """Inside the update kernel the teams are in rank order (R4.1), so a position over all teams made there is an order
        statistic (e.g. the ladder neighbours i - 1 / i + 1 of partial pairing, or the default rank of a team), not a
        presentation position. Decided on the provenance of the value: every position it derives from was made in the kernel and
        ranges over the teams."""
        if not any(in_kernel_label(f.label) for f in I.stack):
            return False
        tags = {t for v in vals if v is not None for t in v.prov if t.startswith("POS:")}
        return bool(tags) and tags <= {"POS:teams:k"}

    def setup(w):
        w.I.pos_tagger = pos_tagger

        def arith(I, node, opname, a, b):
            if (_mentions_idx(a.sym) or _mentions_idx(b.sym)) and not _exempt(I.cur_func()) and not _rank_order_positions(I, a if _mentions_idx(a.sym) else None, b if _mentions_idx(b.sym) else None):
                f = I.cur_func()
                sites.append(dict(m=f.partition("::")[0], fn=f.partition("::")[2], ln=getattr(node, "lineno", 0), c=norm_text(node, 100),
                                  msg=f"a loop position over teams/players enters arithmetic ({opname}): the result depends on where a team or player stands in the input"))

        def compare(I, node, op, a, b):
            if isinstance(op, (ast.Eq, ast.NotEq)):
                return
            if (_mentions_idx(a.sym) or _mentions_idx(b.sym)) and not _exempt(I.cur_func()) and not _rank_order_positions(I, a if _mentions_idx(a.sym) else None, b if _mentions_idx(b.sym) else None):
                f = I.cur_func()
                sites.append(dict(m=f.partition("::")[0], fn=f.partition("::")[2], ln=getattr(node, "lineno", 0), c=norm_text(node, 100),
                                  msg="a loop position over teams/players is used in an ordering comparison"))

        w.I.hooks.update(arith=arith, compare=compare)

    try:
        oc = run_op(prog, roles, "rate", setup=setup, **kw)
    except Exception as e:
        inst("R4.1", "UNDECIDED", case, f"abstract evaluation failed: {type(e).__name__}: {e}")
        return out
    if oc.undecided or not oc.returned:
        inst("R4.1", "UNDECIDED", case, "; ".join(oc.undecided[:3]) or "rate does not return")
        return out
    I, st = oc.I, oc.world.state
    evs = I.events
    # ---------------------------------------------------------------- R4.2 sort discipline
    sorts = {ev.data["pid"]: ev for ev in evs if ev.kind == "sort"}
    good_rank_sorts = set()
    loc = "IN.ranks" if sel == "ranks" else "IN.scores"
    for pid, ev in sorts.items():
        info = ev.data["info"]
        kv = info["keyval"]
        m, fn, ln = where(ev)
        problems = []
        if info["reverse"] is not False:
            problems.append("reverse sort: flips the documented relative order of tied teams")
        el = info["src"].elem
        if not info["key_given"] and isinstance(el, TupleV) and any(not isinstance(x, (Num, Bool)) for x in el.items[1:]) and info["inverse_of"] is None:
            problems.append("sort without a key: tied teams are ordered by comparing the team lists / rating objects, not kept in input order")
        if isinstance(el, Ptr) and el.loc == "IN.player":
            problems.append("the players of a team are re-ordered by a value-dependent sort: anything written back by the caller's positions (posteriors, priors for the cap) is paired with "
                            "another team-mate, so the order in which a team's players are listed changes the result")
        by_raw = isinstance(kv, Num) and "RANKRAW" in kv.prov
        if by_raw and not problems:
            good_rank_sorts.add(pid)
        inst("R4.2", "VIOLATED" if problems else "HOLDS", f"sort: {norm_text(ev.node, 80)}", "; ".join(problems), {"pid": pid, "by_given_values": by_raw, "undo_of": str(info["inverse_of"])}, m, fn, ln)
    # ---------------------------------------------------------------- R4.1 the kernel sees rank order
    # kernel calls = calls made by rate to a model method during which a passed rating's mu is written
    stack_depth = None
    kernel_calls = []
    open_calls = []
    def in_rate(ev) -> bool:
        # made by rate itself: the stack is <harness>, rate and possibly comprehension frames of rate (same label)
        return ev.func.endswith(".rate") and len(ev.stack) >= 2 and all(lbl == ev.stack[1] for lbl in ev.stack[1:])

    for i, ev in enumerate(evs):
        if ev.kind == "call" and in_rate(ev):
            open_calls.append([ev, False])
        elif ev.kind == "return" and in_rate(ev) and open_calls:
            c = open_calls.pop()
            if c[1]:
                kernel_calls.append(c[0])
        elif ev.kind == "write" and ev.data["origin"] == "input:player" and ev.data["field"] == "mu" and open_calls:
            open_calls[-1][1] = True
    if not kernel_calls:
        inst("R4.1", "UNDECIDED", "no update kernel call found", "no call made by rate writes a passed rating's mu (idiom not recognised)")
    for ev in kernel_calls:
        m, fn, ln = where(ev)
        args = [a for a in ev.data["args"]] + list(ev.data["kwargs"].values())
        tl = None
        for a in args:
            if isinstance(a, Ptr):
                s = I.list_seq(st, a)
                # the state has moved on; use the element description recorded at call time instead
        bound = ev.data["bound"]
        teams_arg = None
        for name, v in bound.items():
            if isinstance(v, Ptr) and v.loc in st.heap:
                s = I.list_seq(st, v)
                if s is not None and isinstance(s.elem, Ptr) and s.elem.loc == "IN.team":
                    teams_arg = (name, s)
        c = f"order of the teams handed to {ev.data['callee'].split('::')[-1]} ({case})"
        if sel:
            def _is_rank_list(v):
                if not (isinstance(v, Ptr) and v.loc in st.heap):
                    return False
                rs_ = I.list_seq(st, v)
                return rs_ is not None and isinstance(rs_.elem, Num) and "RANKRAW" in rs_.elem.prov

            if not any(_is_rank_list(v) for v in bound.values()):
                inst("R4.1", "VIOLATED", f"rank values reach {ev.data['callee'].split('::')[-1]} ({case})",
                     f"with {sel} given, a call of the update kernel is reachable that receives no rank values: on that path the outcome (order and ties) is replaced by the "
                     "order in which the teams are listed, so another presentation of the same game gives another result", {}, m, fn, ln)
                continue
        if teams_arg is None:
            inst("R4.1", "UNDECIDED", c, "could not identify the list of teams among the kernel's arguments", {}, m, fn, ln)
            continue
        s = teams_arg[1]
        it = s.elem.idx[0]
        if sel:
            ok = it[0] == "perm" and it[1] in good_rank_sorts and it[2] is False and it[3] == ivar(s.kvar) and s.length.term == ("len", "IN.teams", ())
            msg = "" if ok else (f"with {sel} given the kernel receives the teams in order {it} — not the stable ascending key-only sort by the given values over all teams "
                                 "(ties are detected from adjacent values and are wrong on unsorted input)")
        else:
            ok = it == ivar(s.kvar) and s.length.term == ("len", "IN.teams", ())
            msg = "" if ok else f"without ranks the kernel does not receive the teams in input order ({it})"
        inst("R4.1", "HOLDS" if ok else "VIOLATED", c, msg, {"order": str(it)}, m, fn, ln)
        # the rank values that travel with them are the same keys, sorted the same way (lemma L-SORT)
        if sel and ok:
            rk = [v for v in bound.values() if isinstance(v, Ptr) and v.loc in st.heap and I.list_seq(st, v) is not None
                  and isinstance(I.list_seq(st, v).elem, Num) and "RANKRAW" in I.list_seq(st, v).elem.prov]
            for v in rk:
                rs = I.list_seq(st, v)
                sy = rs.elem.sym
                okr = False
                if sy is not None:
                    base = sy[1] if sy[0] == "neg" else sy
                    pos = base[3] if base[0] == "elem" and base[1] == loc else None
                    okr = pos is not None and pos[0] == "perm" and pos[1] in good_rank_sorts and pos[3] == ivar(rs.kvar)
                inst("R4.1", "HOLDS" if okr else "VIOLATED", f"rank values handed to {ev.data['callee'].split('::')[-1]} ({case})",
                     "" if okr else f"the rank values travelling with the sorted teams are not the given values in sorted order (element term {sy})",
                     {"lemma": "L-SORT: two stable ascending sorts by the same keys yield the same key sequence"}, m, fn, ln)
    # ---------------------------------------------------------------- R4.3 aggregates are commutative folds over all members
    folds = [ev for ev in evs if ev.kind == "fold" and "_calculate_team_ratings" in ev.func]
    agg_sites = set()
    for ev in folds:
        m, fn, ln = where(ev)
        s = ev.data["seq"]
        over_team = isinstance(s.length.term, tuple) and s.length.term[0] == "len" and s.length.term[1] == "IN.team"
        problems = []
        if not over_team or not ev.data["full"]:
            problems.append(f"the aggregate does not run over all members of the team (length term {s.length.term}, flags {sorted(s.flags)})")
        if ev.data["how"] == "reduce" and not ev.data.get("additive"):
            problems.append("the reducing function is not x + y (a non-commutative or weighted fold)")
        el = ev.data["elem"]
        if isinstance(el, Num) and _mentions_idx(el.sym):
            problems.append("the folded term depends on the member's position")
        if not problems:
            agg_sites.add(id(ev.node))
        inst("R4.3", "VIOLATED" if problems else "HOLDS", f"team aggregate: {norm_text(ev.node, 90)}", "; ".join(problems), {}, m, fn, ln)
    # the statistics the kernel actually receives: every mu-/sigma-dependent number of a team rating handed to the kernel is, in the
    # final state, a sum over all members of that same team (a fold event alone is not enough: an accumulator that is not reset
    # per team produces the event in the first iteration only)
    from ..ai.state import InstObj
    from ..ai.values import Ptr as _Ptr

    def _team_fold(sym, depth=0):
        """('ok', head) when sym is (0 +) fold(+, v, e(IN.player[head, v]), len(IN.team[head])), else a reason."""
        if sym is None:
            return ("unknown", "the value has no symbolic term (e.g. an accumulator carried over from the previous team)")
        if sym[0] == "call" and sym[1] == "float" and len(sym) == 3:
            return _team_fold(sym[2], depth + 1)
        if sym[0] == "add" and sym[1][0] == "const" and sym[1][1] == 0:
            return _team_fold(sym[2], depth + 1)
        if sym[0] != "fold" or sym[1] != ("const", "+"):
            return ("bad", f"it is not an additive fold ({sym[0]})")
        lt = sym[4][1] if isinstance(sym[4], tuple) and sym[4][0] == "lenterm" else None
        if not (isinstance(lt, tuple) and lt[0] == "len" and lt[1] == "IN.team" and len(lt[2]) == 1):
            return ("bad", f"the fold does not run over the members of one team (length term {lt})")
        return ("ok", lt[2][0])

    checked = 0
    for ev in evs:
        if ev.kind != "return" or not ev.data.get("callee", "").endswith("_calculate_team_ratings") or not any(in_kernel_label(l) for l in ev.stack):
            continue
        v = ev.data.get("val")
        sq = I.list_seq(st, v) if isinstance(v, _Ptr) and v.loc in st.heap else None
        el = sq.elem if sq is not None else None
        c_ = st.heap.get(el.loc) if isinstance(el, _Ptr) else None
        if c_ is None or not isinstance(c_.obj, InstObj):
            continue
        for fname, _ in c_.obj.fields:
            fv_ = I.read_field(st, el, fname)
            if not isinstance(fv_, Num) or not ({"MU", "SIGMA"} & set(fv_.prov)):
                continue
            checked += 1
            verdict, info = _team_fold(fv_.sym)
            m_, fn_, ln_ = where(ev)
            if verdict != "ok":
                inst("R4.3", "UNDECIDED" if verdict == "unknown" else "VIOLATED", f"team statistic {fname} handed to the kernel",
                     f"the team rating's {fname} is not a sum over all members of its own team: {info}", {}, m_, fn_, ln_)
        break
    agg_ok = len(agg_sites)
    if agg_ok < 2 and not any(d["rule"] == "R4.3" and d["verdict"] == "VIOLATED" for d in out):
        inst("R4.3", "VIOLATED", "team aggregates", f"only {agg_ok} commutative fold(s) over all team members found where the team's mu and variance need one each: a team statistic is not a sum over all members")
    # ---------------------------------------------------------------- R4.4 index-use discipline
    seen = set()
    for sdict in sites:
        k = (sdict["m"], sdict["fn"], sdict["c"])
        if k in seen:
            continue
        seen.add(k)
        inst("R4.4", "VIOLATED", sdict["c"], sdict["msg"], {}, sdict["m"], sdict["fn"], sdict["ln"])
    for ev in evs:
        if ev.kind == "write" and ev.data["origin"] == "input:player" and ev.data["field"] in ("mu", "sigma"):
            v = ev.data.get("val")
            if isinstance(v, Num) and _mentions_idx(v.sym) and not sites:
                m, fn, ln = where(ev)
                inst("R4.4", "VIOLATED", norm_text(ev.node, 100), "a stored rating number is computed from a loop position", {}, m, fn, ln)
    if not any(d["rule"] == "R4.4" for d in out):
        inst("R4.4", "HOLDS", f"loop positions are used only as subscripts/keys and in ==/!= tests ({case})", "",
             {"frozen_exceptions": INDEX_EXCEPTIONS, "subscripts_by_position": sum(1 for ev in evs if ev.kind == "branch")})
    return out


def run(prog: Program, rep: Report, tier: str = "quick") -> None:
    roles = prog.roles()
    rep.explanation = (
        "Structural reasons the equivariance can hold, decided by the order-tag abstraction: (R4.1) on every path with ranks/scores the update kernel "
        "receives the teams as the image of one stable, ascending, key-only sort by exactly those values over all teams, and in input order otherwise; "
        "(R4.2) no reverse or key-less sort; (R4.3) a team's mu and variance are additive commutative folds over all members of player-local terms; "
        "(R4.4) loop positions over teams/players never enter arithmetic, ordering comparisons or stored numbers outside five frozen, reasoned exceptions. "
        "Numerical equivariance itself (floating-point re-association) is not decided."
    )
    rep.rule_text = "per model x {ranks, scores, none}: kernel-call order, sorts, folds, index uses"
    rep.trust("abstract interpreter osv/ai (Seq/index-term abstraction; sort as a stable permutation symbol)")
    rep.lemmas["L-SORT"] = "sorted(K) and the teams sorted by K with a stable key-only ascending sort are aligned: position k of both holds the k-th smallest key"
    rep.not_decided = ["numerical equality of the two presentations (floating-point re-association)", "dependence of partial pairing on presentation order among tied teams (the statement's exception)"]
    jobs = [(i, sel) for i in range(len(roles)) for sel in ("ranks", "scores", None)]
    seen = set()
    from .rankiso import iso_job

    for lst in parallel_map(_job, jobs) + parallel_map(iso_job, [(i, "R4.5") for i in range(len(roles))]):
        for d in lst:
            key = (d["rule"], d["verdict"], d["module"], d["function"], d["construct"], d.get("model", ""))
            if key in seen:
                continue
            seen.add(key)
            rep.add(Instance(d["rule"], d["verdict"], d["module"], d["function"], d["construct"], d["line"], d.get("message", ""), d.get("detail", {})))
    n = len(roles)
    from . import game

    game.add_instances(rep, game.c04_job, [(i, tier) for i in range(n)], "R4.6", 50 * n)
    rep.arbitrate({"R4.1", "R4.2", "R4.3", "R4.4"}, "R4.6", "nothing depends on where a team or a player stands in the input")
    rep.supersede({"R4.1", "R4.2", "R4.3", "R4.4"}, "R4.6", "nothing depends on where a team or a player stands in the input")
    rep.floor("R4.1", 3 * n)
    rep.floor("R4.2", 2)
    rep.floor("R4.3", 2 * n)
    rep.floor("R4.4", n)
    rep.floor("R4.5", 6 * n)
