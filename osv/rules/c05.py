"""C05 — direction of learning (partial claim).

R5.1 one team-level step shared by variance: the mu a player gains is (its own tau-inflated variance) x (a quantity
that does not depend on the player), so all members move in the direction of the team's omega, each in proportion to
own variance. R5.2 per-branch sign of the exchange: against a worse-placed team the omega increment is >= 0, against a
better-placed one <= 0 (pairwise models); for Plackett-Luce the own-stage term is >= 0 and every other-stage term <= 0.
"""

from __future__ import annotations

from fractions import Fraction
from typing import Any, Dict, List

from ..ai.values import Interval, Num, index_str, short
from ..ai.world import Box
from ..frontend import Program, norm_text
from ..poly import freeze, p_add, p_atom, p_mul, show, to_poly
from ..report import Instance, Report
from .c06 import BOXES
from .c07 import Probe, _run, _signed, discover
from .harness import parallel_map, where
from .lemmas import install_lemmas


def _mentions(obj, name: str) -> bool:
    if isinstance(obj, tuple):
        if len(obj) == 2 and obj[0] == "v" and obj[1] == name:
            return True
        return any(_mentions(x, name) for x in obj)
    if isinstance(obj, str):
        return obj == name
    return False


def _job(idx: int) -> List[Dict[str, Any]]:
    prog = Program()
    roles = prog.roles()[idx]
    mod = roles.model.module.name
    kern = roles.model.lookup("_compute")
    entry = f"{roles.model.name}._compute"
    line = kern.node.lineno if kern else 0
    out: List[Dict[str, Any]] = []

    def inst(rule, verdict, construct, message="", detail=None, m=mod, fn=entry, ln=line):
        out.append(dict(rule=rule, verdict=verdict, module=m, function=fn, construct=construct, line=ln, message=message, detail=detail or {}))

    try:
        info, why = discover(prog, roles)
    except Exception as e:
        info, why = None, f"abstract evaluation failed: {type(e).__name__}: {e}"
    if info is None:
        inst("R5.1", "UNDECIDED", "discovery", why)
        return out
    # ---------------------------------------------------------------- R5.1
    seen = set()
    for ev in info["mu_writes"]:
        if id(ev.node) in seen:
            continue
        seen.add(id(ev.node))
        m, fn, ln = where(ev)
        v = ev.data["val"]
        tgt = ev.data["ptr"]
        c = f"mu step = own variance x player-independent quantity: {norm_text(ev.node, 60)}"
        P = to_poly(v.sym) if isinstance(v, Num) else None
        if P is None:
            inst("R5.1", "UNDECIDED", c, "the stored mu has no symbolic term", {}, m, fn, ln)
            continue
        mu0 = p_atom(("in", "IN.player", "mu", tgt.idx))
        D = p_add(P, mu0, -1)
        if any(("in", "IN.player", "mu", tgt.idx) in [a for a, _ in mono] for mono in D):
            inst("R5.1", "VIOLATED", c, f"the stored mu is not (the same player's prior mu) + step: {show(P, 200)}", {}, m, fn, ln)
            continue
        s0 = ("in", "IN.player", "sigma", tgt.idx)
        tj = tgt.idx[1][1] if tgt.idx[1][0] == "v" else None
        problems = []
        # the normal form multiplies the inflated variance (sigma^2 + tau^2) out: step = sigma^2 * R + tau^2 * R. The monomials
        # without the player's own sigma must be exactly (a square of one parameter atom) x R, R being the sigma-part with sigma^2 removed.
        def _own(a):
            return _mentions(a, "IN.player") and _mentions(a, "sigma") and (tj is None or _mentions(a, tj)) and not _fold_atom(a)

        with_own = {mono: coef for mono, coef in D.items() if any(_own(a) for a, _ in mono)}
        without = {mono: coef for mono, coef in D.items() if mono not in with_own}
        absorbed = False
        if with_own and without:
            R = {}
            okR = True
            for mono, coef in with_own.items():
                own_part = [(a, e) for a, e in mono if _own(a)]
                if len(own_part) != 1 or own_part[0][1] != 2:
                    okR = False
                    break
                R[tuple((a, e) for a, e in mono if not _own(a))] = coef
            if okR:
                cands = None
                for mono in without:
                    sq_atoms = {a for a, e in mono if e == 2 and isinstance(a, tuple) and a and a[0] == "param"}
                    cands = sq_atoms if cands is None else cands & sq_atoms
                for t in sorted(cands or (), key=repr):
                    E = {}
                    for mono, coef in without.items():
                        E[tuple((a, e) for a, e in mono if not (a == t and e == 2))] = coef
                    if E == R:
                        absorbed = True
                        break
        for mono, coef in (with_own if absorbed else D).items():
            own = [(a, e) for a, e in mono if isinstance(a, tuple) and a and a[0] == "sum" and _mentions(a, "sigma") and any(_mentions(a, str(x)) for x in [s0])]
            # the own (inflated) variance: an atom built from this player's prior sigma (and tau), total exponent 1
            own_atoms = [(a, e) for a, e in mono if _mentions(a, "IN.player") and _mentions(a, "sigma") and (tj is None or _mentions(a, tj)) and not _fold_atom(a)]
            tot = sum((e * (Fraction(1) if not (isinstance(a, tuple) and a[0] == "sum") else Fraction(2)) if False else e) for a, e in own_atoms)
            rest = [(a, e) for a, e in mono if (a, e) not in own_atoms]
            if not own_atoms:
                problems.append("a part of the step does not carry the player's own variance")
            if tj is not None and any(_mentions(a, tj) for a, _ in rest):
                problems.append("the step contains another player-dependent factor (the team-level quantity is recomputed per player or indexed by the player)")
        if not D:
            problems.append("the kernel does not change mu")
        inst("R5.1", "VIOLATED" if problems else "HOLDS", c, "; ".join(sorted(set(problems))) + (f": step = {show(D, 220)}" if problems else ""), {"step": show(D, 300)}, m, fn, ln)
    # ---------------------------------------------------------------- R5.2 per-branch sign (interval runs under assumed rank relations)
    lem: Dict[str, str] = {}
    failed_lemmas: set = set()
    family_signs: Dict[str, Dict[int, List]] = {}
    for rel in ("LT", "EQ", "GT"):
        seeds = [(q, i, frozenset({rel})) for (q, i) in info["pairs"]]
        pr = Probe(prog, seeds)
        try:
            ocr = _run(prog, roles, pr, box=Box(ranges=True, **BOXES["sigma>=1e-4,tau>=0"]), extra_setup=lambda w: install_lemmas(w, prog, roles, lem))
        except Exception as e:
            inst("R5.2", "UNDECIDED", f"relation {rel}", f"abstract evaluation failed: {type(e).__name__}: {e}")
            return out
        if ocr.undecided or not ocr.returned:
            inst("R5.2", "UNDECIDED", f"relation {rel}", "; ".join(ocr.undecided[:3]))
            return out
        failed_lemmas |= {f"{ev.data['name']}: {ev.data['why']}" for ev in ocr.I.events if ev.kind == "lemma-failed"}
        sites: Dict[int, List] = {}
        for i in pr.incs:
            if i["tag"] in info["omega_tags"] and i["op"] in ("Add", "Sub") and isinstance(i["rhs"], Num) and i["rhs"].rng is not None:
                r = i["rhs"].rng if i["op"] == "Add" else i["rhs"].rng.neg()
                cur = sites.get(id(i["node"]))
                sites[id(i["node"])] = [i["node"], r if cur is None else cur[1].join(r), i["func"]]
        family_signs[rel] = sites
    n_lt, n_gt = len(family_signs["LT"]), len(family_signs["GT"])
    softmax = n_gt == 0 and n_lt >= 2  # Plackett-Luce: nothing is exchanged with worse-placed teams, two kinds of stage terms otherwise
    if softmax:
        for rel in ("LT", "EQ"):
            signs = []
            for node, r, fn in family_signs[rel].values():
                signs.append("pos" if r.ge0() else "neg" if r.le0() else "mixed")
            ok = sorted(signs) == ["neg", "pos"]
            inst("R5.2", "HOLDS" if ok else ("UNDECIDED" if failed_lemmas else "VIOLATED"), f"own-stage term >= 0, other-stage term <= 0 (rank(q) {rel} rank(i))",
                 "" if ok else (f"[inconclusive: {sorted(failed_lemmas)[0]}] " if failed_lemmas else "") + f"the two stage terms have interval signs {signs}: {[(norm_text(n, 50), str(r)) for n, r, _ in family_signs[rel].values()]} — a team alone in first place could lose mu or a lower-placed stage could add mu",
                 {"ranges": [str(r) for _, r, _ in family_signs[rel].values()]})
    else:
        for rel, want in (("GT", "ge0"), ("LT", "le0")):
            if not family_signs[rel]:
                inst("R5.2", "VIOLATED", f"exchange against a {'worse' if rel == 'GT' else 'better'}-placed team", "no omega increment is made in this relation")
            for node, r, fn in family_signs[rel].values():
                ok = r.ge0() if want == "ge0" else r.le0()
                m_, _, qn = fn.partition("::")
                inst("R5.2", "HOLDS" if ok else ("UNDECIDED" if failed_lemmas else "VIOLATED"), f"omega increment against a {'worse' if rel == 'GT' else 'better'}-placed team is {'>= 0' if want == 'ge0' else '<= 0'}: {norm_text(node, 60)}",
                     "" if ok else (f"[inconclusive: {sorted(failed_lemmas)[0]}] " if failed_lemmas else "") + f"interval of the increment is {r}: beating a team can cost mu / losing can earn it (sign of a branch flipped or win/loss branches swapped)",
                     {"range": str(r)}, m_, qn, getattr(node, "lineno", 0))
    for k, why in lem.items():
        inst("R5.L", "ASSUMED", f"lemma {k}", why)
    return out


def _fold_atom(a) -> bool:
    return isinstance(a, tuple) and bool(a) and a[0] == "fold"


def run(prog: Program, rep: Report, tier: str = "quick") -> None:
    roles = prog.roles()
    rep.explanation = (
        "The stored mu is, in normal form, the same player's prior mu plus a step every monomial of which carries the player's own tau-inflated variance and otherwise only "
        "player-independent factors (team variance, the team-level accumulator numbered once per team): all members move in the direction of omega, in proportion to own variance. "
        "Interval runs under each assumed relation between the ranks of the updated team and the other team prove the sign of the omega increments: >= 0 against worse-placed, "
        "<= 0 against better-placed teams for the pairwise models (V >= 0 from C17, logistic in (0,1)); own-stage >= 0 and other-stage <= 0 for Plackett-Luce (lemmas L-PL, L-A)."
    )
    rep.rule_text = "per model: one mu-step shape obligation; one sign obligation per omega increment site and relation"
    rep.trust("abstract interpreter osv/ai (value numbering, intervals, assumed rank relations); osv/poly.py")
    rep.assume("input box of C08")
    rep.not_decided = ["loss <= draw <= win in two-team games", "the draw clause", "exchange monotonicity", "ordering of identical teams", "Plackett-Luce last-place clause (needs p_ii = 1 exactly)"]
    from .rankiso import iso_job

    for lst in parallel_map(_job, list(range(len(roles)))) + parallel_map(iso_job, [(i, "R5.3") for i in range(len(roles))]):
        for d in lst:
            rep.add(Instance(d["rule"], d["verdict"], d["module"], d["function"], d["construct"], d["line"], d.get("message", ""), d.get("detail", {})))
    n = len(roles)
    rep.floor("R5.1", n)
    rep.floor("R5.2", 2 * n)
    rep.floor("R5.3", 6 * n)
    from . import game

    game.add_instances(rep, game.c05_job, [(i, tier) for i in range(n)], "R5.4", 14 * n)
    from . import c01

    game.add_instances(rep, c01.closed_form_job, [(i, tier, "R5.5") for i in range(n)], "R5.5", 28 * n, counterpart_only=True)
    rep.arbitrate({"R5.2", "R5.3"}, "R5.5", "the mu step is the closed form's (its signs follow from the closed form)", lenient={"R5.2"})
    rep.supersede({"R5.2", "R5.3"}, "R5.5", "the mu step is the closed form's (its signs follow from the closed form)")
    rep.arbitrate({"R5.1"}, "R5.4", "members move in proportion to their own inflated variance")
    rep.supersede({"R5.1"}, "R5.4", "members move in proportion to their own inflated variance")
