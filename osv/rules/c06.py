"""C06 (stub while under construction): lemma installation shared with C08."""

from __future__ import annotations

from typing import Dict


def install_lemmas(w, prog, roles, lemmas: Dict[str, str]) -> None:
    return
