"""C06 (under construction): lemma installation shared with C08."""

from .lemmas import install_lemmas  # noqa: F401
