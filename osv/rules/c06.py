"""C06 — sigma stays positive, grows by at most tau per game, and limit_sigma caps it.

R6.2 the value stored before the update is sqrt(sigma^2 + tau^2) of the same player's prior sigma and the resolved
tau (one-line formula from the statement, compared in normal form); R6.1/R6.3 the posterior sigma stored by the
kernel is (that inflated value) x F with the interval of F inside (0, 1] — kappa floor below, delta >= 0 above;
R6.4 positivity and finiteness; R6.5 with limit_sigma in force every player's final sigma is <= its own prior
(order domain on the clamp); premise R17.1 (no cancelling CDF) for the Thurstone-Mosteller delta >= 0.
"""

from __future__ import annotations

from fractions import Fraction
from typing import Any, Dict, List, Optional

from ..ai.values import INF, Interval, Num, Ptr, short
from ..ai.world import Box
from ..frontend import Program, norm_text
from ..poly import p_add, p_atom, p_mul, p_pow, show, to_poly
from ..report import Instance, Report
from .harness import parallel_map, run_op, where
from .lemmas import install_lemmas

BOXES = {
    "sigma>=1e-4,tau>=0": dict(sigma=(1e-4, 10.0), tau=(0.0, 10.0)),
    "sigma>=0,tau>0": dict(sigma=(0.0, 10.0), tau=(0.0, 10.0), tau_open_lo=True),
}


def inflated_poly(idx, tau_atoms) -> List:
    """Candidates sqrt(sigma0^2 + T^2) for the admissible resolved-tau atoms T."""
    s0 = p_atom(("in", "IN.player", "sigma", idx))
    out = []
    for t in tau_atoms:
        T = p_atom(t)
        out.append((t, p_pow(p_add(p_mul(s0, s0), p_mul(T, T)), Fraction(1, 2))))
    return out


def _factors(sym):
    if sym is None:
        return []
    if sym[0] == "mul":
        return _factors(sym[1]) + _factors(sym[2])
    return [sym]


def _job(job) -> List[Dict[str, Any]]:
    idx, sel, tau_c, ls, boxname, gam = job
    prog = Program()
    roles = prog.roles()[idx]
    mod = roles.model.module.name
    entry = f"{roles.model.name}.rate"
    line = roles.model.lookup("rate").node.lineno
    case = f"{sel}, tau={tau_c}, limit_sigma={ls}, {boxname}, gamma={gam}"
    out: List[Dict[str, Any]] = []

    def inst(rule, verdict, construct, message="", detail=None, m=mod, fn=entry, ln=line):
        out.append(dict(rule=rule, verdict=verdict, module=m, function=fn, construct=construct, line=ln, message=message, detail=dict(detail or {}, case=case)))

    lem: Dict[str, str] = {}

    def setup(w):
        install_lemmas(w, prog, roles, lem)
        w.I.track_sym_ranges = True

    kw = {"tau": tau_c, "limit_sigma": ls}
    if ls == "model-truthy":
        # the cap is switched on at the model level and the call leaves the argument at None
        from ..ai.values import Bool

        kw["limit_sigma"] = "None"
        kw["model_overrides"] = {"limit_sigma": Bool(True, frozenset({"CTOR:limit_sigma"}), ("param", "model.limit_sigma"))}
    if sel != "none":
        kw[sel] = "list-of-mixed-int-float-bool"
    try:
        oc = run_op(prog, roles, "rate", box=Box(ranges=True, **BOXES[boxname]), custom_gamma=(gam == "callback"), setup=setup, **kw)
    except Exception as e:
        inst("R6.3", "UNDECIDED", case, f"abstract evaluation failed: {type(e).__name__}: {e}")
        return out
    if oc.undecided or not oc.returned:
        inst("R6.3", "UNDECIDED", case, "; ".join(oc.undecided[:3]) or "rate does not return")
        return out
    I = oc.I
    evs = I.events
    tau_atoms = [("param", "arg.tau")] if tau_c not in ("None", "omitted") else [("param", "model.tau"), ("call", "float", ("param", "model.tau"))]
    writes = [(i, ev) for i, ev in enumerate(evs) if ev.kind == "write" and ev.data["origin"] == "input:player" and ev.data["field"] == "sigma"]
    mu_first = next((i for i, ev in enumerate(evs) if ev.kind == "write" and ev.data["origin"] == "input:player" and ev.data["field"] == "mu"), None)
    failed_lemmas = sorted({f"{ev.data['name']}: {ev.data['why']}" for ev in evs if ev.kind == "lemma-failed"})
    if not writes or mu_first is None:
        inst("R6.3", "UNDECIDED", case, "no sigma/mu stores found")
        return out
    infl = [(i, ev) for i, ev in writes if i < mu_first]
    kern = [(i, ev) for i, ev in writes if i > mu_first and not any(t.endswith(":limit_sigma") for t in getattr(ev.data.get("val"), "prov", ()))]
    clamp = [(i, ev) for i, ev in writes if any(t.endswith(":limit_sigma") for t in getattr(ev.data.get("val"), "prov", ()))]
    # ---------------------------------------------------------------- R6.1 / R6.2 inflation before the update
    if not infl:
        inst("R6.1", "VIOLATED", f"inflation before the update ({case})", "no store to sigma precedes the update of mu: the prior variance is not inflated by tau before the update (or is inflated after it)")
    strong_infl = [i for i, ev in enumerate(evs) if ev.kind == "strong-update" and ev.data["loc"] == "IN.player" and ev.data["field"] == "sigma" and i < mu_first]
    for i, ev in infl[:1]:
        m, fn, ln = where(ev)
        v = ev.data["val"]
        tgt = ev.data["ptr"]
        got = to_poly(v.sym) if isinstance(v, Num) else None
        cands = inflated_poly(tgt.idx, tau_atoms)
        ok = got is not None and any(got == c for _, c in cands)
        inst("R6.2", "HOLDS" if ok else "VIOLATED", f"inflation: {norm_text(ev.node, 80)}",
             "" if ok else f"the value stored before the update is {show(got, 220)}, not sqrt(sigma^2 + tau^2) of the same player's sigma and the resolved tau: the per-game growth bound of the statement does not hold",
             {"term": show(got, 200)}, m, fn, ln)
        full = bool(strong_infl)
        inst("R6.1", "HOLDS" if full else "VIOLATED", f"every passed rating is inflated before the update ({case})",
             "" if full else "the inflation store is not an unconditional full traversal of all teams and players preceding the update (conditional, partial, or after the kernel)", {}, m, fn, ln)
    # ---------------------------------------------------------------- R6.3 / R6.4 the kernel multiplies by a factor in (0, 1]
    if not kern:
        inst("R6.3", "VIOLATED", f"posterior sigma ({case})", "the update kernel stores no sigma")
    seen_nodes = set()
    for i, ev in kern:
        if id(ev.node) in seen_nodes:
            continue
        seen_nodes.add(id(ev.node))
        m, fn, ln = where(ev)
        v = ev.data["val"]
        tgt = ev.data["ptr"]
        c = f"posterior sigma = inflated sigma x F, F in (0, 1]: {norm_text(ev.node, 60)}"
        if not isinstance(v, Num) or v.sym is None:
            inst("R6.3", "UNDECIDED", c, f"the stored sigma has no symbolic term ({short(v)})", {}, m, fn, ln)
            continue
        facs = _factors(v.sym)
        cands = inflated_poly(tgt.idx, tau_atoms)
        base = [f for f in facs if any(to_poly(f) == cnd for _, cnd in cands)]
        rest = [f for f in facs if f not in base[:1]]
        if len(base) < 1:
            inst("R6.3", "VIOLATED", c, "the stored sigma is not a multiple of the same player's tau-inflated prior sigma "
                 f"(factors: {[show(to_poly(f), 80) for f in facs][:4]}): the update uses an un-inflated or another player's sigma", {}, m, fn, ln)
            continue
        F = Interval.point(1.0)
        unknown = False
        for f in rest:
            r = I.sym_rng.get(f)
            if r is None:
                unknown = True
                break
            F = F.mul(r)
        if unknown:
            inst("R6.3", "UNDECIDED", c, "no interval recorded for a factor of the stored sigma", {}, m, fn, ln)
            continue
        ok = F.gt0() and F.hi <= 1.0
        if ok:
            inst("R6.3", "HOLDS", c, "", {"F": str(F), "lemmas": sorted(lem)}, m, fn, ln)
        else:
            why = ("the factor can exceed 1 (delta < 0 possible, '1 +' instead of '1 -', or min instead of max)" if F.hi > 1.0 else "the factor can reach 0 or below (kappa floor missing)")
            inst("R6.3", "UNDECIDED" if failed_lemmas and F.hi > 1.0 else "VIOLATED", c,
                 f"interval of the variance factor F is {F}: {why}; the posterior sigma is not bounded by sqrt(prior^2 + tau^2)" + (f" [lemma not discharged: {failed_lemmas[0]}]" if failed_lemmas else ""),
                 {"F": str(F)}, m, fn, ln)
        okp = v.rng is not None and v.rng.gt0() and v.rng.finite()
        inst("R6.4", "HOLDS" if okp else ("UNDECIDED" if failed_lemmas else "VIOLATED"), f"posterior sigma is finite and > 0: {norm_text(ev.node, 60)}",
             "" if okp else f"interval of the stored sigma is {v.rng}", {"range": str(v.rng)}, m, fn, ln)
    # ---------------------------------------------------------------- R6.5 the clamp
    if ls in ("truthy", "model-truthy"):
        if not clamp:
            inst("R6.5", "VIOLATED", f"limit_sigma cap ({case})", "with limit_sigma in force no store caps the posterior sigma")
        first_clamp = min((i for i, _ in clamp), default=len(evs))
        covering = [i for i, ev in enumerate(evs) if ev.kind == "strong-update" and ev.data["loc"] == "IN.player" and ev.data["field"] == "sigma" and i > first_clamp]
        if clamp:
            inst("R6.5", "HOLDS" if covering else "VIOLATED", f"the cap visits every returned player ({case})",
                 "" if covering else "the capping stores are not an unconditional full traversal of all teams and players after the update (a team or player is skipped)")
        seen_nodes = set()
        for i, ev in clamp:
            if id(ev.node) in seen_nodes:
                continue
            seen_nodes.add(id(ev.node))
            m, fn, ln = where(ev)
            v = ev.data["val"]
            tgt = ev.data["ptr"]
            prior = ("in", "IN.player", "sigma", tgt.idx)
            rels = ev.data.get("rels") or {}
            ok = False
            why = ""
            if isinstance(v, Num) and v.sym is not None:
                if v.sym == prior:
                    ok = True
                else:
                    r = rels.get((v.sym, prior))
                    if r is None and (prior, v.sym) in rels:
                        r = frozenset({"LT": "GT", "GT": "LT", "EQ": "EQ", "UN": "UN"}[x] for x in rels[(prior, v.sym)])
                    ok = r is not None and r <= frozenset({"LT", "EQ"})
                    why = f"the stored value (term {show(to_poly(v.sym), 120)}) is not known to be <= the player's own prior sigma on this branch (relation {sorted(r) if r else 'unknown'})"
            inst("R6.5", "HOLDS" if ok else "VIOLATED", f"capped value <= own prior: {norm_text(ev.node, 70)}",
                 "" if ok else (why or "the capped value has no symbolic term") + " — the cap compares against the wrong value (inflated or another player's) or the branches are swapped", {}, m, fn, ln)
    for k, why in lem.items():
        inst("R6.L", "ASSUMED", f"lemma {k}", why)
    return out


def run(prog: Program, rep: Report, tier: str = "quick") -> None:
    roles = prog.roles()
    rep.explanation = (
        "The per-call bound is decided from the shape and intervals of the stored terms: the value stored before the update is, in normal form, sqrt(sigma^2 + tau^2) of the same "
        "player's prior and the resolved tau, stored by an unconditional full traversal that precedes the update; the sigma stored by the kernel factors as that inflated value times "
        "F, and the interval analysis on the input box proves F in (0, 1] (kappa floor below; delta >= 0 above: by intervals for Bradley-Terry, with lemmas L-A/L-PL for Plackett-Luce, and for "
        "Thurstone-Mosteller with the interval facts w, wt >= 0 that hold for the non-cancelling CDF form decided by C17 R17.1); with limit_sigma in force every player's final sigma is, on each branch of the cap, "
        "either its own prior or a value the branch condition orders below it. The history clause follows by induction from the per-call bound."
    )
    rep.rule_text = "per model: {ranks, scores, none} x {tau None, given} x {limit_sigma on, off} x 2 boxes (+ abstract callback); one instance per stored-sigma site and rule"
    rep.assume("input box of C08; gamma callback result >= 0")
    rep.trust("abstract interpreter osv/ai (interval domain, value numbering, order domain); osv/poly.py for the one-line inflation formula")
    rep.not_decided = ["rounding in the last ulp of sigma_in x F", "w, wt <= 1 (only their lower bound is needed here)"]
    # premise: the CDF primitive has no cancelling form (otherwise A-W is known to be false, DESIGN §6 D4)
    from .c17 import run as c17_run
    from ..report import Report as _R

    sub = _R("C17", tier, "other")
    try:
        c17_run(prog, sub, tier)
        bad = [i for i in sub.instances if i.rule == "R17.1" and i.verdict == "VIOLATED"]
        for i in bad:
            rep.violated("R6.3p", module=i.module, function=i.function, construct=i.construct, line=i.line,
                         message="premise of delta >= 0 for the Thurstone-Mosteller models fails: " + i.message)
        if not bad:
            rep.holds("R6.3p", module="openskill.models.weng_lin.common", function="phi_major", construct="premise R17.1: the CDF primitive has no cancelling asymptote")
    except Exception as e:
        rep.undecided("R6.3p", module="openskill.models.weng_lin.common", function="phi_major", construct="premise R17.1", message=f"{type(e).__name__}: {e}")
    jobs = []
    for i in range(len(roles)):
        for sel in ("ranks", "scores", "none"):
            jobs.append((i, sel, "any", "truthy", "sigma>=1e-4,tau>=0", "default"))
        jobs.append((i, "ranks", "None", "falsy", "sigma>=1e-4,tau>=0", "default"))
        jobs.append((i, "ranks", "any", "model-truthy", "sigma>=1e-4,tau>=0", "default"))
        jobs.append((i, "ranks", "truthy", "truthy", "sigma>=0,tau>0", "default"))
        jobs.append((i, "ranks", "any", "falsy", "sigma>=1e-4,tau>=0", "callback"))
    seen = set()
    for lst in parallel_map(_job, jobs):
        for d in lst:
            key = (d["rule"], d["verdict"], d["module"], d["function"], d["construct"], d.get("model", ""))
            if key in seen:
                continue
            seen.add(key)
            rep.add(Instance(d["rule"], d["verdict"], d["module"], d["function"], d["construct"], d["line"], d.get("message", ""), d.get("detail", {})))
    n = len(roles)
    rep.floor("R6.1", n)
    rep.floor("R6.2", n)
    rep.floor("R6.3", n)
    rep.floor("R6.4", n)
    rep.floor("R6.5", 3 * n)
    from . import c01, game

    game.add_instances(rep, game.cap_job, [(i, tier, "R6.6") for i in range(n)], "R6.6", 5 * n)
    game.add_instances(rep, c01.closed_form_job, [(i, tier, "R6.7") for i in range(n)], "R6.7", 28 * n, counterpart_only=True)
    rep.arbitrate({"R6.5"}, "R6.6", "with limit_sigma every player's final sigma is at most its own prior")
    rep.arbitrate({"R6.1", "R6.2", "R6.3", "R6.4"}, "R6.7", "the stored sigma is sqrt(sigma^2 + tau^2) x sqrt(max(1 - share x delta, kappa)) of the closed form", lenient={"R6.3", "R6.4"})
    rep.supersede({"R6.5"}, "R6.6", "with limit_sigma every player's final sigma is at most its own prior")
    rep.supersede({"R6.1", "R6.2", "R6.3", "R6.4"}, "R6.7", "the stored sigma is the closed form's")
