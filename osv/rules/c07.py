"""C07 — no rating inflation: the precision-weighted mu change sums to zero over a game.

The statement is a floating-point identity; what makes it true is a relation between parts of the program:
each pairwise exchange is antisymmetric under exchanging the two teams (R7.A: the omega increment of team i
against q, divided by team i's variance, is the negation of the mirrored increment of q against i — symmetric
scale, complementary score table / logistic expectation / mirrored Gaussian correction), the callback never
reaches omega (R7.5), and for Plackett-Luce the normaliser is summed over exactly the set it is applied to
(R7.7), with the same exponential (R7.9) and one tie divisor per normaliser (R7.8).
"""

from __future__ import annotations

import ast
from dataclasses import replace
from typing import Any, Dict, List, Optional, Set, Tuple

from ..ai.domains import rels_for
from ..ai.values import STAR, Num, Ptr, ivar, map_sym_indices, short, sym_index_vars
from ..frontend import AnalysisError, Program, norm_text
from ..poly import p_add, p_const, p_mul, p_neg, show, to_poly
from ..report import Instance, Report
from .c09 import _heads
from .harness import parallel_map, run_op, valeq_instances, where
from .symm import find_calls

FLIP = {"LT": "GT", "GT": "LT", "EQ": "EQ"}
CORRECTIONS = ("v", "w", "vt", "wt", "phi_major", "phi_minor")


def in_kernel(stack) -> bool:
    """The event happened inside the model's update kernel (the `_compute` method) or something it called."""
    return any(lbl.endswith("._compute") or "._compute.<locals>" in lbl for lbl in stack)


class Probe:
    """Hooks collecting accumulator increments, rank comparisons, share divisions and dict stores of the kernel."""

    def __init__(self, prog: Program, seed_rels: Optional[List[Tuple[Any, Any, frozenset]]] = None):
        self.prog = prog
        self.incs: List[Dict[str, Any]] = []
        self.cmps: List[Dict[str, Any]] = []
        self.shares: List[Dict[str, Any]] = []
        self.dict_sets: List[Dict[str, Any]] = []
        self.seed_rels = seed_rels or []

    def setup(self, w) -> None:
        I = w.I
        I.number_locals = True
        common = self.prog.modules.get(f"{self.prog.package}.models.weng_lin.common")
        if common is not None:
            I.opaque_funcs = {common.funcs[n].fq for n in CORRECTIONS if n in common.funcs}
        for a, b, rs in self.seed_rels:
            w.state.rel_set(a, b, rs)

        def aug(I, st, cur, rhs, v, state):
            if not isinstance(v, Num):
                return None
            tag = f"ACC:{I.cur_func().split('::')[-1]}:{ast.unparse(st.target)}"
            self.incs.append(dict(tag=tag, op=type(st.op).__name__, rhs=rhs, node=st, func=I.cur_func(), pc=state.pc, stack=I.cur_stack(), tokens=tuple(l.token for l in I.loops)))
            return replace(v, prov=v.prov | {tag})

        def compare(I, node, op, a, b):
            if a.sym is None or b.sym is None or a.sym == b.sym:
                return
            if (a.sym[0] in ("rd", "elem") and b.sym[0] == a.sym[0] and a.sym[1] == b.sym[1]) or (a.sym[0] == "opq" and b.sym[0] == "opq" and a.sym[1:3] == b.sym[1:3]):
                # two instances of the same per-team quantity (the rank) at different team positions
                self.cmps.append(dict(func=I.cur_func(), op=op, a=a.sym, b=b.sym, node=node, stack=I.cur_stack()))

        def arith(I, node, opname, a, b):
            if opname == "div" and a.sym is not None and b.sym is not None:
                self.shares.append(dict(func=I.cur_func(), num=a.sym, den=b.sym, node=node, stack=I.cur_stack()))

        def dict_index_key(I, node, p, key):
            pass

        I.hooks.update(aug=aug, compare=compare, arith=arith)


def _tokens(sym) -> Set[str]:
    s: Set[str] = set()
    sym_index_vars(sym, s)
    return {t for t in s if not t.startswith("$") and not t.startswith("k")}


def _index_terms(sym, out: Set) -> None:
    """Whole index terms (not just the tokens inside them) of the atoms of a term."""
    if sym is None or not isinstance(sym, tuple) or not sym:
        return
    k = sym[0]
    if k == "in":
        out.update(sym[3][:1])
    elif k == "elem":
        out.update(sym[2][:1] if sym[2] else ())
        out.add(sym[3])
    elif k == "rd":
        out.update(sym[2][:1])
    elif k == "idx":
        out.add(sym[1])
    elif k == "opq":
        # a numbered local of a loop body: its value at the iterations named by its tokens
        out.update(STAR if t == "*" else ivar(t) for t in sym[3])
    elif k in ("const", "param", "lenterm", "len"):
        return
    else:
        for a in sym[1:]:
            if isinstance(a, tuple):
                _index_terms(a, out)


def _swap_heads(sym, h1, h2):
    def fn(t):
        if t == h1:
            return h2
        if t == h2:
            return h1
        return None

    return map_sym_indices(sym, fn)


def _signed(inc) -> Any:
    s = inc["rhs"].sym if isinstance(inc["rhs"], Num) else None
    if s is None:
        return None
    return s if inc["op"] == "Add" else ("neg", s) if inc["op"] == "Sub" else None


def _run(prog, roles, probe: Probe, box=None, extra_setup=None, custom_gamma=True):
    def setup(w):
        probe.setup(w)
        if extra_setup is not None:
            extra_setup(w)

    return run_op(prog, roles, "rate", ranks="list-of-int", tau="any", limit_sigma="falsy", custom_gamma=custom_gamma, setup=setup, box=box)


def _canon_folds(s, depth: int = 0):
    """Bound variables of folds renamed by nesting depth (their names carry the site of the reduction in the source)."""
    from ..ai.values import subst_sym

    if s is None or not isinstance(s, tuple) or not s:
        return s
    if s[0] == "fold":
        new = f"$F{depth}"
        body = _canon_folds(subst_sym(s[3], {s[2][1]: ivar(new)}), depth + 1)
        return ("fold", s[1], ("const", new), body) + tuple(_canon_folds(a, depth) if isinstance(a, tuple) else a for a in s[4:])
    if s[0] in ("in", "rd", "elem", "const", "param", "lenterm", "len", "idx", "opq"):
        return s
    return (s[0],) + tuple(_canon_folds(a, depth) if isinstance(a, tuple) else a for a in s[1:])


def exchange_terms(prog, roles):
    """The per-pair exchange of a pairwise kernel in a form that can be compared between models: for each assumed relation
    between rank(q) and rank(i), the normal forms of what one pair adds to the accumulator behind the mu update and to the one
    behind the sigma update (default gamma), with the updated team named $i and the other team $q.
    Returns ({rel: {"omega": poly, "delta": poly}}, None) or (None, reason)."""
    from ..ai.values import has_opq

    p0 = Probe(prog)
    oc = _run(prog, roles, p0, custom_gamma=False)
    info, why = discover(prog, roles, (p0, oc))
    if info is None:
        return None, why
    head_i = info["head_i"]
    out: Dict[str, Dict[str, Any]] = {}
    for rel in ("LT", "EQ", "GT"):
        pr = Probe(prog, [(q, i, frozenset({rel})) for (q, i) in info["pairs"]])
        ocr = _run(prog, roles, pr, custom_gamma=False)
        if ocr.undecided or not ocr.returned:
            return None, "; ".join(ocr.undecided[:3]) or "rate does not return"
        out[rel] = {}
        for kind, tags in (("omega", info["omega_tags"]), ("delta", info["delta_tags"])):
            incs = {}
            for i in pr.incs:
                if i["tag"] in tags and i["op"] in ("Add", "Sub") and in_kernel(i["stack"]):
                    incs[id(i["node"])] = i
            total = ("const", 0)
            for i in incs.values():
                s = _signed(i)
                if s is None or has_opq(s):
                    return None, f"the {kind} increment `{norm_text(i['node'], 60)}` has no closed symbolic term under rank(q) {rel} rank(i)"
                total = ("add", total, s)
            hs: Set = set()
            _heads(total, hs)
            others = {h for h in hs if h != head_i}
            if len(others) > 1:
                return None, f"more than one other team in the {kind} term: {sorted(map(str, others))}"

            def fn(t, head_i=head_i, others=others):
                return ivar("$i") if t == head_i else ivar("$q") if t in others else None

            p = to_poly(_canon_folds(map_sym_indices(total, fn)))
            if p is None:
                return None, f"the {kind} term has no normal form"
            out[rel][kind] = p
    return out, None


def discover(prog, roles, have=None):
    """Discovery run: accumulator roles, the updated team's position, the kernel's rank comparisons.
    Returns (info dict, None) or (None, reason)."""
    if have is not None:
        p0, oc = have
    else:
        p0 = Probe(prog)
        oc = _run(prog, roles, p0)
    if oc.undecided or not oc.returned:
        return None, "; ".join(oc.undecided[:3]) or "rate does not return"
    I = oc.I
    mu_writes = [ev for ev in I.events if ev.kind == "write" and ev.data["origin"] == "input:player" and ev.data["field"] == "mu" and in_kernel(ev.stack)]
    sg_writes = [ev for ev in I.events if ev.kind == "write" and ev.data["origin"] == "input:player" and ev.data["field"] == "sigma" and in_kernel(ev.stack)]
    if not mu_writes:
        return None, "no store to a rating's mu found in the update kernel"
    mu_tags = {t for ev in mu_writes for t in getattr(ev.data["val"], "prov", ()) if t.startswith("ACC:")}
    sg_tags = {t for ev in sg_writes for t in getattr(ev.data["val"], "prov", ()) if t.startswith("ACC:")}
    tgt = mu_writes[0].data["ptr"]
    head_i = tgt.idx[0]
    ti = _tokens(("in", "x", "y", (head_i,)))
    if len(ti) != 1:
        return None, f"cannot identify the loop position of the updated team from {tgt}"
    ti = next(iter(ti))
    tj = tgt.idx[1][1] if tgt.idx[1][0] == "v" else None

    # team-level accumulators: incremented once per (updated team, other team) — under the updated team's loop, outside the
    # per-player loop — and flowing into the stores
    def team_level(tag):
        return any(i["tag"] == tag and in_kernel(i["stack"]) and ti in i["tokens"] and (tj is None or tj not in i["tokens"]) for i in p0.incs)

    omega_tags = {t for t in mu_tags if team_level(t)}
    delta_tags = {t for t in sg_tags - mu_tags if team_level(t)}
    if not omega_tags:
        return None, f"no team-level accumulator flows into the mu update (accumulators seen: {sorted(mu_tags)})"
    pairs = {}

    def _own(sym) -> bool:
        """The instance of the per-team quantity at the updated team itself: every position in it is exactly the token ti
        (a computed neighbour such as at(i - 1) mentions ti too, but is another team)."""
        terms: Set = set()
        _index_terms(sym, terms)
        return bool(terms) and all(t == ivar(ti) or (t[0] == "perm" and t[3] == ivar(ti)) for t in terms)

    for c in p0.cmps:
        if not in_kernel(c["stack"]):
            continue
        a_has, b_has = _own(c["a"]), _own(c["b"])
        if a_has == b_has:
            continue
        q_sym, i_sym = (c["b"], c["a"]) if a_has else (c["a"], c["b"])
        pairs[(q_sym, i_sym)] = True
    if not pairs:
        return None, "no comparison between the rank of the updated team and another team's rank found in the kernel"
    return dict(probe=p0, oc=oc, mu_writes=mu_writes, omega_tags=omega_tags, delta_tags=delta_tags, ti=ti, head_i=head_i, pairs=list(pairs), player_token=tgt.idx[1]), None


def _job(idx: int) -> List[Dict[str, Any]]:
    prog = Program()
    roles = prog.roles()[idx]
    mod = roles.model.module.name
    kern = roles.model.lookup("_compute")
    entry = f"{roles.model.name}._compute"
    line = kern.node.lineno if kern else 0
    out: List[Dict[str, Any]] = []

    def inst(rule, verdict, construct, message="", detail=None, m=mod, fn=entry, ln=line):
        out.append(dict(rule=rule, verdict=verdict, module=m, function=fn, construct=construct, line=ln, message=message, detail=detail or {}))

    # ---------------------------------------------------------------- discovery run
    try:
        info, why = discover(prog, roles)
    except Exception as e:
        info, why = None, f"abstract evaluation failed: {type(e).__name__}: {e}"
    if info is None:
        inst("R7.A", "UNDECIDED", "discovery", why)
        return out
    p0, oc, I = info["probe"], info["oc"], info["oc"].I
    mu_writes, omega_tags, delta_tags = info["mu_writes"], info["omega_tags"], info["delta_tags"]
    # ---- R7.5 the callback never reaches omega / mu
    bad = [ev for ev in mu_writes if any(t.startswith("CALLBACK") for t in getattr(ev.data["val"], "prov", ()))]
    if bad:
        ev = bad[0]
        m, fn, ln = where(ev)
        inst("R7.5", "VIOLATED", norm_text(ev.node, 90), "the gamma callback's value reaches the mu update: it depends on team i alone, so the exchange cannot be antisymmetric (mu is created or destroyed)", {}, m, fn, ln)
    else:
        inst("R7.5", "HOLDS", "the callback value flows into the variance step only", "", {"omega_accumulators": sorted(omega_tags), "delta_accumulators": sorted(delta_tags)})
    # ---- R7.6 mu is changed by the exchange only: no store to a passed rating's mu outside the kernel (e.g. in the cap)
    try:
        oc2 = run_op(prog, roles, "rate", ranks="list-of-int", tau="any", limit_sigma="truthy")
        ve = valeq_instances(oc2, "R7.10", "so a tied team with identical ratings is taken for the team itself (or a pair is dropped): what one team gains is no longer what the other loses")
        out.extend(ve)
        if not ve:
            inst("R7.10", "HOLDS", "teams are told apart by position, never by the value equality of their ratings")
        stray = [ev for ev in oc2.I.events if ev.kind == "write" and ev.data["origin"] == "input:player" and ev.data["field"] == "mu" and not in_kernel(ev.stack)]
        if oc2.undecided:
            inst("R7.6", "UNDECIDED", "mu is stored by the kernel only", "; ".join(oc2.undecided[:2]))
        elif stray:
            ev = stray[0]
            m, fn, ln = where(ev)
            inst("R7.6", "VIOLATED", norm_text(ev.node, 90), "a passed rating's mu is overwritten outside the update kernel (here with limit_sigma in force): the player loses or gains mu that no opponent gains or loses", {}, m, fn, ln)
        else:
            inst("R7.6", "HOLDS", "mu is stored by the kernel only (also with limit_sigma in force)")
    except Exception as e:
        inst("R7.6", "UNDECIDED", "mu is stored by the kernel only", f"{type(e).__name__}: {e}")
    ti, head_i = info["ti"], info["head_i"]
    kernel_pairs = {p_: True for p_ in info["pairs"]}
    # variance atom S(i): denominator of the member share (numerator = one summand of the fold in the denominator)
    S_i = None
    for sh in p0.shares:
        if not in_kernel(sh["stack"]):
            continue
        folds: List = []
        _find_folds(sh["den"], folds)
        for f in folds:
            var = f[2][1]
            toks = _tokens(sh["num"])
            for t in toks:
                from ..ai.values import subst_sym

                if subst_sym(f[3], {var: ivar(t)}) == sh["num"]:
                    S_i = sh["den"]
        if S_i is not None:
            break
    # ---------------------------------------------------------------- relation runs
    per_rel: Dict[str, List[Dict[str, Any]]] = {}
    for rel in ("LT", "EQ", "GT"):
        seeds = [(q, i, frozenset({rel})) for (q, i) in kernel_pairs]
        pr = Probe(prog, seeds)
        try:
            ocr = _run(prog, roles, pr)
        except Exception as e:
            inst("R7.A", "UNDECIDED", f"relation {rel}", f"abstract evaluation failed: {type(e).__name__}: {e}")
            return out
        if ocr.undecided or not ocr.returned:
            inst("R7.A", "UNDECIDED", f"relation {rel}", "; ".join(ocr.undecided[:3]))
            return out
        per_rel[rel] = pr.incs
        if rel == "EQ":
            pr_eq = pr
    family = None
    all_omega = [i for rel in per_rel for i in per_rel[rel] if i["tag"] in omega_tags]
    syms = [_signed(i) for i in all_omega]
    def has_call(name):
        for s in syms:
            c: List = []
            find_calls(s, lambda n: n == name, c)
            if c:
                return True
        return False
    if has_call("fn:v"):
        family = "thurstone-mosteller"
    elif any(_has_logistic(s) for s in syms):
        family = "bradley-terry"
    elif has_call("math.exp") or any(s is not None for s in syms):
        family = "plackett-luce"
    if family in ("bradley-terry", "thurstone-mosteller"):
        if S_i is None:
            inst("R7.A", "UNDECIDED", "team variance", "could not identify the team variance (denominator of the member share) in the kernel")
            return out
        W: Dict[str, Any] = {}
        heads_q: Set = set()
        for rel in ("LT", "EQ", "GT"):
            incs = {}
            for i in per_rel[rel]:
                if i["tag"] in omega_tags:
                    incs[id(i["node"])] = i  # last visit of each site
            total = None
            for i in incs.values():
                s = _signed(i)
                if s is None:
                    total = None
                    break
                total = s if total is None else ("add", total, s)
            if total is None and incs:
                inst("R7.A", "UNDECIDED", f"exchange term when rank(q) {rel} rank(i)", "the omega increment has no symbolic term in this relation (data-dependent branch inside the pair term)")
                return out
            W[rel] = ("div", total, S_i) if total is not None else ("const", 0)
            hs: Set = set()
            _heads(W[rel], hs)
            heads_q |= {h for h in hs if h != head_i}
        if len(heads_q) != 1:
            inst("R7.A", "UNDECIDED", "pair roles", f"expected exactly one other team in the pair term, found positions {sorted(map(str, heads_q))}")
            return out
        head_q = next(iter(heads_q))
        pairs = [("GT", "LT")] + ([("EQ", "EQ")] if family == "bradley-terry" else [])
        for r1, r2 in pairs:
            a = to_poly(W[r1])
            b = to_poly(_swap_heads(W[r2], head_i, head_q))
            c = f"exchange when q is ranked {'below' if r1 == 'GT' else 'level with'} i is antisymmetric"
            if a is None or b is None:
                inst("R7.A", "UNDECIDED", c, "no normal form")
                continue
            ok = p_add(a, b) == {}
            inst("R7.A", "HOLDS" if ok else "VIOLATED", c,
                 "" if ok else "the precision-weighted gain of team i against q is not the negation of the gain of q against i: "
                               f"W(i,q) = {show(a, 260)} ; W(q,i) mirrored = {show(b, 260)} — asymmetric scale c_iq, score table not summing to 1, expectation not complementary, or the "
                               "Gaussian correction not evaluated at the mirrored argument: mu is created or destroyed in every such exchange",
                 {"family": family})
        if family == "thurstone-mosteller":
            inst("R7.A", "ASSUMED", "tie exchange (V~)", "exempt as in the statement: up to the draw-margin term 2*kappa/c^2 per tied pair", {})
    elif family == "plackett-luce":
        _plackett_luce(prog, roles, p0, per_rel, omega_tags, ti, head_i, inst, I)
        # ---- R7.7f the normaliser and the tie count evaluated on every weak ordering of 2 and 3 ranks (osv/rules/sumq.py)
        from .sumq import helper_instances

        for n_ in (2, 3):
            for h, desc, verdict, msg in helper_instances(prog, roles, n_):
                fi_ = roles.model.lookup(h)
                inst("R7.7f", verdict, f"{h} on the ordering {desc}", msg + (" — the stage probabilities exp(mu_i/c)/sum_q[q] do not sum to 1 over the teams they are applied to (or the tie split is wrong): mu is created or destroyed"
                                                                     if verdict == "VIOLATED" else ""),
                     {}, fi_.module.name if fi_ else mod, fi_.qualname if fi_ else entry, fi_.node.lineno if fi_ else line)
    else:
        inst("R7.A", "UNDECIDED", "kernel family", "the pair term has none of the recognised shapes (logistic expectation, Gaussian correction, softmax)")
    return out


def _find_folds(sym, out: List, depth=0):
    if sym is None or not isinstance(sym, tuple) or not sym or depth > 60:
        return
    if sym[0] == "fold":
        out.append(sym)
        return
    if sym[0] in ("in", "rd", "elem", "const", "param", "lenterm", "len", "idx", "opq"):
        return
    for a in sym[1:]:
        if isinstance(a, tuple):
            _find_folds(a, out, depth + 1)


def _has_logistic(sym, depth=0) -> bool:
    from ..poly import _logistic_arg

    if sym is None or not isinstance(sym, tuple) or not sym or depth > 60:
        return False
    if sym[0] == "div" and _logistic_arg(sym) is not None:
        return True
    if sym[0] in ("in", "rd", "elem", "const", "param", "lenterm", "len", "idx", "opq"):
        return False
    return any(_has_logistic(a, depth + 1) for a in sym[1:] if isinstance(a, tuple))


def _plackett_luce(prog, roles, p0: Probe, per_rel, omega_tags, ti, head_i, inst, I) -> None:
    """R7.7 normaliser set = summation set, R7.8 tie split, R7.9 same exponential."""
    # exponential summands: kernel increments whose value is exp(.) of another team's data (not under the updated team's loop)
    summands = [i for i in p0.incs if in_kernel(i["stack"]) and i["tag"] not in omega_tags and ti not in i["tokens"] and isinstance(i["rhs"], Num)
                and i["rhs"].sym is not None and i["rhs"].sym[0] == "call" and i["rhs"].sym[1] == "math.exp"]
    if not summands:
        inst("R7.7", "UNDECIDED", "normaliser set = summation set", "no accumulation of exponentials into a normaliser found (idiom not recognised)")
        return
    ssym = summands[-1]["rhs"].sym
    sfunc = summands[-1]["func"]
    stag = summands[-1]["tag"]
    ts = _tokens(ssym)
    ts = next(iter(ts)) if len(ts) == 1 else None
    if ts is None:
        inst("R7.7", "UNDECIDED", "normaliser set = summation set", "cannot identify the contributing team of the summand")
        return
    fill_pairs = {}
    for c in p0.cmps:
        if c["func"] != sfunc:
            continue
        a_has, b_has = ts in _tokens(c["a"]), ts in _tokens(c["b"])
        if a_has == b_has:
            continue
        q_sym, s_sym = (c["b"], c["a"]) if a_has else (c["a"], c["b"])
        fill_pairs[(q_sym, s_sym)] = True
    if not fill_pairs:
        inst("R7.7", "UNDECIDED", "normaliser set = summation set", "no rank comparison guards the accumulation of the exponentials (idiom not recognised)")
        return
    # relation of the normaliser's team q to the other team, observed under each assumed relation:
    #   use[r]  : team i consumes normaliser q when rank(q) r rank(i)      (kernel runs, fill left undecided)
    #   fill[r] : team s contributes to normaliser q when rank(q) r rank(s) (runs with only the fill comparison assumed)
    use = {r: any(i["tag"] in omega_tags and i["op"] in ("Add", "Sub") for i in per_rel[r]) for r in ("LT", "EQ", "GT")}
    fill = {}
    for r in ("LT", "EQ", "GT"):
        pr = Probe(prog, [(q, s_, frozenset({r})) for (q, s_) in fill_pairs])
        try:
            _run(prog, roles, pr)
        except Exception as e:
            inst("R7.7", "UNDECIDED", "normaliser set = summation set", f"abstract evaluation failed: {type(e).__name__}: {e}")
            return
        fill[r] = any(i["tag"] == stag for i in pr.incs)
    ok = use == fill
    names = {"LT": "better placed than", "EQ": "tied with", "GT": "worse placed than"}
    inst("R7.7", "HOLDS" if ok else "VIOLATED", "normaliser set = summation set",
         "" if ok else "team s contributes its exponential to the normaliser of q when q is " + "/".join(names[r] for r in fill if fill[r]) + " s, but the normaliser of q is applied to team i when q is "
                       + "/".join(names[r] for r in use if use[r]) + " i: the softmax is normalised over a different set than it is summed over, so the stage probabilities do not sum to 1 and mu is not conserved",
         {"fill": {r: fill[r] for r in fill}, "use": {r: use[r] for r in use}})
    # --- R7.9 same exponential in numerator and summands
    num_syms = []
    for rel in per_rel:
        for i in per_rel[rel]:
            if i["tag"] in omega_tags:
                c: List = []
                find_calls(_signed(i), lambda n: n == "math.exp", c)
                num_syms.extend(c)
    if not num_syms:
        inst("R7.9", "UNDECIDED", "same exponential", "no exponential found in the omega increments")
    else:
        from ..ai.values import subst_sym

        want = to_poly(subst_sym(ssym, {ts: ivar("$team")}))
        okall = True
        for c in num_syms:
            got = to_poly(subst_sym(c, {ti: ivar("$team")}))
            if got != want:
                okall = False
                inst("R7.9", "VIOLATED", "numerator and summands use the same exponential",
                     f"team i's numerator {show(got, 200)} is not the expression summed into the normaliser {show(want, 200)} (different c or different argument): p_iq does not sum to 1 over the stage")
                break
        if okall:
            inst("R7.9", "HOLDS", "numerator and summands use the same exponential", "", {"summand": show(want, 200)})
    # --- R7.8 tie split: where q applies to i, the own-stage increment minus the other-stage increment equals 1/A for one A
    for rel in [r for r in ("LT", "EQ", "GT") if use[r]]:
        incs = {}
        for i in per_rel[rel]:
            if i["tag"] in omega_tags and i["op"] in ("Add", "Sub"):
                incs[id(i["node"])] = i
        vals = [to_poly(_signed(i)) for i in incs.values()]
        if len(vals) != 2 or any(v is None for v in vals):
            inst("R7.8", "UNDECIDED", f"tie split (rank(q) {rel} rank(i))", f"expected two omega increments (own stage / other stage), found {len(vals)} with symbolic terms")
            continue
        d1, d2 = p_add(vals[0], vals[1], -1), p_add(vals[1], vals[0], -1)
        ok = any(len(d) == 1 and list(d.values())[0] == 1 and all(e == -1 for _, e in list(d.keys())[0]) and len(list(d.keys())[0]) == 1 for d in (d1, d2))
        inst("R7.8", "HOLDS" if ok else "VIOLATED", f"own-stage and other-stage terms share one tie divisor (rank(q) {rel} rank(i))",
             "" if ok else f"(own-stage increment) - (other-stage increment) is {show(d1, 200)}, not 1/A_q for a single tie count: the +(1-p) and -p parts of a stage are divided by different counts")
    lem = [ev for ev in I.events if ev.kind == "lemma" and ev.data["name"] == "L-A"]
    inst("R7.8", "HOLDS" if lem else "UNDECIDED", "the tie count includes the team itself (reflexive count over the same list)", "" if lem else "lemma L-A was not discharged (idiom not recognised)")


def run(prog: Program, rep: Report, tier: str = "quick") -> None:
    roles = prog.roles()
    rep.explanation = (
        "Role-swap symmetry on value-numbered terms of the update kernel: the kernel is evaluated abstractly once per assumed relation between the ranks of the updated team i "
        "and the other team q (3-point order domain), the increments of the accumulator that flows into the mu update are collected (found by data flow, not by name), divided by "
        "team i's variance (the denominator of the member share), and the term for (i, q) under 'q below i' is compared with the negated, role-exchanged term under 'q above i' in "
        "polynomial normal form (logistic and Gaussian-correction calls kept as atoms with the identity L(z)+L(-z)=1). For Plackett-Luce the fill relation of the normaliser, the "
        "use relation in the kernel, the exponential and the tie divisor are compared. These are necessary conditions of the zero-sum identity; its floating-point residual is not decided."
    )
    rep.rule_text = "per model: callback confinement, antisymmetry per relation pair (pairwise models) or fill/use/exponential/tie-split agreement (Plackett-Luce)"
    rep.trust("abstract interpreter osv/ai (value numbering, assumed rank relations); osv/poly.py normal form; v, w, vt, wt, phi_major as uninterpreted functions")
    rep.not_decided = ["size of the floating-point residual", "symmetry of the neighbour relation built by _ladder_pairs (run-time list contents; test_ladder_pairs pins n <= 4)",
                       "Thurstone-Mosteller ties (exempt in the statement)"]
    for lst in parallel_map(_job, list(range(len(roles)))):
        for d in lst:
            rep.add(Instance(d["rule"], d["verdict"], d["module"], d["function"], d["construct"], d["line"], d.get("message", ""), d.get("detail", {})))
    n = len(roles)
    from . import game

    game.add_instances(rep, game.c07_job, [(i, tier) for i in range(n)], "R7.11", 28 * n)
    rep.arbitrate({"R7.A", "R7.1", "R7.2", "R7.3", "R7.4", "R7.6", "R7.7", "R7.7f", "R7.8", "R7.9"}, "R7.11", "the pairwise exchanges cancel / the softmax is normalised over the set it is summed over")
    rep.supersede({"R7.A", "R7.1", "R7.2", "R7.3", "R7.4", "R7.6", "R7.7", "R7.7f", "R7.8", "R7.9"}, "R7.11", "the pairwise exchanges cancel / the softmax is normalised over the set it is summed over")
    rep.floor("R7.5", n)
    rep.floor("R7.A", n - 1)
