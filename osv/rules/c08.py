"""C08 — totality: valid games give finite ratings and probabilities, never an arithmetic exception.

R8.1 every partial operation reachable from the four public operations (division, sqrt, non-integer power,
exp, inverse CDF, reduce/max of a possibly empty sequence) is inside its domain on the declared input box
(interval abstract interpretation, beta normalised to 1 by degree-0 invariance); R8.2 every number stored into
a rating or returned is finite.
"""

from __future__ import annotations

from typing import Any, Dict, List

from ..ai.values import Num, Ptr, Seq, TupleV, Union, Val, short
from ..ai.world import Box
from ..frontend import PUBLIC_OPS, Program, norm_text
from ..report import Instance, Report
from .c16 import _result_degs
from .harness import parallel_map, run_op, where

BOXES = {
    "sigma>=1e-4,tau>=0": dict(sigma=(1e-4, 10.0), tau=(0.0, 10.0)),
    "sigma>=0,tau>0": dict(sigma=(0.0, 10.0), tau=(0.0, 10.0), tau_open_lo=True),
}


def lemma_hooks(w, prog, roles, lemmas: Dict[str, str]):
    """Named lemmas supplied to the non-relational interval domain; each is discharged by a structural rule of C07."""
    return


def _job(job) -> List[Dict[str, Any]]:
    idx, op, variant, boxname = job[:4]
    split = job[4] if len(job) > 4 else None
    prog = Program()
    roles = prog.roles()[idx]
    mod = roles.model.module.name
    entry = f"{roles.model.name}.{op}"
    line = roles.model.lookup(op).node.lineno
    case = f"{variant}; {boxname}" + (f"; n={split[0]}, players={split[1]}" if split else "")
    out: List[Dict[str, Any]] = []

    def inst(rule, verdict, construct, message="", detail=None, m=mod, fn=entry, ln=line):
        out.append(dict(rule=rule, verdict=verdict, module=m, function=fn, construct=construct, line=ln, message=message, detail=dict(detail or {}, entry=entry, case=case)))

    box = Box(ranges=True, **BOXES[boxname])
    kw: Dict[str, Any] = {}
    if op == "rate":
        sel, gam = variant.split("/")
        kw = {"tau": "any" if boxname == "sigma>=1e-4,tau>=0" else "truthy", "limit_sigma": "any"}
        if boxname == "sigma>=0,tau>0":
            # sigma = 0 is valid when the tau in force is positive: here the per-call tau is > 0 while the model's own tau may be 0
            from ..ai.values import Interval, Num as _Num

            mt = box.num("tau", sym=("param", "model.tau"), prov=frozenset({"CTOR:tau"}))
            kw["model_overrides"] = {"tau": mt.with_(rng=Interval(0.0, mt.rng.hi, False, mt.rng.hi_open)) if mt.rng is not None else mt}
        if sel != "none":
            kw[sel] = "list-of-mixed-int-float-bool"
        custom = gam == "callback"
    else:
        custom = False
        kw = {"n": (2, 2) if variant == "n=2" else (3, 8)}
    if split is not None:
        kw["n"], kw["msize"] = split
    from .c06 import install_lemmas

    lem: Dict[str, str] = {}

    def setup(w):
        install_lemmas(w, prog, roles, lem)

    try:
        oc = run_op(prog, roles, op, box=box, custom_gamma=custom, setup=setup, **kw)
    except Exception as e:
        inst("R8.1", "UNDECIDED", case, f"abstract evaluation failed: {type(e).__name__}: {e}")
        return out
    if oc.undecided:
        inst("R8.1", "UNDECIDED", case, "; ".join(oc.undecided[:3]))
        return out
    if not oc.returned or oc.raises:
        ev = oc.raises[0] if oc.raises else None
        inst("R8.1", "VIOLATED", f"{op} returns normally ({case})", f"a valid game may raise {ev.data['exc'] if ev else '?'} at {where(ev)[1] if ev else '?'}:{where(ev)[2] if ev else 0}")
        return out
    I, st = oc.I, oc.world.state
    failed_lemmas = sorted({f"{ev.data['name']}: {ev.data['why']}" for ev in I.events if ev.kind == "lemma-failed"})
    for d in I.obligations.values():
        f = d["func"]
        m, _, qn = f.partition("::")
        c = f"{d['kind']}: {norm_text(d['node'], 80)}"
        if d["ok"]:
            inst("R8.1", "HOLDS", c, "", {"proof": d["info"].get("msg", ""), "visits": d["visits"]}, m, qn, getattr(d["node"], "lineno", 0))
        elif d.get("weak"):
            inst("R8.1", "UNDECIDED", c, f"reachable from {entry} ({case}): " + "; ".join(d["msgs"][:2]) + " [the value is read from a list whose elements are overwritten by index: "
                 "the placeholder and the final elements are joined, so the range may be an artefact of the analysis]", {}, m, qn, getattr(d["node"], "lineno", 0))
        else:
            inst("R8.1", "VIOLATED", c, f"reachable from {entry} ({case}): " + "; ".join(d["msgs"][:2]), {}, m, qn, getattr(d["node"], "lineno", 0))
    # ---- R8.2 finiteness
    if op == "rate":
        for ev in I.events:
            if ev.kind == "write" and ev.data["origin"] == "input:player" and ev.data["field"] in ("mu", "sigma"):
                v = ev.data.get("val")
                m, fn, ln = where(ev)
                ok = isinstance(v, Num) and v.rng is not None and v.rng.finite()
                inst("R8.2", "HOLDS" if ok else ("UNDECIDED" if failed_lemmas or I.widened or "WEAK" in getattr(v, "prov", ()) else "VIOLATED"), f"stored {ev.data['field']} is finite: {norm_text(ev.node, 60)}",
                     "" if ok else f"the interval analysis cannot bound the stored {ev.data['field']} ({getattr(v, 'rng', None)}) on the input box ({case}): silent overflow to inf/nan is possible"
                     + (f" [a relational lemma could not be discharged: {failed_lemmas[0]}]" if failed_lemmas else "")
                     + (" [a loop was closed by widening: the bound may be an artefact of the analysis]" if I.widened and not failed_lemmas else ""),
                     {"range": str(getattr(v, "rng", None))}, m, fn, ln)
    else:
        nums: List[Num] = []
        _result_degs(I, st, oc.result, nums)
        for v in nums:
            ok = v.rng is not None and v.rng.finite()
            inst("R8.2", "HOLDS" if ok else ("UNDECIDED" if I.widened else "VIOLATED"), f"returned numbers of {op} are finite ({variant})", "" if ok else f"the interval analysis gives {v.rng} for a returned number ({case})", {"range": str(v.rng)})
    for k, why in lem.items():
        inst("R8.L", "ASSUMED", f"lemma {k}", why)
    return out


def run(prog: Program, rep: Report, tier: str = "quick") -> None:
    roles = prog.roles()
    rep.explanation = (
        "Absence-of-run-time-errors analysis: an interval abstract interpretation of rate and the three predictions on the declared input box proves, at every "
        "partial-operation site (division, sqrt, non-integer power, exp, inverse CDF, reduce/max of a sequence), that the operand lies inside the operation's domain, "
        "and that every number stored into a rating or returned has finite bounds. Loops are interpreted with bounded iteration by the symbolic length ranges "
        "(2..8 teams, 1..16 players). beta is normalised to 1: by the degree typing of C16 every argument of exp/Phi/Phi^-1 has degree 0."
    )
    rep.rule_text = "per model: rate x {ranks, scores, none} x {default gamma, abstract callback} x 2 boxes, 3 predictions x {2, 3..8 teams}; one instance per partial-operation site and per stored/returned number"
    rep.assume("2..8 teams, 1..16 players, |mu| <= 20*beta, sigma in [1e-4*beta, 10*beta] (sigma = 0 only with tau > 0), tau in [0, 10*beta], kappa in (0, 1e-2], gamma callback result in [0, 1e6]")
    rep.assume("beta normalised to 1 (unit invariance of all degree-0 arguments: C16 R16.1; the Thurstone-Mosteller margins kappa/c are covered for every finite t >= 0 by C17)")
    rep.trust("abstract interpreter osv/ai interval domain over the reals (rounding not modelled; bounds have orders of magnitude of slack)")
    rep.not_decided = ["IndexError/KeyError (not in the statement's list)", "exceptions raised by the user's callback"]
    jobs = []
    for i in range(len(roles)):
        for b in BOXES:
            for sel in ("ranks", "scores", "none"):
                jobs.append((i, "rate", f"{sel}/default", b))
            jobs.append((i, "rate", "ranks/callback", b))
        for op in PUBLIC_OPS:
            if op != "rate":
                jobs.append((i, op, "n=2", "sigma>=1e-4,tau>=0"))
                jobs.append((i, op, "n>=3", "sigma>=1e-4,tau>=0"))
    if tier == "thorough":
        # finer partition of the box: exact team counts and team-size bands (tighter intervals, same obligations)
        for i in range(len(roles)):
            for nn in ((2, 2), (3, 3), (4, 5), (6, 8)):
                for mm in ((1, 1), (2, 4), (5, 16)):
                    for b in BOXES:
                        jobs.append((i, "rate", "ranks/default", b, (nn, mm)))
                    for op in PUBLIC_OPS:
                        if op != "rate" and nn != (2, 2):
                            jobs.append((i, op, "n>=3", "sigma>=1e-4,tau>=0", (nn, mm)))
    rep.extra["abstract_runs"] = len(jobs)
    seen = set()
    for lst in parallel_map(_job, jobs):
        for d in lst:
            key = (d["rule"], d["verdict"], d["module"], d["function"], d["construct"], d.get("model", ""))
            if key in seen:
                continue
            seen.add(key)
            rep.add(Instance(d["rule"], d["verdict"], d["module"], d["function"], d["construct"], d["line"], d.get("message", ""), d.get("detail", {})))
    n = len(roles)
    rep.floor("R8.1", 35 * n)
    rep.floor("R8.2", 5 * n)
    from . import game

    game.add_instances(rep, game.returns_job, [(i, tier, "R8.3") for i in range(n)], "R8.3", 70 * n)
    import re as _re
    from . import c01, c12

    game.add_instances(rep, c12.closed_form_job, [(i, tier, "R8.4", ("predict_win", "predict_rank", "predict_draw")) for i in range(n)], "R8.4", 16 * n, counterpart_only=True)
    game.add_instances(rep, c01.closed_form_job, [(i, tier, "R8.5") for i in range(n)], "R8.5", 28 * n, counterpart_only=True)
    rep.arbitrate({"R8.2"}, "R8.4", "the predictions are the closed forms (bounded functions of the inputs)", pred=lambda i: "predict_" in i.construct or "predict_" in i.function)
    rep.arbitrate({"R8.2"}, "R8.5", "the stored ratings are the closed forms", pred=lambda i: "stored" in i.construct, lenient={"R8.2"})
    rep.arbitrate({"R8.1"}, "R8.5", "the stored ratings are the closed forms (their divisors are sums that contain a positive term)",
                  pred=lambda i: i.construct.startswith("div") and "divisor range [0, " in i.message and "predict_" not in i.message and not i.module.endswith(".common"), lenient={"R8.1"})
    rep.arbitrate({"R8.1"}, "R8.3", "valid games return normally",
                  pred=lambda i: " returns normally (" in i.construct and _re.search(r"may raise (IndexError|KeyError|AttributeError|TypeError|StopIteration|AssertionError)", i.message) is not None)
