"""C09 — predict_win returns a probability distribution that respects symmetry (narrow claim).

R9.1 the pair term for (a, b) plus the pair term for (b, a) is identically 1 (Phi at an antisymmetric
argument with a symmetric scale); R9.2 the scale is positive (interval domain); R9.3 the two-team form
returns p and 1 - p for the same p; R9.5 one value per team, in input order, summing exactly the pair terms
with that team first.
"""

from __future__ import annotations

from typing import Any, Dict, List

from ..ai.values import Num, Ptr, Seq, ivar, short
from ..ai.world import Box
from ..frontend import Program, norm_text
from ..poly import p_add, p_const, show, to_poly
from ..report import Instance, Report
from .harness import parallel_map, run_op, where, valeq_instances
from .symm import find_calls, is_cdf, swap_pair_roles

TEAMS_LEN = ("len", "IN.teams", ())


def opaque_setup(prog: Program):
    common = f"{prog.package}.models.weng_lin.common"

    def setup(w):
        mi = prog.modules.get(common)
        if mi is not None and "phi_major" in mi.funcs:
            w.I.opaque_funcs = {mi.funcs["phi_major"].fq}

    return setup


def _job(job) -> List[Dict[str, Any]]:
    idx, n = job
    prog = Program()
    roles = prog.roles()[idx]
    mod = roles.model.module.name
    m = roles.model.lookup("predict_win")
    entry = f"{roles.model.name}.predict_win"
    case = "2 teams" if n == (2, 2) else "3..8 teams"
    out: List[Dict[str, Any]] = []

    def inst(rule, verdict, construct, message="", detail=None, mm=mod, fn=entry, ln=m.node.lineno):
        out.append(dict(rule=rule, verdict=verdict, module=mm, function=fn, construct=construct, line=ln, message=message, detail=dict(detail or {}, case=case)))

    if f"{prog.package}.models.weng_lin.common" not in prog.modules or "phi_major" not in prog.modules[f"{prog.package}.models.weng_lin.common"].funcs:
        inst("R9.1", "UNDECIDED", "phi_major", "vanished anchor: the CDF primitive phi_major was not found")
        return out
    try:
        def setup(w, base=opaque_setup(prog)):
            base(w)
            w.I.track_sym_ranges = True  # signs of the mu-independent factors, for the monotonicity typing (R9.7)

        oc = run_op(prog, roles, "predict_win", n=n, box=Box(ranges=True, players=(1, 8)), setup=setup)
    except Exception as e:
        inst("R9.1", "UNDECIDED", case, f"abstract evaluation failed: {type(e).__name__}: {e}")
        return out
    if oc.undecided or not oc.returned or oc.raises:
        inst("R9.1", "UNDECIDED" if oc.undecided else "VIOLATED", case, "; ".join(oc.undecided[:3]) or f"predict_win does not return normally (raises {[e.data['exc'] for e in oc.raises]})")
        return out
    I, st = oc.I, oc.world.state
    res = oc.result
    # ---- R9.8 a prediction leaves the ratings alone (otherwise asking again, or asking for the permuted teams, gives another answer)
    wr = [ev for ev in oc.I.events if ev.kind == "write" and ev.data.get("origin") == "input:player"]
    if wr:
        ev = wr[0]
        mm_, fn_, ln_ = where(ev)
        inst("R9.8", "VIOLATED", norm_text(ev.node, 90), f"predict_win writes attribute '{ev.data['field']}' of a passed rating: the answer to the next (e.g. permuted) query on the same ratings is no longer "
             "the permutation of this one", {}, mm_, fn_, ln_)
    else:
        inst("R9.8", "HOLDS", f"predict_win writes no attribute of the passed ratings ({case})")
    # ---- R9.6 teams are positions, not values
    ve = valeq_instances(oc, "R9.6", "so identical teams do not get their pair terms (probabilities no longer sum to 1, two identical teams do not get one half each)")
    for d in ve:
        d["detail"] = dict(d["detail"], case=case)
    out.extend(ve)
    if ve:
        return out
    inst("R9.6", "HOLDS", f"no test on the value equality of teams or ratings ({case})")
    seq = I.list_seq(st, res) if isinstance(res, Ptr) else None
    if seq is None:
        inst("R9.5", "VIOLATED", f"result shape ({case})", f"predict_win returns {short(res)}, not a list")
        return out
    # ---- R9.2 scale positive / partial operations inside their domain
    for d in I.obligations.values():
        f = d["func"]
        mm, _, qn = f.partition("::")
        inst("R9.2", "HOLDS" if d["ok"] else ("UNDECIDED" if d.get("weak") else "VIOLATED"), f"{d['kind']}: {norm_text(d['node'], 80)} ({case})", "" if d["ok"] else "; ".join(d["msgs"]), {}, mm, qn, getattr(d["node"], "lineno", 0))
    if n == (2, 2):
        # ---- R9.3 two-team complement and R9.1 on the single pair
        if seq.fixed is None or len(seq.fixed) != 2 or not all(isinstance(x, Num) for x in seq.fixed):
            inst("R9.3", "VIOLATED", "two-team form returns [p, 1 - p]", f"the two-team result is {short(seq)}, not a list of two numbers")
            return out
        p0, p1 = seq.fixed
        a, b = to_poly(p0.sym), to_poly(p1.sym)
        if a is None or b is None:
            inst("R9.3", "UNDECIDED", "two-team form returns [p, 1 - p]", "the returned numbers have no symbolic term")
        else:
            ok = p_add(a, b) == p_const(1)
            inst("R9.3", "HOLDS" if ok else "VIOLATED", "two-team form returns [p, 1 - p]",
                 "" if ok else f"the two returned values are not p and 1 - p for the same p: {show(a, 160)}  and  {show(b, 160)}")
            _mono_two(I, p0, p1, inst)
            sw = to_poly(swap_pair_roles(p0.sym))
            ok2 = sw is not None and p_add(a, sw) == p_const(1)
            inst("R9.1", "HOLDS" if ok2 else "VIOLATED", "P(a beats b) + P(b beats a) == 1 (two teams)",
                 "" if ok2 else f"exchanging the two teams does not turn p into 1 - p: p = {show(a, 200)}; swapped = {show(sw, 200)} (asymmetric scale or non-antisymmetric margin)")
        return out
    # ---- n >= 3
    if seq.length.term != TEAMS_LEN:
        inst("R9.5", "VIOLATED", "one value per team", f"the result does not have one entry per team (length {seq.length.term} in [{seq.length.lo},{seq.length.hi}]): "
             "pair terms are not grouped into chunks of len(teams) - 1")
        return out
    el = seq.elem
    if not isinstance(el, Num) or el.sym is None:
        inst("R9.5", "UNDECIDED", "one value per team", f"the per-team value has no symbolic term ({short(el)})")
        return out
    calls: List = []
    find_calls(el.sym, is_cdf, calls)
    if not calls:
        inst("R9.1", "UNDECIDED", "pair term", "no Gaussian CDF call found in the per-team value (idiom not recognised)")
        return out
    K = ivar(seq.kvar)
    for c in calls:
        # alignment: the first role of every pair term summed at position k is team k itself, the second ranges over the others
        heads = set()
        _heads(c, heads)
        own = {h for h in heads if h == K}
        others = {h for h in heads if h[0] == "oth"}
        rest = heads - own - others
        ok = bool(own) and bool(others) and not rest
        inst("R9.5", "HOLDS" if ok else "VIOLATED", f"position k sums the pair terms with teams[k] first ({case})",
             "" if ok else f"the value at position k is not built from (teams[k], every other team): team positions used = {sorted(map(str, heads))}")
        # antisymmetry: map K -> pa, oth -> pb and swap
        from ..ai.values import map_sym_indices

        def to_pair(t, K=K):
            if t == K:
                return ("pa", ivar("$p"))
            if t[0] == "oth":
                return ("pb", ivar("$p"))
            return None

        _mono_many(I, el.sym, K, inst, case)
        t_ab = map_sym_indices(c, to_pair)
        pa_, pb_ = to_poly(t_ab), to_poly(swap_pair_roles(t_ab))
        ok1 = pa_ is not None and pb_ is not None and p_add(pa_, pb_) == p_const(1)
        inst("R9.1", "HOLDS" if ok1 else "VIOLATED", f"P(a beats b) + P(b beats a) == 1 ({case})",
             "" if ok1 else f"exchanging the two teams of a pair does not turn the pair term into its complement: term = {show(pa_, 220)}; swapped = {show(pb_, 220)} "
                            "(asymmetric scale or non-antisymmetric margin) — the probabilities cannot sum to 1 and identical teams do not get one half")
    return out


def _mu_of(head_test):
    return lambda a: a[0] == "in" and a[1] == "IN.player" and a[2] == "mu" and head_test(a[3][0])


_WORDS = {"+": "never falls", "-": "never rises", "0": "does not move", "?": "may move either way (no monotone structure found)"}


def _mono_two(I, p0, p1, inst):
    """R9.7 (two teams): raising a member's mu never lowers the own team's probability and never raises the other's."""
    from .mono import mono, sign_table

    sg = sign_table(I)
    for k, p in ((0, p0), (1, p1)):
        own = mono(p.sym, _mu_of(lambda h, k=k: h == ("c", k)), sg)
        oth = mono(p.sym, _mu_of(lambda h, k=k: h == ("c", 1 - k)), sg)
        ok = own in ("+", "0") and oth in ("-", "0") and (own, oth) != ("0", "0")
        inst("R9.7", "HOLDS" if ok else ("UNDECIDED" if "?" in (own, oth) and not ({own} & {"-"} or {oth} & {"+"}) else "VIOLATED"),
             f"monotone in mu: result[{k}] (two teams)",
             "" if ok else f"when the mu of a member of team {k} is raised result[{k}] {_WORDS[own]}; when a member of the other team is raised it {_WORDS[oth]} "
                           "(expected: never falls / never rises)", {"own": own, "other": oth})


def _mono_many(I, sym, K, inst, case):
    """R9.7 (3..8 teams): the value at position k never falls in the mu of team k's members and never rises in any other team's."""
    from .mono import mono, sign_table

    sg = sign_table(I)
    own = mono(sym, _mu_of(lambda h: h == K), sg)
    oth = mono(sym, _mu_of(lambda h: h[0] == "oth"), sg)
    ok = own == "+" and oth == "-"
    inst("R9.7", "HOLDS" if ok else ("UNDECIDED" if "?" in (own, oth) and own != "-" and oth != "+" else "VIOLATED"), f"monotone in mu: result[k] ({case})",
         "" if ok else f"when the mu of a member of team k is raised result[k] {_WORDS[own]}; when a member of another team is raised it {_WORDS[oth]} (expected: never falls / never rises)",
         {"own": own, "other": oth})


def _heads(sym, out: set, depth=0, bound=frozenset()):
    """Team positions a term refers to (first index of player atoms and of team-size lengths); variables bound by an
    enclosing fold over all teams are not positions of their own."""
    if sym is None or not isinstance(sym, tuple) or not sym or depth > 80:
        return

    def add(h):
        core = h
        while core[0] == "perm":
            core = core[3]  # a (sorted) image of a position bound by a fold over all teams is still "every team"
        if core[0] == "v" and core[1] in bound:
            return
        out.add(h)

    if sym[0] == "in" and sym[1] == "IN.player":
        add(sym[3][0])
        return
    if sym[0] == "lenterm":
        t = sym[1]
        if t and t[0] == "len" and t[1] == "IN.team":
            add(t[2][0])
        return
    if sym[0] == "fold":
        lt = sym[4][1] if isinstance(sym[4], tuple) and sym[4][0] == "lenterm" else None
        b2 = bound
        if lt == ("len", "IN.teams", ()):
            b2 = bound | {sym[2][1]}
        _heads(sym[3], out, depth + 1, b2)
        _heads(sym[4], out, depth + 1, bound)
        return
    if sym[0] in ("const", "param", "rd", "elem", "idx", "len", "opq"):
        return
    for a in sym[1:]:
        if isinstance(a, tuple):
            _heads(a, out, depth + 1, bound)


def run(prog: Program, rep: Report, tier: str = "quick") -> None:
    roles = prog.roles()
    rep.explanation = (
        "predict_win is evaluated abstractly with value numbering (phi_major kept as an uninterpreted CDF with Phi(z) + Phi(-z) = 1). The term for the ordered pair (a, b) "
        "and the same term with the two roles exchanged must sum to the constant 1 in the polynomial normal form — this holds exactly when the margin is antisymmetric and "
        "the scale symmetric; the two-team form must return p and 1 - p of the same p; for n > 2 the result has one entry per team in input order and entry k sums exactly the "
        "pair terms with teams[k] first (documented order of itertools.permutations + the k-chunk idiom); interval analysis proves the scale positive."
    )
    rep.rule_text = "per model x {2 teams, 3..8 teams}: antisymmetry, complement, alignment, one instance per partial-operation site"
    rep.trust("abstract interpreter osv/ai; osv/poly.py normal form with the complement identity for the CDF role; itertools.permutations order and k-chunk idiom (stdlib facts)")
    rep.not_decided = ["the normaliser count n(n-1)/2", "range [0,1] for n > 2", "exact equality under permutation (float re-association)",
                       "monotonicity up to rounding: R9.7 types the real-valued terms, not their float evaluation"]
    jobs = [(i, n) for i in range(len(roles)) for n in ((2, 2), (3, 8))]
    seen = set()
    for lst in parallel_map(_job, jobs):
        for d in lst:
            key = (d["rule"], d["verdict"], d["module"], d["function"], d["construct"], d.get("model", ""))
            if key in seen:
                continue
            seen.add(key)
            rep.add(Instance(d["rule"], d["verdict"], d["module"], d["function"], d["construct"], d["line"], d.get("message", ""), d.get("detail", {})))
    nn = len(roles)
    rep.floor("R9.1", 2 * nn)
    rep.floor("R9.2", 4 * nn)
    rep.floor("R9.3", nn)
    rep.floor("R9.5", nn)
    from . import game

    game.add_instances(rep, game.c09_job, [(i, tier) for i in range(nn)], "R9.9", 25 * nn)
    rep.arbitrate({"R9.1", "R9.3", "R9.5"}, "R9.9", "pair terms are complementary, one value per team in input order, two-team form p and 1 - p")
    rep.supersede({"R9.1", "R9.3", "R9.5"}, "R9.9", "pair terms are complementary, one value per team in input order, two-team form p and 1 - p")
