"""C10 — predict_draw is a probability, symmetric, largest for evenly matched teams (narrow claim).

R10.1 symmetric by construction: the returned value is a term built only from len(teams), commutative
folds over all teams / over all ordered pairs of teams / over all members of a team, model parameters and
constants — no constant position, slice, or loop position of teams or players occurs in it.
R10.2 non-negativity and well-definedness on the input box (interval domain).
"""

from __future__ import annotations

from typing import Any, Dict, List, Optional, Set

from ..ai.values import Num, short
from ..ai.world import Box
from ..frontend import Program, norm_text
from ..poly import to_poly
from ..report import Instance, Report
from .harness import parallel_map, run_op, valeq_instances, where

TEAMS_LEN = ("len", "IN.teams", ())


def _idx_ok(t, bound: Set[str]) -> bool:
    if t[0] == "v":
        return t[1] in bound
    if t[0] in ("pa", "pb"):
        return t[1][0] == "v" and t[1][1] in bound
    return False


def _lenterm_ok(t, bound: Set[str]) -> str:
    if t is None:
        return "a length that is not a whole input list"
    if t == TEAMS_LEN:
        return ""
    if t[0] == "pairs" and t[1] == TEAMS_LEN:
        return ""
    if t[0] == "upairs":
        return "unordered pairs (combinations): symmetric only if the per-pair term is symmetric"
    if t[0] == "len" and t[1] == "IN.team" and len(t[2]) == 1 and _idx_ok(t[2][0], bound):
        return ""
    if t[0] == "len" and t[1] == "IN.team":
        return f"the size of the team at a fixed or unknown position {t[2]}"
    return f"a partial or derived length {t}"


def symmetric_problems(sym, bound: Set[str], out: List[str], depth: int = 0) -> None:
    """Collect the reasons why `sym` is not manifestly a function of the multiset of teams."""
    if sym is None:
        out.append("a sub-term is not expressible (unknown value)")
        return
    if not isinstance(sym, tuple) or depth > 60:
        return
    k = sym[0]
    if k in ("const", "param"):
        return
    if k == "in":
        loc, fld, idx = sym[1], sym[2], sym[3]
        if loc == "IN.player":
            if not all(_idx_ok(i, bound) for i in idx):
                out.append(f"the {fld} of the player at a fixed, sliced or unknown position {tuple(_s(i) for i in idx)}")
        return
    if k == "idx":
        out.append("a loop position over teams/players enters the value")
        return
    if k == "lenterm":
        p = _lenterm_ok(sym[1], bound)
        if p:
            out.append(p)
        return
    if k == "fold":
        var = sym[2][1]
        p = _lenterm_ok(sym[4][1] if isinstance(sym[4], tuple) and sym[4][0] == "lenterm" else None, bound)
        if p:
            out.append("a fold over " + p)
        if sym[1][1] != "+":
            out.append(f"a non-additive fold ({sym[1][1]})")
        symmetric_problems(sym[3], bound | {var}, out, depth + 1)
        return
    if k in ("rd", "elem", "len"):
        out.append(f"?a value read from a list or object whose content is not expressed as a term ({k} {sym[1]})")
        return
    for a in sym[1:]:
        if isinstance(a, tuple):
            symmetric_problems(a, bound, out, depth + 1)


def _swap_team_consts(sym, i: int, j: int, depth: int = 0):
    """The term with the teams at the constant positions i and j exchanged (team slot of player atoms and of team sizes only)."""
    if not isinstance(sym, tuple) or not sym or depth > 90:
        return sym

    def sw(t):
        return ("c", j) if t == ("c", i) else ("c", i) if t == ("c", j) else t

    if sym[0] == "in" and sym[1] == "IN.player" and len(sym[3]) == 2:
        return ("in", sym[1], sym[2], (sw(sym[3][0]), sym[3][1]))
    if sym[0] == "len" and sym[1] == "IN.team" and len(sym[2]) == 1:
        return ("len", sym[1], (sw(sym[2][0]),))
    if sym[0] in ("const", "param"):
        return sym
    return tuple(_swap_team_consts(a, i, j, depth + 1) if isinstance(a, tuple) else a for a in sym)


def _const_team_heads(sym, out: Set, depth: int = 0, bound=frozenset()) -> None:
    """Team positions a term mentions, except the variables bound by an enclosing fold (those range over all teams)."""
    if not isinstance(sym, tuple) or not sym or depth > 90:
        return

    def add(h):
        if not (h[0] == "v" and h[1] in bound):
            out.add(h)

    if sym[0] == "in" and sym[1] == "IN.player" and len(sym[3]) == 2:
        add(sym[3][0])
        return
    if sym[0] == "len" and sym[1] == "IN.team" and len(sym[2]) == 1:
        add(sym[2][0])
        return
    if sym[0] in ("const", "param"):
        return
    if sym[0] == "fold" and len(sym) >= 5 and isinstance(sym[2], tuple) and sym[2][0] == "const":
        bound = bound | {sym[2][1]}
    for a in sym:
        if isinstance(a, tuple):
            _const_team_heads(a, out, depth + 1, bound)


def invariant_under_team_swaps(sym, n: int) -> Optional[bool]:
    """For an exact number n of teams spelled out at constant positions 0..n-1: is the term's normal form unchanged by every
    adjacent transposition of the teams (these generate all permutations)? None when the term is not of that shape."""
    heads: Set = set()
    _const_team_heads(sym, heads)
    if not heads or any(h[0] != "c" for h in heads) or {h[1] for h in heads} != set(range(n)):
        return None
    base = to_poly(sym)
    if base is None:
        return None
    for i in range(n - 1):
        sw = to_poly(_swap_team_consts(sym, i, i + 1))
        if sw is None:
            return None
        if sw != base:
            return False
    return True


def _s(i) -> str:
    from ..ai.values import index_str

    return index_str(i)


def _job(job) -> List[Dict[str, Any]]:
    idx, n = job
    prog = Program()
    roles = prog.roles()[idx]
    mod = roles.model.module.name
    m = roles.model.lookup("predict_draw")
    entry = f"{roles.model.name}.predict_draw"
    case = f"n in {n}"
    out: List[Dict[str, Any]] = []

    def inst(rule, verdict, construct, message="", detail=None, mm=mod, fn=entry, ln=m.node.lineno):
        out.append(dict(rule=rule, verdict=verdict, module=mm, function=fn, construct=construct, line=ln, message=message, detail=dict(detail or {}, case=case)))

    try:
        oc = run_op(prog, roles, "predict_draw", n=n, box=Box(ranges=True, degrees=False, players=(1, 8)))
    except Exception as e:
        inst("R10.1", "UNDECIDED", case, f"abstract evaluation failed: {type(e).__name__}: {e}")
        return out
    if oc.undecided or not oc.returned or oc.raises:
        inst("R10.1", "UNDECIDED" if oc.undecided else "VIOLATED", case, "; ".join(oc.undecided[:3]) or f"predict_draw does not return normally on a well-formed class (raises {[e.data['exc'] for e in oc.raises]})")
        return out
    res = oc.result
    # ---- R10.4 teams are positions, not values
    ve = valeq_instances(oc, "R10.4", "so which pairs contribute depends on coincidences between the teams' ratings, not only on the multiset of teams")
    for d in ve:
        d["detail"] = dict(d["detail"], case=case)
    out.extend(ve)
    if ve:
        return out
    inst("R10.4", "HOLDS", f"no test on the value equality of teams or ratings ({case})")
    if not isinstance(res, Num):
        inst("R10.1", "VIOLATED", case, f"predict_draw returns {short(res)}, not one number")
        return out
    # ---- R10.1
    cut = [ev for ev in oc.I.events if ev.kind == "fold" and "break" in ev.data["seq"].flags]
    if cut:
        ev = cut[0]
        m_, _, qn = ev.func.partition("::")
        inst("R10.1", "VIOLATED", f"symmetric by construction ({case})", "the enumeration of team pairs is cut short by a `break`: which pairs contribute depends on the order in which the teams are listed",
             {}, m_, qn, getattr(ev.node, "lineno", 0))
    elif res.sym is None:
        inst("R10.1", "UNDECIDED", f"symmetric by construction ({case})", "the returned value has no symbolic term (joined over paths or too large)")
    else:
        probs: List[str] = []
        symmetric_problems(res.sym, set(), probs)
        probs = sorted(set(probs))
        if probs and n[0] == n[1]:
            # an exact number of teams written out position by position (e.g. unrolled index loops): decide the symmetry itself
            inv = invariant_under_team_swaps(res.sym, n[0])
            if inv is True:
                probs = []
        # name constant-position subscripts of teams for the diagnosis
        unknown_only = bool(probs) and all(p.startswith("?") for p in probs)
        probs = [p.lstrip("?") for p in probs]
        inst("R10.1", ("UNDECIDED" if unknown_only else "VIOLATED") if probs else "HOLDS", f"symmetric by construction ({case})",
             ("the draw probability depends on " + "; ".join(probs[:4]) + " — it is not a function of the multiset of teams") if probs else "",
             {"term_size": _size(res.sym)})
    # ---- R10.2
    ok = res.rng is not None and res.rng.ge0() and res.rng.finite()
    inst("R10.2", "HOLDS" if ok else "VIOLATED", f"result is finite and >= 0 ({case})", "" if ok else f"the interval analysis gives {res.rng} for the draw probability", {"range": str(res.rng)})
    for d in oc.I.obligations.values():
        f = d["func"]
        mm, _, qn = f.partition("::")
        c = f"{d['kind']}: {norm_text(d['node'], 80)}"
        inst("R10.2", "HOLDS" if d["ok"] else ("UNDECIDED" if d.get("weak") else "VIOLATED"), c, "" if d["ok"] else "; ".join(d["msgs"]), {"site": d["info"].get("msg", "")}, mm, qn, getattr(d["node"], "lineno", 0))
    return out


def _size(s) -> int:
    from ..ai.values import sym_size

    return sym_size(s)


def run(prog: Program, rep: Report, tier: str = "quick") -> None:
    roles = prog.roles()
    rep.explanation = (
        "predict_draw is evaluated abstractly with value numbering; its returned term must be built only from len(teams), additive folds over all "
        "teams, over all ordered pairs of teams (itertools.permutations: closed under swapping the two roles) and over all members of a team, model "
        "parameters and constants. Then the value is a function of the multiset of teams and of each team's multiset of players, i.e. independent of "
        "the order of teams and players up to re-association of float sums. Interval analysis on the input box proves the result finite and >= 0 and "
        "every partial operation (sqrt, division, inverse CDF) inside its domain."
    )
    rep.rule_text = "per model x {2 teams, 3..8 teams}: one symmetric-term obligation, one range obligation, one per partial-operation site"
    rep.trust("abstract interpreter osv/ai (value numbering of folds; interval domain; NormalDist axioms)")
    rep.assume("2..8 teams of 1..8 players, |mu| <= 20*beta, 1e-4*beta <= sigma <= 10*beta, beta normalised to 1 (degree-0 arguments: C16)")
    rep.not_decided = ["the upper bound 1", "monotonicity in the mu gap", "equalising total mu never lowers it", "size of float re-association differences"]
    jobs = [(i, n) for i in range(len(roles)) for n in ((2, 2), (3, 8))]
    seen = set()
    for lst in parallel_map(_job, jobs):
        for d in lst:
            key = (d["rule"], d["verdict"], d["module"], d["function"], d["construct"], d.get("model", ""))
            if key in seen:
                continue
            seen.add(key)
            rep.add(Instance(d["rule"], d["verdict"], d["module"], d["function"], d["construct"], d["line"], d.get("message", ""), d.get("detail", {})))
    nn = len(roles)
    rep.floor("R10.1", 2 * nn)
    rep.floor("R10.2", 6 * nn)
    from . import game

    game.add_instances(rep, game.c10_job, [(i, tier) for i in range(nn)], "R10.5", 14 * nn)
    from . import c12

    game.add_instances(rep, c12.closed_form_job, [(i, tier, "R10.6", ("predict_draw",)) for i in range(nn)], "R10.6", 5 * nn, counterpart_only=True)
    rep.arbitrate({"R10.2"}, "R10.6", "predict_draw is the closed form (an average of band probabilities)")
    rep.arbitrate({"R10.1"}, "R10.5", "the value is a symmetric function of the teams and of each team's players")
    rep.supersede({"R10.1"}, "R10.5", "the value is a symmetric function of the teams and of each team's players")
