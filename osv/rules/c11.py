"""C11 — predict_rank agrees with its probabilities and complements predict_draw (narrow claim).

R11.1 predict_rank's pair term and predict_draw's two pair terms use the same margin and scale:
Phi((d - m)/S) against Phi((m - d)/S) - Phi((d - m)/S); R11.2 the two normalisers are in ratio 2;
R11.3 one (rank, probability) pair per team in input order, zipped in step.
"""

from __future__ import annotations

from typing import Any, Dict, List, Optional

from ..ai.values import Num, Ptr, Seq, TupleV, ivar, map_sym_indices, short
from ..ai.world import Box
from ..frontend import Program, norm_text
from ..poly import p_add, p_const, p_mul, p_neg, p_pow, show, to_poly
from ..report import Instance, Report
from .c09 import _heads, opaque_setup
from .harness import parallel_map, run_op, valeq_instances
from .symm import find_calls, is_cdf

from fractions import Fraction

TEAMS_LEN = ("len", "IN.teams", ())


def _strip(sym):
    """abs(x) -> x ; returns (numerator, divisor) of a top-level division, else (sym, None)."""
    while sym is not None and sym[0] == "abs":
        sym = sym[1]
    if sym is not None and sym[0] == "div":
        num = sym[1]
        while num is not None and num[0] == "abs":
            num = num[1]
        return num, sym[2]
    return sym, None


def _pairify(sym, K=None):
    def fn(t):
        if K is not None and t == K:
            return ("pa", ivar("$p"))
        if t[0] == "oth":
            return ("pb", ivar("$p"))
        if t[0] in ("pa", "pb") and t[1][0] == "v":
            return (t[0], ivar("$p"))
        return None

    return map_sym_indices(sym, fn)


def _job(idx: int) -> List[Dict[str, Any]]:
    prog = Program()
    roles = prog.roles()[idx]
    mod = roles.model.module.name
    mr = roles.model.lookup("predict_rank")
    entry = f"{roles.model.name}.predict_rank"
    out: List[Dict[str, Any]] = []

    def inst(rule, verdict, construct, message="", detail=None, mm=mod, fn=entry, ln=mr.node.lineno):
        out.append(dict(rule=rule, verdict=verdict, module=mm, function=fn, construct=construct, line=ln, message=message, detail=detail or {}))

    try:
        rk = run_op(prog, roles, "predict_rank", n=(3, 8), box=Box(ranges=True, players=(1, 8)), setup=opaque_setup(prog))
        dr = run_op(prog, roles, "predict_draw", n=(3, 8), box=Box(ranges=True, players=(1, 8)), setup=opaque_setup(prog))
        rk2 = run_op(prog, roles, "predict_rank", n=(2, 2), box=Box(ranges=True, players=(1, 8)), setup=opaque_setup(prog))
    except Exception as e:
        inst("R11.1", "UNDECIDED", "abstract evaluation", f"abstract evaluation failed: {type(e).__name__}: {e}")
        return out
    for oc, nm in ((rk, "predict_rank"), (dr, "predict_draw"), (rk2, "predict_rank (2 teams)")):
        if oc.undecided or not oc.returned or oc.raises:
            inst("R11.1", "UNDECIDED" if oc.undecided else "VIOLATED", nm, "; ".join(oc.undecided[:3]) or f"{nm} does not return normally (raises {[e.data['exc'] for e in oc.raises]})")
            return out
    # ---- R11.5 teams are positions, not values
    ve = valeq_instances(rk, "R11.5", "so identical teams lose pair terms and the identity predict_rank + predict_draw = 1 fails") + valeq_instances(rk2, "R11.5", "so identical teams lose pair terms")
    out.extend(ve)
    if ve:
        return out
    inst("R11.5", "HOLDS", "no test on the value equality of teams or ratings")
    # ---- R11.3 shape and alignment (both classes)
    for oc, case in ((rk, "3..8 teams"), (rk2, "2 teams")):
        I, st = oc.I, oc.world.state
        seq = I.list_seq(st, oc.result) if isinstance(oc.result, Ptr) else None
        if seq is None:
            inst("R11.3", "VIOLATED", f"result shape ({case})", f"predict_rank returns {short(oc.result)}, not a list")
            continue
        el = seq.elem
        problems = []
        if seq.length.term != TEAMS_LEN and not (case == "2 teams" and seq.length.known() == 2):
            problems.append(f"the result does not have one entry per team (length {seq.length.term})")
        if seq.flags & {"length-mismatch", "partial", "reordered", "cond-append", "multi-append"}:
            problems.append(f"ranks and probabilities are not zipped in step ({sorted(seq.flags)})")
        if not (isinstance(el, TupleV) and len(el.items) == 2 and all(isinstance(x, Num) for x in el.items)):
            problems.append(f"entries are {short(el)}, not (rank, probability) pairs")
        else:
            r_, p_ = el.items
            if "float" in (r_.kinds or {"float"}) and r_.kinds != frozenset({"int"}):
                problems.append(f"the rank component is not an integer ({short(r_)})")
            if p_.sym is not None:
                heads = set()
                _heads(p_.sym, heads)
                K = ivar(seq.kvar)
                if case != "2 teams" and not ({h for h in heads if h == K} and not {h for h in heads if h != K and h[0] != "oth"}):
                    problems.append(f"the probability at position k is not that of teams[k] (team positions used: {sorted(map(str, heads))})")
        inst("R11.3", "VIOLATED" if problems else "HOLDS", f"one (rank, probability) pair per team in input order ({case})", "; ".join(problems))
    # ---- R11.1 / R11.2 on 3..8 teams
    I, st = rk.I, rk.world.state
    seq = I.list_seq(st, rk.result) if isinstance(rk.result, Ptr) else None
    psym = seq.elem.items[1].sym if seq is not None and isinstance(seq.elem, TupleV) and len(seq.elem.items) == 2 and isinstance(seq.elem.items[1], Num) else None
    dsym = dr.result.sym if isinstance(dr.result, Num) else None
    if psym is None or dsym is None:
        inst("R11.1", "UNDECIDED", "shared margin and scale", "a returned probability has no symbolic term")
        return out
    rnum, rden = _strip(psym)
    dnum, dden = _strip(dsym)
    rc: List = []
    dc: List = []
    find_calls(rnum, is_cdf, rc)
    find_calls(dnum, is_cdf, dc)
    K = ivar(seq.kvar)
    if len(rc) != 1 or len(dc) != 2:
        inst("R11.1", "UNDECIDED", "shared margin and scale", f"expected one CDF term in predict_rank and two in predict_draw, found {len(rc)} and {len(dc)} (idiom not recognised)")
    else:
        er = to_poly(_pairify(rc[0][2], K))
        d1, d2 = (to_poly(_pairify(c[2])) for c in dc)
        if er is None or d1 is None or d2 is None:
            inst("R11.1", "UNDECIDED", "shared margin and scale", "a CDF argument has no normal form")
        else:
            ok = (d1 == er and d2 == p_neg(er)) or (d2 == er and d1 == p_neg(er))
            inst("R11.1", "HOLDS" if ok else "VIOLATED", "predict_rank and predict_draw share margin and scale",
                 "" if ok else "the pairwise argument of predict_rank is not +/- the two arguments of predict_draw (margin or variance term differs in one of the two functions): "
                               f"rank: {show(er, 200)} ; draw: {show(d1, 200)} / {show(d2, 200)} — rank probabilities plus draw probability no longer sum to 1",
                 {"rank_arg": show(er, 300)})
    if rden is None or dden is None:
        inst("R11.2", "UNDECIDED", "normalisers in ratio 2", "could not locate the two normalising divisions (idiom not recognised)")
    else:
        pr, pd = to_poly(rden), to_poly(dden)
        ok = pr is not None and pd is not None and bool(pr) and pd == p_mul(p_const(2), pr)
        inst("R11.2", "HOLDS" if ok else ("UNDECIDED" if pr is None or pd is None else "VIOLATED"), "predict_draw's divisor is twice predict_rank's",
             "" if ok else f"predict_draw divides by {show(pd)} and predict_rank by {show(pr)}: not in ratio 2, so rank probabilities plus draw probability do not sum to 1",
             {"draw_divisor": show(pd), "rank_divisor": show(pr)})
    return out


def run(prog: Program, rep: Report, tier: str = "quick") -> None:
    roles = prog.roles()
    rep.explanation = (
        "predict_rank and predict_draw are evaluated abstractly with value numbering; the argument of the CDF in predict_rank's pair term must be, in polynomial normal "
        "form, exactly one of predict_draw's two arguments and the negation of the other (same margin, same scale), and the divisor of predict_draw must be twice that of "
        "predict_rank: together these make sum(rank probabilities) + draw probability = 1 an identity. The result is one (int rank, probability) pair per team in input order."
    )
    rep.rule_text = "per model: margin/scale agreement, normaliser ratio, result shape for 2 and 3..8 teams"
    rep.trust("abstract interpreter osv/ai; osv/poly.py normal form; pair-chunking axiom; _rank_data returns a list positionally aligned with its argument (allocates [0]*len and assigns by index)")
    rep.not_decided = ["the competition-ranking logic of _rank_data and the reversal against the maximum (run-time ordering of floats)", "probabilities in [0, 1]"]
    for lst in parallel_map(_job, list(range(len(roles)))):
        for d in lst:
            rep.add(Instance(d["rule"], d["verdict"], d["module"], d["function"], d["construct"], d["line"], d.get("message", ""), d.get("detail", {})))
    n = len(roles)
    rep.floor("R11.1", n)
    rep.floor("R11.2", n)
    rep.floor("R11.3", 2 * n)
