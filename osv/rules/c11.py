"""C11 — predict_rank agrees with its probabilities and complements predict_draw (narrow claim).

R11.1 predict_rank's pair term and predict_draw's two pair terms use the same margin and scale:
Phi((d - m)/S) against Phi((m - d)/S) - Phi((d - m)/S); R11.2 the two normalisers are in ratio 2;
R11.3 one (rank, probability) pair per team in input order, zipped in step.
"""

from __future__ import annotations

from typing import Any, Dict, List, Optional

from ..ai.values import Num, Ptr, Seq, TupleV, ivar, map_sym_indices, short
from ..ai.world import Box
from ..frontend import Program, norm_text
from ..poly import p_add, p_const, p_mul, p_neg, p_pow, show, to_poly
from ..report import Instance, Report
from .c09 import _heads, opaque_setup
from .harness import parallel_map, run_op, valeq_instances
from .symm import find_calls, is_cdf

from fractions import Fraction

TEAMS_LEN = ("len", "IN.teams", ())


def _strip(sym):
    """abs(x) -> x ; returns (numerator, divisor) of a top-level division, else (sym, None)."""
    while sym is not None and sym[0] == "abs":
        sym = sym[1]
    if sym is not None and sym[0] == "div":
        num = sym[1]
        while num is not None and num[0] == "abs":
            num = num[1]
        return num, sym[2]
    return sym, None


def _pairify(sym, K=None):
    def fn(t):
        if K is not None and t == K:
            return ("pa", ivar("$p"))
        if t[0] == "oth":
            return ("pb", ivar("$p"))
        if t[0] in ("pa", "pb") and t[1][0] == "v":
            return (t[0], ivar("$p"))
        return None

    return map_sym_indices(sym, fn)


def _job(idx: int) -> List[Dict[str, Any]]:
    prog = Program()
    roles = prog.roles()[idx]
    mod = roles.model.module.name
    mr = roles.model.lookup("predict_rank")
    entry = f"{roles.model.name}.predict_rank"
    out: List[Dict[str, Any]] = []

    def inst(rule, verdict, construct, message="", detail=None, mm=mod, fn=entry, ln=mr.node.lineno):
        out.append(dict(rule=rule, verdict=verdict, module=mm, function=fn, construct=construct, line=ln, message=message, detail=detail or {}))

    try:
        rk = run_op(prog, roles, "predict_rank", n=(3, 8), box=Box(ranges=True, players=(1, 8)), setup=opaque_setup(prog))
        dr = run_op(prog, roles, "predict_draw", n=(3, 8), box=Box(ranges=True, players=(1, 8)), setup=opaque_setup(prog))
        rk2 = run_op(prog, roles, "predict_rank", n=(2, 2), box=Box(ranges=True, players=(1, 8)), setup=opaque_setup(prog))
    except Exception as e:
        inst("R11.1", "UNDECIDED", "abstract evaluation", f"abstract evaluation failed: {type(e).__name__}: {e}")
        return out
    for oc, nm in ((rk, "predict_rank"), (dr, "predict_draw"), (rk2, "predict_rank (2 teams)")):
        if oc.undecided or not oc.returned or oc.raises:
            inst("R11.1", "UNDECIDED" if oc.undecided else "VIOLATED", nm, "; ".join(oc.undecided[:3]) or f"{nm} does not return normally (raises {[e.data['exc'] for e in oc.raises]})")
            return out
    # ---- R11.5 teams are positions, not values
    ve = valeq_instances(rk, "R11.5", "so identical teams lose pair terms and the identity predict_rank + predict_draw = 1 fails") + valeq_instances(rk2, "R11.5", "so identical teams lose pair terms")
    out.extend(ve)
    if ve:
        return out
    inst("R11.5", "HOLDS", "no test on the value equality of teams or ratings")
    # ---- R11.3 shape and alignment (both classes)
    for oc, case in ((rk, "3..8 teams"), (rk2, "2 teams")):
        I, st = oc.I, oc.world.state
        seq = I.list_seq(st, oc.result) if isinstance(oc.result, Ptr) else None
        if seq is None:
            inst("R11.3", "VIOLATED", f"result shape ({case})", f"predict_rank returns {short(oc.result)}, not a list")
            continue
        el = seq.elem
        problems = []
        if seq.length.term != TEAMS_LEN and not (case == "2 teams" and seq.length.known() == 2):
            problems.append(f"the result does not have one entry per team (length {seq.length.term})")
        if seq.flags & {"length-mismatch", "partial", "reordered", "cond-append", "multi-append"}:
            problems.append(f"ranks and probabilities are not zipped in step ({sorted(seq.flags)})")
        if not (isinstance(el, TupleV) and len(el.items) == 2 and all(isinstance(x, Num) for x in el.items)):
            problems.append(f"entries are {short(el)}, not (rank, probability) pairs")
        else:
            r_, p_ = el.items
            if "float" in (r_.kinds or {"float"}) and r_.kinds != frozenset({"int"}):
                problems.append(f"the rank component is not an integer ({short(r_)})")
            if case == "2 teams":
                # ---- R11.6 with two teams there is one pair: the interval analysis bounds each probability by [0, 1]
                okr = p_.rng is not None and p_.rng.lo >= 0.0 and p_.rng.hi <= 1.0
                inst("R11.6", "HOLDS" if okr else "VIOLATED", "two teams: each returned probability lies in [0, 1]",
                     "" if okr else f"the interval analysis gives {p_.rng} for a two-team rank probability: the single pair term is not divided by the number of pairs (1)", {"range": str(p_.rng)})
            if p_.sym is not None:
                heads = set()
                _heads(p_.sym, heads)
                K = ivar(seq.kvar)
                if case != "2 teams" and not ({h for h in heads if h == K} and not {h for h in heads if h != K and h[0] != "oth"}):
                    problems.append(f"the probability at position k is not that of teams[k] (team positions used: {sorted(map(str, heads))})")
        inst("R11.3", "VIOLATED" if problems else "HOLDS", f"one (rank, probability) pair per team in input order ({case})", "; ".join(problems))
    # ---- R11.7 the ranks are computed from the very numbers that are returned (or a strictly monotone image of them)
    for oc, case in ((rk, "3..8 teams"), (rk2, "2 teams")):
        I, st = oc.I, oc.world.state
        seq = I.list_seq(st, oc.result) if isinstance(oc.result, Ptr) else None
        el = seq.elem if seq is not None else None
        if not (isinstance(el, TupleV) and len(el.items) == 2 and isinstance(el.items[1], Num)):
            continue
        calls = [ev for ev in I.events if ev.kind == "call" and ev.data["callee"].endswith("::_rank_data") and ev.data["args"]]
        if not calls:
            inst("R11.7", "UNDECIDED", f"ranks are computed from the returned probabilities ({case})", "vanished anchor: no call of _rank_data found in predict_rank")
            continue
        src = I.to_seq(calls[-1].data["args"][0], st, calls[-1].node)
        ret = el.items[1]
        se = src.elem if src is not None else None
        if src is not None and src.fixed is not None and seq.fixed is not None and len(src.fixed) == len(seq.fixed) and len(src.fixed) >= 1:
            # explicit lists (an exact number of teams written out): position by position
            pairs_ = [(a_, b_.items[1]) for a_, b_ in zip(src.fixed, seq.fixed) if isinstance(a_, Num) and isinstance(b_, TupleV) and len(b_.items) == 2 and isinstance(b_.items[1], Num)]
            if len(pairs_) == len(src.fixed) and all(a_.sym is not None and b_.sym is not None for a_, b_ in pairs_):
                same = all(to_poly(a_.sym) is not None and to_poly(a_.sym) == to_poly(b_.sym) for a_, b_ in pairs_)
                lossy_: List = []
                for a_, _ in pairs_:
                    find_calls(a_.sym, lambda n_: n_ in ("round", "int", "math.floor", "math.ceil", "math.trunc"), lossy_)
                inst("R11.7", "HOLDS" if same else ("VIOLATED" if lossy_ else "UNDECIDED"), f"ranks are computed from the returned probabilities ({case})",
                     "" if same else ("the numbers handed to the ranking are a rounded/truncated image of the probabilities that are returned" if lossy_ else "the ranked numbers are not the returned probabilities, position by position"))
                continue
        if not isinstance(se, Num) or se.sym is None or ret.sym is None:
            inst("R11.7", "UNDECIDED", f"ranks are computed from the returned probabilities ({case})", "the ranked or the returned numbers have no symbolic term")
            continue
        from ..ai.values import subst_sym

        a = to_poly(subst_sym(se.sym, {src.kvar: ivar("$pos")}))
        b = to_poly(subst_sym(ret.sym, {seq.kvar: ivar("$pos")}))
        ok = a is not None and b is not None and (a == b or a == p_neg(b))
        if not ok and a is not None and b is not None and a and b and set(a) == set(b):
            ratios = {a[m_] / b[m_] for m_ in b}
            ok = len(ratios) == 1 and ratios.pop() != 0  # a non-zero constant multiple
        lossy: List = []
        find_calls(se.sym, lambda n_: n_ in ("round", "int", "math.floor", "math.ceil", "math.trunc"), lossy)
        inst("R11.7", "HOLDS" if ok else ("VIOLATED" if lossy else "UNDECIDED"), f"ranks are computed from the returned probabilities ({case})",
             "" if ok else (f"the numbers handed to the ranking are a rounded/truncated image ({lossy[0][1]}) of the probabilities that are returned: two teams with different returned "
                            "probabilities can share a rank" if lossy else f"the ranked numbers {show(a, 160)} are not the returned probabilities {show(b, 160)} (nor a constant multiple)"))
    # ---- R11.1 / R11.2 on 3..8 teams
    I, st = rk.I, rk.world.state
    seq = I.list_seq(st, rk.result) if isinstance(rk.result, Ptr) else None
    psym = seq.elem.items[1].sym if seq is not None and isinstance(seq.elem, TupleV) and len(seq.elem.items) == 2 and isinstance(seq.elem.items[1], Num) else None
    dsym = dr.result.sym if isinstance(dr.result, Num) else None
    if psym is None or dsym is None:
        inst("R11.1", "UNDECIDED", "shared margin and scale", "a returned probability has no symbolic term")
        return out
    rnum, rden = _strip(psym)
    dnum, dden = _strip(dsym)
    rc: List = []
    dc: List = []
    find_calls(rnum, is_cdf, rc)
    find_calls(dnum, is_cdf, dc)
    K = ivar(seq.kvar)
    if len(rc) != 1 or len(dc) != 2:
        inst("R11.1", "UNDECIDED", "shared margin and scale", f"expected one CDF term in predict_rank and two in predict_draw, found {len(rc)} and {len(dc)} (idiom not recognised)")
    else:
        er = to_poly(_pairify(rc[0][2], K))
        d1, d2 = (to_poly(_pairify(c[2])) for c in dc)
        if er is None or d1 is None or d2 is None:
            inst("R11.1", "UNDECIDED", "shared margin and scale", "a CDF argument has no normal form")
        else:
            ok = (d1 == er and d2 == p_neg(er)) or (d2 == er and d1 == p_neg(er))
            inst("R11.1", "HOLDS" if ok else "VIOLATED", "predict_rank and predict_draw share margin and scale",
                 "" if ok else "the pairwise argument of predict_rank is not +/- the two arguments of predict_draw (margin or variance term differs in one of the two functions): "
                               f"rank: {show(er, 200)} ; draw: {show(d1, 200)} / {show(d2, 200)} — rank probabilities plus draw probability no longer sum to 1",
                 {"rank_arg": show(er, 300)})
    if rden is None or dden is None:
        inst("R11.2", "UNDECIDED", "normalisers in ratio 2", "could not locate the two normalising divisions (idiom not recognised)")
    else:
        pr, pd = to_poly(rden), to_poly(dden)
        ok = pr is not None and pd is not None and bool(pr) and pd == p_mul(p_const(2), pr)
        inst("R11.2", "HOLDS" if ok else ("UNDECIDED" if pr is None or pd is None else "VIOLATED"), "predict_draw's divisor is twice predict_rank's",
             "" if ok else f"predict_draw divides by {show(pd)} and predict_rank by {show(pr)}: not in ratio 2, so rank probabilities plus draw probability do not sum to 1",
             {"draw_divisor": show(pd), "rank_divisor": show(pr)})
    return out


def _weak_orderings(n: int):
    """All weak orderings of n items as tuples of dense levels (0 = smallest)."""
    import itertools

    seen = set()
    for t in itertools.product(range(n), repeat=n):
        lv = sorted(set(t))
        d = tuple(lv.index(x) for x in t)
        if d not in seen:
            seen.add(d)
            yield d


def _ranks_job(job) -> List[Dict[str, Any]]:
    """R11.4 the ranking clause on the finite set of orderings. The probabilities reach the ranks only through comparisons
    (sorting, tie detection), so for n teams the ranks are a function of the weak ordering of the n probabilities: for
    n = 2 and n = 3 every weak ordering (3 and 13) is assumed in turn (3-point order domain), the ranking code is evaluated
    on it — the sort becomes concrete, the tie scan runs on constants — and the resulting integers are compared with the
    statement: larger probability => strictly better rank, equal => equal, the most likely team has rank 1, ranks in 1..n."""
    idx, n = job
    prog = Program()
    roles = prog.roles()[idx]
    mod = roles.model.module.name
    mr = roles.model.lookup("predict_rank")
    entry = f"{roles.model.name}.predict_rank"
    out: List[Dict[str, Any]] = []

    def inst(verdict, construct, message="", detail=None):
        out.append(dict(rule="R11.4", verdict=verdict, module=mod, function=entry, construct=construct, line=mr.node.lineno, message=message, detail=detail or {}))

    from ..ai.values import FuncV, subst_val

    captured: Dict[str, Any] = {}

    def spell_out(I, fv, args, kwargs, node):
        fi = getattr(fv, "fi", None)
        if fi is None or fi.name != "_rank_data" or not args:
            return None
        st = I.hook_state
        sq = I.to_seq(args[0], st, node)
        conc = I.bi.concretise(sq, n) if sq is not None else None
        if conc is None:
            captured["fail"] = f"the ranked sequence is not known to have exactly {n} positions ({short(sq) if sq is not None else short(args[0])})"
            return None
        captured["items"] = conc.fixed
        return [I.new_list(st, list(conc.fixed), node)] + list(args[1:]), kwargs

    def run_with(rels):
        def setup(w):
            opaque_setup(prog)(w)
            w.I.hooks["call-args"] = spell_out
            for a, b, r in rels:
                w.state.rel_set(a, b, frozenset({r}))

        return run_op(prog, roles, "predict_rank", n=(n, n), box=Box(ranges=True, players=(1, 8)), setup=setup)

    try:
        run_with([])
    except Exception as e:
        inst("UNDECIDED", f"ranking on every weak ordering of {n} probabilities", f"abstract evaluation failed: {type(e).__name__}: {e}")
        return out
    items = captured.get("items")
    if items is None or not all(isinstance(x, Num) and x.sym is not None for x in items) or len({x.sym for x in items}) != n:
        inst("UNDECIDED", f"ranking on every weak ordering of {n} probabilities", captured.get("fail") or "vanished anchor: no call of _rank_data with symbolic per-team numbers found in predict_rank")
        return out
    syms = [x.sym for x in items]
    bad = 0
    total = 0
    for lv in _weak_orderings(n):
        total += 1
        rels = [(syms[i], syms[j], "LT" if lv[i] < lv[j] else "GT" if lv[i] > lv[j] else "EQ") for i in range(n) for j in range(i + 1, n)]
        desc = " , ".join(f"p{i}" + ("<" if lv[i] < lv[j] else ">" if lv[i] > lv[j] else "=") + f"p{j}" for i in range(n) for j in range(i + 1, n))
        try:
            oc = run_with(rels)
        except Exception as e:
            inst("UNDECIDED", f"ordering {desc}", f"abstract evaluation failed: {type(e).__name__}: {e}")
            continue
        if oc.undecided or not oc.returned or oc.raises:
            inst("UNDECIDED" if oc.undecided or not oc.raises else "VIOLATED", f"ordering {desc}", "; ".join(oc.undecided[:2]) or f"predict_rank does not return (raises {[e.data['exc'] for e in oc.raises]})")
            continue
        sq = oc.I.list_seq(oc.world.state, oc.result) if isinstance(oc.result, Ptr) else None
        ranks = None
        if sq is not None and sq.fixed is not None and len(sq.fixed) == n and all(isinstance(x, TupleV) and len(x.items) == 2 and isinstance(x.items[0], Num) for x in sq.fixed):
            ranks = [x.items[0].const for x in sq.fixed]
        if ranks is None or any(not isinstance(r, int) or isinstance(r, bool) for r in ranks):
            inst("UNDECIDED", f"ordering {desc}", f"the ranks are not constants under this ordering ({short(sq) if sq is not None else short(oc.result)})")
            continue
        problems = []
        for i in range(n):
            if not 1 <= ranks[i] <= n:
                problems.append(f"rank {ranks[i]} outside 1..{n}")
            for j in range(n):
                if lv[i] > lv[j] and not ranks[i] < ranks[j]:
                    problems.append(f"p{i} > p{j} but rank {ranks[i]} is not better than {ranks[j]}")
                if lv[i] == lv[j] and ranks[i] != ranks[j]:
                    problems.append(f"p{i} = p{j} but ranks {ranks[i]} != {ranks[j]}")
        top = [ranks[i] for i in range(n) if lv[i] == max(lv)]
        if any(r != 1 for r in top):
            problems.append(f"the most likely team has rank {top[0]}, not 1")
        if problems:
            bad += 1
            inst("VIOLATED", f"ordering {desc}", f"ranks {ranks}: " + "; ".join(sorted(set(problems))[:3]), {"ranks": ranks})
    if not out:
        inst("HOLDS", f"ranking is right on every weak ordering of {n} probabilities", "", {"orderings": total})
    return out


def run(prog: Program, rep: Report, tier: str = "quick") -> None:
    roles = prog.roles()
    rep.explanation = (
        "predict_rank and predict_draw are evaluated abstractly with value numbering; the argument of the CDF in predict_rank's pair term must be, in polynomial normal "
        "form, exactly one of predict_draw's two arguments and the negation of the other (same margin, same scale), and the divisor of predict_draw must be twice that of "
        "predict_rank: together these make sum(rank probabilities) + draw probability = 1 an identity. The result is one (int rank, probability) pair per team in input order."
    )
    rep.rule_text = "per model: margin/scale agreement, normaliser ratio, result shape for 2 and 3..8 teams"
    rep.trust("abstract interpreter osv/ai; osv/poly.py normal form; pair-chunking axiom; _rank_data returns a list positionally aligned with its argument (allocates [0]*len and assigns by index)")
    rep.not_decided = ["the ranking clause for more than 3 teams in the quick tier, more than 4 in the thorough tier (R11.4 enumerates the 3 + 13 (+ 75) weak orderings of 2, 3 (and 4) probabilities)",
                       "probabilities in [0, 1] for 3 or more teams (the two-team case is R11.6)"]
    for lst in parallel_map(_job, list(range(len(roles)))) + parallel_map(_ranks_job, [(i, n) for i in range(len(roles)) for n in ((2, 3, 4) if tier == "thorough" else (2, 3))]):
        for d in lst:
            rep.add(Instance(d["rule"], d["verdict"], d["module"], d["function"], d["construct"], d["line"], d.get("message", ""), d.get("detail", {})))
    n = len(roles)
    rep.floor("R11.1", n)
    rep.floor("R11.2", n)
    rep.floor("R11.3", 2 * n)
    from . import game

    game.add_instances(rep, game.c11_job, [(i, tier) for i in range(n)], "R11.8", 18 * n)
    game.add_instances(rep, game.c11_rank_job, [(i, tier) for i in range(n)], "R11.9", 16 * n)
    from . import c12

    game.add_instances(rep, c12.closed_form_job, [(i, tier, "R11.10", ("predict_rank",)) for i in range(n)], "R11.10", 5 * n, counterpart_only=True)
    rep.arbitrate({"R11.6"}, "R11.10", "the rank probabilities are the closed form (averages of CDF values)")
    rep.arbitrate({"R11.1", "R11.2", "R11.3"}, "R11.8", "rank probabilities and draw probability share margin, scale and normaliser; one pair per team in input order")
    rep.arbitrate({"R11.4", "R11.7"}, "R11.9", "ranks are computed from the returned probabilities and agree with their order")
    rep.supersede({"R11.1", "R11.2", "R11.3"}, "R11.8", "rank probabilities and draw probability share margin, scale and normaliser; one pair per team in input order")
    rep.supersede({"R11.4", "R11.7"}, "R11.9", "ranks are computed from the returned probabilities and agree with their order")
