"""C12 (narrow) — the predictions are the closed forms written in the statement, as functions of the inputs.

The statement spells its formulas out. For small explicit games (2..4 teams, one or two players per team) every prediction is
evaluated abstractly in the term domain (osv/rules/game.py: every player its own atoms, nothing executed) and the term the
operation returns is compared, in polynomial normal form with denominators cleared and Phi(z) + Phi(-z) = 1, with the term
built from the statement's text:

  two teams        predict_win  = [P, 1 - P],  P = Phi((M_a - M_b) / sqrt(N beta^2 + V_a + V_b)),  N = number of players
  n > 2 teams      predict_win[k] = sum over b != k of Phi((M_k - M_b) / sqrt(n beta^2 + V_k + V_b)) / (n (n - 1) / 2)
  n > 2 teams      predict_rank probability[k] = the same with M_k - M_b reduced by m = sqrt(N) beta Phi^-1((1 + 1/N) / 2)
  n > 2 teams      predict_draw = average over ordered pairs of Phi((m - d)/s) - Phi((-m - d)/s),  d = M_a - M_b
  two single players: predict_rank / predict_draw by the same forms with n = N = 2 (the plain sum for predict_draw)

(M = sum of the members' mu, V = sum of the members' sigma^2.) What is decided is *which function of the inputs* the code
computes on these games — the constants, which count multiplies beta^2, which normaliser divides, which sign the margin has.
Not decided: the 1e-9 floating-point agreement (rounding, the accuracy of Phi and Phi^-1 — C17), games of more than four teams.
Two-team predict_rank / predict_draw with more than one player per team are left out: the statement does not say whether the
"pairwise form" there is the two-team one (N beta^2) or the general one (n beta^2).
"""

from __future__ import annotations

from fractions import Fraction
from typing import Any, Dict, List, Optional

from ..frontend import Program
from ..poly import Poly, p_add, p_const, show, to_poly
from ..report import Instance, Report
from . import game
from .harness import parallel_map

PHI, PHI_INV = "fn:phi_major", "fn:phi_major_inverse"
KNOWN_CALLS = {PHI, PHI_INV, "math.sqrt"}


def _sum(terms):
    out = terms[0]
    for t in terms[1:]:
        out = ("add", out, t)
    return out


def _M(i, size):
    return _sum([game.mu_atom(i, j) for j in range(size)])


def _V(i, size):
    return _sum([("pow", game.sg_atom(i, j), ("const", 2)) for j in range(size)])


BETA = ("param", "model.beta")


def _scale(count, i, j, sizes):
    return ("call", "math.sqrt", ("add", ("add", ("mul", ("const", count), ("pow", BETA, ("const", 2))), _V(i, sizes[i])), _V(j, sizes[j])))


def _margin(N):
    # the probability handed to the inverse CDF is a float in the program too: evaluated the same way here; a last-digit
    # difference after a rewrite is absorbed by snap() below

    return ("mul", ("mul", ("call", "math.sqrt", ("const", N)), BETA), ("call", PHI_INV, ("const", (1 + 1 / N) / 2)))


def snap(x):
    """Float artefacts (fractions with a huge denominator) rounded to 11 significant digits, sorted tuples re-sorted."""
    if isinstance(x, Fraction):
        if x.denominator > 10**6:
            return Fraction(float(f"{float(x):.11g}")).limit_denominator(10**15)
        return x
    if isinstance(x, tuple):
        y = tuple(snap(e) for e in x)
        if len(x) > 1 and all(isinstance(e, tuple) for e in x) and tuple(sorted(x, key=repr)) == x:
            y = tuple(sorted(y, key=repr))
        return y
    return x


def snap_poly(p: Poly) -> Poly:
    out: Poly = {}
    for mono, c in p.items():
        m2 = snap(mono)
        c2 = snap(c)
        out[m2] = out.get(m2, Fraction(0)) + c2
    return {m: c for m, c in out.items() if c != 0}


def expected(op: str, sizes) -> Optional[Dict[Any, Any]]:
    """Statement terms: {team: term} for predict_win / predict_rank, {'draw': term} for predict_draw; None = not stated."""
    n = len(sizes)
    N = sum(sizes)
    if op == "predict_win":
        if n == 2:
            p = ("call", PHI, ("div", ("sub", _M(0, sizes[0]), _M(1, sizes[1])), _scale(N, 0, 1, sizes)))
            return {0: p, 1: ("sub", ("const", 1), p)}
        return {k: ("div", _sum([("call", PHI, ("div", ("sub", _M(k, sizes[k]), _M(b, sizes[b])), _scale(n, k, b, sizes))) for b in range(n) if b != k]), ("const", Fraction(n * (n - 1), 2)))
                for k in range(n)}
    if n == 2 and N != 2:
        return None
    m = _margin(N)
    if op == "predict_rank":
        return {k: ("div", _sum([("call", PHI, ("div", ("sub", ("sub", _M(k, sizes[k]), _M(b, sizes[b])), m), _scale(n, k, b, sizes))) for b in range(n) if b != k]), ("const", Fraction(n * (n - 1), 2)))
                for k in range(n)}
    if op == "predict_draw":
        pairs = []
        for a in range(n):
            for b in range(n):
                if a == b:
                    continue
                d = ("sub", _M(a, sizes[a]), _M(b, sizes[b]))
                s = _scale(n, a, b, sizes)
                pairs.append(("sub", ("call", PHI, ("div", ("sub", m, d), s)), ("call", PHI, ("div", ("sub", ("neg", m), d), s))))
        tot = _sum(pairs)
        return {"draw": tot if n == 2 else ("div", tot, ("const", n * (n - 1)))}
    return None


def _const_frac(sym):
    return sym


def _poly(term) -> Optional[Poly]:
    def fix(t):
        if isinstance(t, tuple) and t and t[0] == "const" and isinstance(t[1], Fraction):
            return t
        return t

    return to_poly(term)


def _calls_in(p: Poly, out: set) -> None:
    def walk(x):
        if isinstance(x, tuple):
            if len(x) >= 2 and x[0] == "call" and isinstance(x[1], str):
                out.add(x[1])
            for y in x:
                walk(y)

    for mono in p:
        walk(mono)


def _job(job) -> List[Dict[str, Any]]:
    idx, tier = job
    prog = Program()
    roles = prog.roles()[idx]
    out: List[Dict[str, Any]] = []
    for sizes in game._pred_sizes(tier):
        for op in ("predict_win", "predict_rank", "predict_draw"):
            want = expected(op, sizes)
            if want is None:
                continue
            rule = {"predict_win": "R12.1", "predict_rank": "R12.2", "predict_draw": "R12.3"}[op]
            c = f"{op} computes the statement's closed form: team sizes {sizes}"
            def term_fn(rels, _op=op, _sizes=sizes):
                amap, _ = game.equation_substitution(rels)
                if _op == "predict_win":
                    return game.win_terms(prog, roles, _sizes, atom_map=amap, rels=rels)
                if _op == "predict_rank":
                    return game.rank_terms(prog, roles, _sizes, atom_map=amap, rels=rels)
                d_, bad_ = game.draw_term(prog, roles, _sizes, atom_map=amap, rels=rels)
                return (None if d_ is None else {"draw": d_}), bad_

            try:
                leaves = game.case_split(term_fn)
            except Exception as e:  # noqa: BLE001
                leaves = [((), None, f"abstract evaluation failed: {type(e).__name__}: {e}")]
            verdict, msg = "HOLDS", ""
            for rels, got, bad in leaves:
                case = ("" if not rels else " [case " + ", ".join(f"{show(to_poly(a), 40)} {dict(LT='<', EQ='==', GT='>')[r]} {show(to_poly(b), 40)}" for a, b, r in rels) + "]")
                if got is None:
                    if isinstance(bad, tuple):
                        verdict, msg = "VIOLATED", bad[1] + case
                        break
                    if verdict == "HOLDS":
                        verdict, msg = "UNDECIDED", str(bad) + case
                    continue
                amap, unsolved = game.equation_substitution(rels)
                for k, term in want.items():
                    wp = to_poly(_fractions_to_consts(term), amap)
                    gp = got.get(k)
                    if wp is None or gp is None:
                        if verdict == "HOLDS":
                            verdict, msg = "UNDECIDED", "a term has no normal form" + case
                        break
                    diff = p_add(gp, wp, -1)
                    z = game.zero_up_to_abs(diff) if game._abs_atoms(diff) else game.is_zero(diff)
                    if z is not True:
                        d2 = p_add(snap_poly(gp), snap_poly(wp), -1)
                        z2 = game.zero_up_to_abs(d2) if game._abs_atoms(d2) else game.is_zero(d2)
                        if z2 is True:
                            z = True
                    if z is True:
                        continue
                    calls: set = set()
                    _calls_in(gp, calls)
                    foreign = sorted(x for x in calls if x not in KNOWN_CALLS)
                    if z is None or foreign or (PHI not in calls and gp) or unsolved:
                        if verdict == "HOLDS":
                            verdict = "UNDECIDED"
                            msg = ("the difference could not be normalised" if z is None else "an assumed equation could not be substituted" if unsolved else
                                   f"the code's term is built from functions the comparison does not know ({foreign or 'no Gaussian CDF call'}): not comparable with the statement's form") + case
                    else:
                        verdict = "VIOLATED"
                        who = "the value" if k == "draw" else f"the value for team {k}"
                        msg = f"{who} is not the statement's closed form{case}; code minus statement = {show(diff, 300)}"
                    break
                if verdict == "VIOLATED":
                    break
            out.append(game._inst(rule, verdict, roles, op, c, msg))
    return out


def closed_form_job(job) -> List[Dict[str, Any]]:
    """The same comparison under another rule id, optionally restricted to some operations (used by other checks as the exact
    small-game counterpart of an interval rule)."""
    idx, tier, rule, ops = job
    keep = {"predict_win": "R12.1", "predict_rank": "R12.2", "predict_draw": "R12.3"}
    full = game.budgeted(_job, (idx, tier), Program().digest())
    return [dict(d, rule=rule) for d in full if d["rule"] == "R?" or any(d["rule"] == keep[o] for o in ops)]


def _own_job(job) -> List[Dict[str, Any]]:
    return game.budgeted(_job, job, Program().digest())


def _fractions_to_consts(t):
    """('const', Fraction) -> a quotient of integer constants (to_poly reads ints and floats)."""
    if isinstance(t, tuple):
        if len(t) == 2 and t[0] == "const" and isinstance(t[1], Fraction):
            f = t[1]
            return ("const", f.numerator) if f.denominator == 1 else ("div", ("const", f.numerator), ("const", f.denominator))
        return tuple(_fractions_to_consts(x) for x in t)
    return t


def run(prog: Program, rep: Report, tier: str = "quick") -> None:
    roles = prog.roles()
    rep.explanation = (
        "Narrow claim. Each prediction is evaluated abstractly, in the term domain, on explicit games of 2, 3 and 4 teams with one or two players per team (every player its own "
        "atoms; nothing is executed), and the returned term is compared with the closed form that the statement itself spells out, in polynomial normal form with denominators cleared, "
        "Phi(z) + Phi(-z) = 1 by role, and every abs() read as either sign. Decides which function of the inputs the code computes on these games: which count multiplies beta^2 (N for two "
        "teams, n otherwise), the normaliser n(n-1)/2 resp. n(n-1) resp. 1, the draw margin and its sign. The 1e-9 numeric agreement (rounding, accuracy of Phi and Phi^-1) and games of more than four teams are not decided."
    )
    rep.rule_text = "per model x prediction x explicit game: normal form of the returned term == normal form of the statement's closed form"
    rep.trust("abstract interpreter osv/ai in explicit mode (osv/rules/game.py); osv/poly.py normal form; phi_major / phi_major_inverse as uninterpreted functions with Phi(z) + Phi(-z) = 1")
    rep.not_decided = ["agreement to 1e-9 absolute with a high-precision evaluation (floating-point rounding; accuracy of the CDF and its inverse)", "games of more than four teams or more than two players per team",
                       "predict_rank / predict_draw for two teams with more than one player each (the statement does not fix which pairwise form applies)"]
    for lst in parallel_map(_own_job, [(i, tier) for i in range(len(roles))]):
        for d in lst:
            rep.add(Instance(d["rule"], d["verdict"], d["module"], d["function"], d["construct"], d["line"], d.get("message", ""), d.get("detail", {})))
    n = len(roles)
    rep.floor("R12.1", 6 * n)
    rep.floor("R12.2", 5 * n)
    rep.floor("R12.3", 5 * n)
