"""C13 — malformed calls are rejected with TypeError/ValueError before any side effect.

R13.3 abstract evaluation of every public operation on every class of the malformed-argument
grammar (type-shape domain, existential 'one bad element at an unknown position' witnesses);
R13.1 no rejection after an effect; R13.2 exception classes; R13.4 own-class test.
"""

from __future__ import annotations

import ast
from typing import Any, Dict, List

from ..ai.world import NUMLIST_CLASSES, TEAMS_CLASSES
from ..callgraph import CallGraph
from ..frontend import PUBLIC_OPS, Program, norm_text
from ..report import Report
from .harness import Outcome, parallel_map, run_op, where

ALLOWED = ("TypeError", "ValueError")


THOROUGH = False


def _cases(prog: Program, roles) -> List[Dict[str, Any]]:
    cases: List[Dict[str, Any]] = []
    if THOROUGH:
        # deeper partition: exact team counts and team sizes for the well-formed classes, and malformed selectors on
        # every exact team count; malformed teams together with a well-formed selector
        for op in PUBLIC_OPS:
            for n in ((2, 2), (3, 3), (5, 5), (8, 8)):
                for m in ((1, 1), (2, 2), (16, 16)):
                    cases.append({"op": op, "teams": "teams:well-formed", "n": n, "m": m, "expect": "accept"})
        for n in ((2, 2), (3, 3), (8, 8)):
            for sel in ("ranks", "scores"):
                for name, status in NUMLIST_CLASSES:
                    cases.append({"op": "rate", "teams": "teams:well-formed", "n": n, sel: name, "expect": "reject" if status == "bad" else "accept"})
        for name, ok in TEAMS_CLASSES:
            if not ok:
                for sel in ("ranks", "scores"):
                    cases.append({"op": "rate", "teams": name, sel: "list-of-int", "expect": "reject"})
    others = [r for r in prog.roles() if r.model is not roles.model]
    for op in PUBLIC_OPS:
        for name, ok in TEAMS_CLASSES:
            cases.append({"op": op, "teams": name, "expect": "accept" if ok else "reject"})
        for o in others:
            cases.append({"op": op, "teams": f"teams:one-player-foreign-rating({o.rating.name})", "foreign": o.short, "expect": "reject"})
    for sel in ("ranks", "scores"):
        for name, status in NUMLIST_CLASSES:
            cases.append({"op": "rate", "teams": "teams:well-formed", sel: name, "expect": "reject" if status == "bad" else "accept"})
    both = [
        ("list-of-int", "list-of-float", "reject"),
        ("list-of-mixed-int-float-bool", "list-of-mixed-int-float-bool", "reject"),
        ("list-of-int", "empty-list", "accept"),
        ("empty-list", "list-of-int", "accept"),
        ("truthy-non-list(object)", "list-of-int", "reject"),
        ("list-of-int", "truthy-non-list(str)", "reject"),
        ("list-of-wrong-length", "list-of-int", "reject"),
        ("list-of-int", "list-with-one-non-number(str)", "reject"),
    ]
    for r, s, exp in both:
        cases.append({"op": "rate", "teams": "teams:well-formed", "ranks": r, "scores": s, "expect": exp})
    return cases


def _exc_ok(ev) -> bool:
    return any(a in ev.data.get("mro", ()) or ev.data["exc"] == a for a in ALLOWED)


NPARTS = 3


def _model_job(job) -> List[Dict[str, Any]]:
    global THOROUGH
    idx, part, THOROUGH = job
    prog = Program()
    roles = prog.roles()[idx]
    by_short = {r.short: r for r in prog.roles()}
    out: List[Dict[str, Any]] = []
    mod = roles.model.module.name
    entered: set = set()
    out.append(dict(rule="__entered__", verdict="", module="", function="", construct="", line=0, names=entered, model_idx=idx))
    for case in _cases(prog, roles)[part::NPARTS]:
        op = case["op"]
        kw = {k: case[k] for k in ("teams", "ranks", "scores", "n") if k in case}
        if "m" in case:
            kw["msize"] = case["m"]
        if case["expect"] == "accept":
            kw.update(tau="any", limit_sigma="any")
        foreign = by_short[case["foreign"]].rating if "foreign" in case else None
        label = ", ".join(f"{k}={v}" for k, v in case.items() if k not in ("expect", "foreign"))
        base = dict(module=mod, function=f"{roles.model.name}.{op}", construct=label, line=roles.model.lookup(op).node.lineno)
        try:
            oc = run_op(prog, roles, op, foreign=foreign, **kw)
            entered |= set(oc.I.functions_entered)
        except Exception as e:  # analysis failure on this case
            out.append(dict(base, rule="R13.3", verdict="UNDECIDED", message=f"abstract evaluation failed: {type(e).__name__}: {e}", detail={}))
            continue
        detail = {"case": {k: v for k, v in case.items() if k != "foreign"}, "outcome": oc.describe()["outcome"]}
        # ---- R13.1 / R13.2 on every rejection point met in this run
        for ev in oc.raises:
            m, fn, line = where(ev)
            ctext = norm_text(ev.node, 100) if isinstance(ev.node, ast.Raise) else f"implicit {ev.data['exc']} at: {norm_text(ev.node, 80)}"
            if ev.data.get("via"):
                ctext += "  [reached via " + ev.data["via"][-1] + "]"  # one rejection point per call site of a shared validator
            if ev.data["effects"]:
                eff = sorted(f"{o}.{f}" for o, f in ev.data["effects"])
                out.append(dict(rule="R13.1", verdict="VIOLATED", module=m, function=fn, construct=ctext, line=line,
                                message=f"{op}: this rejection is reachable after a side effect on {eff} (case {label})", detail={"effects": eff, "entry": f"{roles.model.name}.{op}"}))
            else:
                out.append(dict(rule="R13.1", verdict="HOLDS", module=m, function=fn, construct=ctext, line=line, message="", detail={"entry": f"{roles.model.name}.{op}"}))
            if case["expect"] == "reject" or not ev.data["implicit"]:
                if _exc_ok(ev):
                    out.append(dict(rule="R13.2", verdict="HOLDS", module=m, function=fn, construct=ctext, line=line, message="", detail={"exc": ev.data["exc"]}))
                else:
                    out.append(dict(rule="R13.2", verdict="VIOLATED", module=m, function=fn, construct=ctext, line=line,
                                    message=f"{op}: raises {ev.data['exc']} (not TypeError/ValueError) on case {label}", detail={"exc": ev.data["exc"]}))
        # ---- R13.3 outcome of the class
        if oc.undecided:
            out.append(dict(base, rule="R13.3", verdict="UNDECIDED", message="; ".join(oc.undecided[:3]), detail=detail))
            continue
        if case["expect"] == "reject":
            if oc.returned:
                missed = [e for e in oc.I.events if e.kind == "witness-missed"]
                why = "the validation does not visit every position (partial traversal / early exit)" if missed else "no check rejects it"
                out.append(dict(base, rule="R13.3", verdict="VIOLATED", message=f"malformed call is (or may be) accepted: {why}", detail=detail))
            elif not oc.raises:
                out.append(dict(base, rule="R13.3", verdict="UNDECIDED", message="no normal return and no raise recorded", detail=detail))
            else:
                out.append(dict(base, rule="R13.3", verdict="HOLDS", message="", detail=detail))
        else:
            bad = [e for e in oc.raises]
            if not oc.returned or bad:
                ev = bad[0] if bad else None
                msg = "well-formed call is (or may be) rejected"
                if ev is not None:
                    m, fn, line = where(ev)
                    msg += f" by {ev.data['exc']} at {fn}:{line}: {norm_text(ev.node, 80)}"
                out.append(dict(base, rule="R13.3", verdict="VIOLATED", message=msg, detail=detail))
            else:
                out.append(dict(base, rule="R13.3", verdict="HOLDS", message="", detail=detail))
        # ---- R13.4 own-class test (on the well-formed teams run)
        if case["expect"] == "accept" and "ranks" not in case and "scores" not in case:
            for ev in oc.I.events:
                if ev.kind != "isinstance":
                    continue
                v = ev.data["val"]
                from ..ai.values import ClassV, Ptr, TupleV

                if isinstance(v, Ptr) and v.loc == "IN.player":
                    cls = ev.data["cls"]
                    cl = list(cls.items) if isinstance(cls, TupleV) else [cls]
                    m, fn, line = where(ev)
                    okc = all(isinstance(c, ClassV) and c.ci is roles.rating for c in cl)
                    out.append(dict(rule="R13.4", verdict="HOLDS" if okc else "VIOLATED", module=m, function=fn, construct=norm_text(ev.node, 100), line=line,
                                    message="" if okc else f"player test is not against the model's own rating class {roles.rating.name} only", detail={"entry": op}))
    if part != 0:
        return out
    # ---- R13.2 syntactic: every explicit raise reachable from the public operations
    cg = CallGraph(prog, roles)
    roots = [roles.model.lookup(op) for op in PUBLIC_OPS if roles.model.lookup(op)]
    for fi in cg.reachable(roots, receiver=roles.model):
        if fi.module.external:
            continue
        for n in ast.walk(fi.node):
            if isinstance(n, ast.Raise):
                exc = n.exc.func if isinstance(n.exc, ast.Call) else n.exc
                name = None
                if exc is not None:
                    r = prog.resolve_expr(fi.module, exc) if isinstance(exc, (ast.Name, ast.Attribute)) else None
                    if r and r[0] == "builtin":
                        name = r[1]
                    elif r and r[0] == "class":
                        names = [c.name for c in r[1].mro] + [x.split(".")[-1] for x in r[1].ext_ancestors()]
                        name = next((a for a in ALLOWED if a in names), r[1].name)
                okc = name in ALLOWED
                out.append(dict(rule="R13.2s", verdict="HOLDS" if okc else "VIOLATED", module=fi.module.name, function=fi.qualname, construct=norm_text(n, 100), line=n.lineno,
                                message="" if okc else f"reachable raise of {name or 'an unresolved/bare exception'} (only TypeError/ValueError may reject a call)", detail={}))
            elif isinstance(n, ast.Assert):
                out.append(dict(rule="R13.2s", verdict="VIOLATED", module=fi.module.name, function=fi.qualname, construct=norm_text(n, 100), line=n.lineno,
                                message="reachable assert statement may raise AssertionError", detail={}))
    return out


def run(prog: Program, rep: Report, tier: str = "quick") -> None:
    roles = prog.roles()
    rep.explanation = (
        "Exhaustive abstract evaluation of rate and the three predict operations of every registered model on every "
        "class of the malformed-argument grammar of the statement (type-shape domain; a bad element sits at an unknown "
        "position, so only a full traversal rejects it) and on the well-formed classes (int, float, bool, mixed): "
        "malformed => every path raises TypeError/ValueError with an empty effect set; well-formed => no path raises."
    )
    rep.rule_text = (
        "one obligation per (model, operation, abstract argument class) plus one per rejection point met (effect-freedom "
        "and exception class); distinct = distinct (rule, site or class) pairs"
    )
    rep.exhaustive = True
    rep.assume("arguments are plain list/tuple/int/float/bool/str/None/rating objects or objects of unrelated type (no adversarial list subclasses)")
    rep.assume("the rating objects passed in are pairwise distinct objects")
    rep.trust("abstract semantics of isinstance, len, truthiness, iteration and implicit TypeError of CPython (osv/ai)")
    rep.trust("own name/callee resolver")
    results = parallel_map(_model_job, [(i, p, tier == "thorough") for i in range(len(roles)) for p in range(NPARTS)])
    seen = set()
    entered_by_model: Dict[Any, set] = {}
    for lst in results:
        for d in lst:
            if d["rule"] == "__entered__":
                entered_by_model.setdefault(d["model_idx"], set()).update(d["names"])
    for lst in results:
        for d in lst:
            if d["rule"] == "__entered__":
                continue
            if d["rule"] == "R13.2s" and d["verdict"] == "VIOLATED" and f"{d['module']}::{d['function']}" not in entered_by_model.get(d.get("model"), {f"{d['module']}::{d['function']}"}):
                # the name-based call graph reaches the function, but no abstract case of the whole argument grammar enters it
                # (an abstract hook that every registered model overrides, a branch decided by the class): not a rejection point
                d = dict(d, verdict="HOLDS", message="", detail={"note": "reached by the name-based call graph only; entered by no abstract case of the argument grammar"})
            key = (d["rule"], d["verdict"], d["module"], d["function"], d["construct"], d.get("message", ""), d.get("model", ""))
            if d["rule"] in ("R13.1", "R13.2", "R13.2s", "R13.4") and key in seen:
                continue
            seen.add(key)
            from ..report import Instance

            rep.add(Instance(d["rule"], d["verdict"], d["module"], d["function"], d["construct"], d["line"], d.get("message", ""), d.get("detail", {})))
    n = len(roles)
    rep.floor("R13.3", 90 * n)
    rep.floor("R13.1", 9 * n)
    rep.floor("R13.2", 9 * n)
    rep.floor("R13.2s", 3 * n)  # syntactic raise sites: a shared validator legitimately lowers the count
    rep.floor("R13.4", n)
    from . import game
    import re as _re

    game.add_instances(rep, game.returns_job, [(i, tier, "R13.5") for i in range(n)], "R13.5", 70 * n)
    _impl = r"(IndexError|KeyError|AttributeError|StopIteration|AssertionError)"
    rep.arbitrate({"R13.1", "R13.2"}, "R13.5", "well-formed calls are accepted: no implicit exception on a valid game", pred=lambda i: _re.match(r"implicit " + _impl, i.construct) is not None)
    rep.arbitrate({"R13.3"}, "R13.5", "well-formed calls are accepted: no implicit exception on a valid game", pred=lambda i: _re.search(r"well-formed call is \(or may be\) rejected by " + _impl, i.message) is not None)
    rep.not_decided = []
