"""C14 — stateless calls: no public operation writes model/module/class state; ids, names, identity,
hash and clock never reach a number; every model attribute read was stored by the constructor.

R14.1 model write-freedom, R14.2 global write-freedom, R14.3 read-side non-interference (prov domain),
R14.4 hidden history; R14.1s syntactic cross-check over the transitive call graph; thread clause derived.
"""

from __future__ import annotations

import ast
from typing import Any, Dict, List

from ..ai.values import Bool, Num, Ptr, Seq, Str, TupleV, Union, Val
from ..callgraph import CallGraph
from ..frontend import PUBLIC_OPS, Program, norm_text
from ..report import Instance, Report
from .harness import parallel_map, run_op, where

BAD_TAGS = ("ID", "NAME", "IDENTITY", "HASH", "RANDOM")


def bad_prov(prov) -> List[str]:
    return sorted(t for t in prov if t in BAD_TAGS or t.startswith("NONDET"))


def _result_prov(I, state, v: Val, depth=0) -> frozenset:
    if depth > 5:
        return frozenset()
    if isinstance(v, (Num, Bool)):
        return v.prov
    if isinstance(v, TupleV):
        out = frozenset()
        for x in v.items:
            out |= _result_prov(I, state, x, depth + 1)
        return out
    if isinstance(v, Union):
        out = frozenset()
        for x in v.opts:
            out |= _result_prov(I, state, x, depth + 1)
        return out
    if isinstance(v, Seq):
        return _result_prov(I, state, v.elem, depth + 1)
    if isinstance(v, Ptr):
        s = I.list_seq(state, v)
        if s is not None:
            return _result_prov(I, state, s.elem, depth + 1)
    return frozenset()


def rate_cases():
    out = []
    for sel in ("ranks", "scores", None):
        for tau in ("None", "any"):
            for ls in ("None", "any"):
                kw = {"tau": tau, "limit_sigma": ls}
                if sel:
                    kw[sel] = "list-of-mixed-int-float-bool"
                out.append(kw)
    return out


NPARTS = 3


THOROUGH = False


def _model_job(job) -> List[Dict[str, Any]]:
    global THOROUGH
    idx, part, THOROUGH = job
    prog = Program()
    roles = prog.roles()[idx]
    out: List[Dict[str, Any]] = []
    init = roles.model.lookup("__init__")
    base = [("rate", kw) for kw in rate_cases()] + [(op, {}) for op in PUBLIC_OPS if op != "rate"]
    if THOROUGH:
        # every option class separately, an abstract callback, exact team counts
        for kw in rate_cases():
            for t in ("falsy", "truthy"):
                for l in ("falsy", "truthy"):
                    base.append(("rate", dict(kw, tau=t, limit_sigma=l)))
        for kw in rate_cases()[:3]:
            base.append(("rate", dict(kw, custom_gamma=True)))
        for op in PUBLIC_OPS:
            for n in ((2, 2), (3, 3), (8, 8)):
                base.append((op, {"n": n}))
    jobs = base[part::NPARTS]
    ctor_fields = None
    per_entry: Dict[str, Dict[str, int]] = {}
    for op, kw in jobs:
        entry = f"{roles.model.name}.{op}"
        stats = per_entry.setdefault(entry, {"runs": 0})
        stats["runs"] += 1
        try:
            kw2 = dict(kw)
            cg = kw2.pop("custom_gamma", False)
            oc = run_op(prog, roles, op, custom_gamma=cg, **kw2)
        except Exception as e:
            out.append(dict(rule="R14.1", verdict="UNDECIDED", module=roles.model.module.name, function=entry, construct=str(kw), line=0,
                            message=f"abstract evaluation failed: {type(e).__name__}: {e}", detail={}))
            continue
        I = oc.I
        if ctor_fields is None:
            ctor_fields = set(getattr(oc.world, "ctor_fields", set()))
        for u in oc.undecided:
            out.append(dict(rule="R14.1", verdict="UNDECIDED", module=roles.model.module.name, function=entry, construct=u[:120], line=0, message=u, detail={"case": kw}))
        for ev in I.events:
            m, fn, line = where(ev)
            if ev.kind == "write":
                origin = ev.data["origin"]
                fld = ev.data["field"]
                text = norm_text(ev.node, 120)
                if origin == "input:model":
                    out.append(dict(rule="R14.1", verdict="VIOLATED", module=m, function=fn, construct=text, line=line,
                                    message=f"{op} writes attribute '{fld}' of the model object (entry {entry})", detail={"entry": entry, "field": fld}))
                elif origin in ("class", "function", "external") or origin.startswith("global:") or origin == "default-arg":
                    out.append(dict(rule="R14.2", verdict="VIOLATED", module=m, function=fn, construct=text, line=line,
                                    message=f"{op} writes {origin} state '{fld}' (entry {entry})", detail={"entry": entry, "origin": origin}))
                elif origin == "input:player" and op != "rate":
                    out.append(dict(rule="R14.5", verdict="VIOLATED", module=m, function=fn, construct=text, line=line,
                                    message=f"{op} writes attribute '{fld}' of a rating that was passed in: a prediction changes what every later call on these ratings returns (results depend on the call history)",
                                    detail={"entry": entry, "field": fld}))
                elif origin == "input:player" and fld in ("mu", "sigma"):
                    v = ev.data.get("val")
                    bp = bad_prov(getattr(v, "prov", frozenset()))
                    if bp:
                        out.append(dict(rule="R14.3", verdict="VIOLATED", module=m, function=fn, construct=text, line=line,
                                        message=f"the number stored into rating.{fld} depends on {bp} (entry {entry})", detail={"entry": entry, "sources": bp}))
            elif ev.kind == "mutate":
                origin = ev.data["origin"]
                if origin.startswith("global:") or origin == "default-arg" or origin in ("input:model", "input:model-owned"):
                    out.append(dict(rule="R14.2", verdict="VIOLATED", module=m, function=fn, construct=norm_text(ev.node, 120), line=line,
                                    message=f"{op} mutates a {origin} container ({ev.data['wkind']}) (entry {entry})", detail={"entry": entry, "origin": origin}))
            elif ev.kind == "global-write":
                out.append(dict(rule="R14.2", verdict="VIOLATED", module=ev.data["module"], function=fn, construct=f"global {ev.data['name']}", line=line,
                                message=f"{op} assigns module global {ev.data['name']} (entry {entry})", detail={"entry": entry}))
            elif ev.kind == "branch":
                bp = bad_prov(ev.data["prov"])
                if bp:
                    out.append(dict(rule="R14.3", verdict="VIOLATED", module=m, function=fn, construct=norm_text(ev.node, 120), line=line,
                                    message=f"branch condition depends on {bp} (entry {entry})", detail={"entry": entry, "sources": bp}))
            elif ev.kind == "sort":
                kv = ev.data["info"]["keyval"]
                bp = bad_prov(getattr(kv, "prov", frozenset()))
                if bp:
                    out.append(dict(rule="R14.3", verdict="VIOLATED", module=m, function=fn, construct=norm_text(ev.node, 120), line=line,
                                    message=f"sort key depends on {bp} (entry {entry})", detail={"entry": entry, "sources": bp}))
            elif ev.kind == "attr-read" and ev.data["origin"] == "input:model":
                a = ev.data["attr"]
                if a not in ctor_fields:
                    out.append(dict(rule="R14.4", verdict="VIOLATED", module=m, function=fn, construct=norm_text(ev.node, 120), line=line,
                                    message=f"reads model attribute '{a}' that the constructor does not store (hidden per-model state)", detail={"entry": entry}))
                else:
                    out.append(dict(rule="R14.4", verdict="HOLDS", module=m, function=fn, construct=f"self.{a}", line=line, message="", detail={"entry": entry, "attr": a}))
            elif ev.kind == "missing-attr" and ev.data.get("cls") is roles.model:
                out.append(dict(rule="R14.4", verdict="VIOLATED", module=m, function=fn, construct=norm_text(ev.node, 120), line=line,
                                message=f"reads model attribute '{ev.data['attr']}' that the constructor does not store", detail={"entry": entry}))
            elif ev.kind == "dynamic-attr":
                out.append(dict(rule="R14.4", verdict="UNDECIDED", module=m, function=fn, construct=norm_text(ev.node, 120), line=line,
                                message=f"dynamic attribute access ({ev.data['how']}) in reachable code", detail={"entry": entry}))
            elif ev.kind == "nondet":
                out.append(dict(rule="R14.3", verdict="VIOLATED", module=m, function=fn, construct=norm_text(ev.node, 120), line=line,
                                message=f"non-deterministic source in reachable code ({ev.kind} {ev.data.get('qual', '')})", detail={"entry": entry}))
            elif ev.kind == "set-iteration":
                el = ev.data.get("elem")
                from ..ai.values import Num as _Num, Bool as _Bool

                numeric = isinstance(el, (_Num, _Bool))
                out.append(dict(rule="R14.3", verdict="HOLDS" if numeric else "VIOLATED", module=m, function=fn, construct=norm_text(ev.node, 120), line=line,
                                message="" if numeric else "the elements of a set of objects / strings are visited in the order of their hashes, which depends on object ids or addresses and on the process hash seed: "
                                "whatever is accumulated in that order (a float sum, a first match) depends on them", detail={"entry": entry}))
        if op != "rate" and oc.returned:
            bp = bad_prov(_result_prov(I, oc.world.state, oc.result))
            if bp:
                out.append(dict(rule="R14.3", verdict="VIOLATED", module=roles.model.module.name, function=entry, construct=f"return value of {op}", line=roles.model.lookup(op).node.lineno,
                                message=f"returned numbers depend on {bp}", detail={"entry": entry}))
        # one discharged obligation per entry-point run and rule when nothing was reported for it
        for rule in ("R14.1", "R14.2", "R14.3") + (("R14.5",) if op != "rate" else ()):
            if not any(d["rule"] == rule and d["verdict"] != "HOLDS" and d.get("detail", {}).get("entry") == entry for d in out):
                out.append(dict(rule=rule, verdict="HOLDS", module=roles.model.module.name, function=entry, construct=f"{entry} {sorted(kw.items())}", line=roles.model.lookup(op).node.lineno,
                                message="", detail={"entry": entry, "case": kw, "functions_entered": len(I.functions_entered)}))
    if part != 0:
        return out
    # ---- R14.1s syntactic cross-check over the transitive call graph
    cg = CallGraph(prog, roles)
    roots = [roles.model.lookup(op) for op in PUBLIC_OPS if roles.model.lookup(op)]
    reach = cg.reachable(roots, receiver=roles.model)
    for fi in reach:
        if fi.module.external:
            continue
        owner = fi
        while owner.parent is not None:
            owner = owner.parent
        is_model_method = owner.cls is not None and (owner.cls is roles.model or owner.cls in roles.model.mro) and owner.kind not in ("staticmethod",)
        selfname = owner.params()[0] if is_model_method and owner.params() else None
        found = False
        for n in ast.walk(fi.node):
            tgts = []
            if isinstance(n, ast.Assign):
                tgts = n.targets
            elif isinstance(n, (ast.AugAssign, ast.AnnAssign)):
                tgts = [n.target]
            elif isinstance(n, ast.Delete):
                tgts = n.targets
            for t in tgts:
                for sub in ast.walk(t):
                    if isinstance(sub, ast.Attribute) and isinstance(sub.ctx, (ast.Store, ast.Del)) and isinstance(sub.value, ast.Name) and sub.value.id == selfname:
                        found = True
                        out.append(dict(rule="R14.1s", verdict="VIOLATED", module=fi.module.name, function=fi.qualname, construct=norm_text(n, 120), line=n.lineno,
                                        message=f"store to attribute '{sub.attr}' of the receiver model in code reachable from a public operation", detail={}))
            if isinstance(n, ast.Global):
                found = True
                out.append(dict(rule="R14.1s", verdict="VIOLATED", module=fi.module.name, function=fi.qualname, construct=norm_text(n, 120), line=n.lineno,
                                message="global declaration in code reachable from a public operation", detail={}))
            if isinstance(n, ast.Call) and isinstance(n.func, ast.Name) and n.func.id in ("setattr", "delattr") and n.args and isinstance(n.args[0], ast.Name) and n.args[0].id == selfname:
                found = True
                out.append(dict(rule="R14.1s", verdict="VIOLATED", module=fi.module.name, function=fi.qualname, construct=norm_text(n, 120), line=n.lineno,
                                message="setattr/delattr on the receiver model in reachable code", detail={}))
        if not found:
            out.append(dict(rule="R14.1s", verdict="HOLDS", module=fi.module.name, function=fi.qualname, construct=fi.qualname, line=fi.node.lineno, message="", detail={}))
    return out


def bytecode_self_stores(prog: Program) -> Dict[str, set]:
    """Independent implementation of R14.1s on bytecode: the modules are compiled (never executed) and every
    STORE_ATTR / DELETE_ATTR whose receiver is argument 0, and every STORE_GLOBAL / DELETE_GLOBAL, is collected per code
    object (qualified name)."""
    import dis

    out: Dict[str, set] = {}

    def walk(code, qual, modname):
        ins = list(dis.get_instructions(code))
        first = code.co_varnames[0] if code.co_argcount else None
        for i, x in enumerate(ins):
            if x.opname in ("STORE_ATTR", "DELETE_ATTR") and i > 0:
                prev = ins[i - 1]
                if prev.opname in ("LOAD_FAST", "LOAD_FAST_CHECK", "LOAD_DEREF") and prev.argval == first and first is not None:
                    out.setdefault(f"{modname}::{qual}", set()).add(("attr", x.argval))
            elif x.opname in ("STORE_GLOBAL", "DELETE_GLOBAL"):
                out.setdefault(f"{modname}::{qual}", set()).add(("global", x.argval))
        for c in code.co_consts:
            if hasattr(c, "co_code"):
                walk(c, f"{qual}.{c.co_name}" if qual else c.co_name, modname)

    for mi in prog.modules.values():
        code = compile(mi.source, mi.path, "exec")
        walk(code, "", mi.name)
    return out


def run(prog: Program, rep: Report, tier: str = "quick") -> None:
    roles = prog.roles()
    rep.explanation = (
        "Transitive effect and information-flow analysis of the four public operations of every registered model by "
        "abstract interpretation over all paths of each argument class: the write set contains no model attribute, "
        "module global, class attribute, default-argument object or external state; ids, names, object identity, hash "
        "and random/clock sources reach no stored number, returned number, branch condition or sort key; every model "
        "attribute read was stored by the constructor. The thread clause follows: by R14.1/2 a call writes only fresh "
        "objects and the ratings reachable from its own teams argument, by R14.3/4 everything else it reads is never "
        "written after construction, so calls on disjoint ratings touch disjoint mutable state under any interleaving."
    )
    rep.rule_text = "one obligation per (entry point, argument class, rule) plus one per reachable function (syntactic cross-check) and per model-attribute read"
    rep.assume("the user's gamma callback is pure")
    rep.assume("copy.deepcopy, itertools and statistics.NormalDist methods are thread-safe and write no shared state (stdlib, trusted)")
    rep.assume("the rating objects passed in are pairwise distinct objects")
    rep.trust("abstract interpreter osv/ai (effect events on every store/mutation; allocation-site classification input/fresh/global)")
    rep.trust("own name/callee resolver and call graph")
    rep.exhaustive = True
    seen = set()
    for lst in parallel_map(_model_job, [(i, p, tier == "thorough") for i in range(len(roles)) for p in range(NPARTS)]):
        for d in lst:
            key = (d["rule"], d["verdict"], d["module"], d["function"], d["construct"], d.get("model", ""))
            if key in seen:
                continue
            seen.add(key)
            rep.add(Instance(d["rule"], d["verdict"], d["module"], d["function"], d["construct"], d["line"], d.get("message", ""), d.get("detail", {})))
    # ---- bytecode cross-check of the syntactic rule (independent implementation, compile + dis, nothing is executed)
    try:
        bc = bytecode_self_stores(prog)
        ast_viol = {(i.module, i.function) for i in rep.instances if i.rule == "R14.1s" and i.verdict == "VIOLATED"}
        ast_ok = {(i.module, i.function) for i in rep.instances if i.rule == "R14.1s" and i.verdict == "HOLDS"}
        model_classes = {r.model.name for r in roles}
        disagreements = []
        for key, stores in bc.items():
            mod, _, qual = key.partition("::")
            cls = qual.split(".")[0]
            fn = qual.replace(".<locals>", "")
            if cls not in model_classes or qual.endswith(".__init__"):
                continue
            mine = (mod, qual) in ast_viol or any(m == mod and f.replace(".<locals>", "") == fn for m, f in ast_viol)
            reach = (mod, qual) in ast_ok or mine
            if reach and not mine:
                disagreements.append(f"{key}: bytecode shows {sorted(stores)} but the AST rule reported nothing")
        for k in ast_viol:
            if not any(key.partition("::")[0] == k[0] and key.partition("::")[2].replace(".<locals>", "") == k[1].replace(".<locals>", "") for key in bc):
                disagreements.append(f"{k[0]}::{k[1]}: the AST rule reported a store that the bytecode does not contain")
        if disagreements:
            for dmsg in disagreements[:5]:
                rep.undecided("R14.1b", module="*", function="bytecode cross-check", construct=dmsg[:150], message="AST and bytecode implementations of the self-store rule disagree: " + dmsg)
        else:
            rep.holds("R14.1b", module="*", function="bytecode cross-check", construct="AST and bytecode implementations of the receiver-store rule agree", detail={"code_objects_with_stores": len(bc)})
    except Exception as e:
        rep.undecided("R14.1b", module="*", function="bytecode cross-check", construct="bytecode cross-check", message=f"{type(e).__name__}: {e}")
    n = len(roles)
    rep.floor("R14.1", 4 * n)
    rep.floor("R14.2", 4 * n)
    rep.floor("R14.3", 4 * n)
    rep.floor("R14.4", 4 * n)
    rep.floor("R14.1s", 12 * n)
