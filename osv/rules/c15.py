"""C15 — per-call tau / limit_sigma mean exactly what the model-level setting means.

R15.1 effective-value evaluation on the option domain {None, falsy-not-None, truthy} with provenance
tags ARG / CTOR: every number stored into a rating depends on the argument when it is not None and on
the constructor attribute when it is None (the use is found by data and control flow, not by name);
R15.3 the constructor stores the parameter unchanged (modulo float()).
"""

from __future__ import annotations

from typing import Any, Dict, List

from ..ai.values import Bool, Num, short
from ..frontend import Program, norm_text
from ..report import Instance, Report
from .harness import parallel_map, run_op, where

OPTS = ("tau", "limit_sigma")
CLASSES = ("None", "falsy", "truthy")


def _job(job) -> List[Dict[str, Any]]:
    idx, tau_c, ls_c, sel = job
    prog = Program()
    roles = prog.roles()[idx]
    out: List[Dict[str, Any]] = []
    entry = f"{roles.model.name}.rate"
    mod = roles.model.module.name
    kw = {"tau": tau_c, "limit_sigma": ls_c}
    if sel:
        kw[sel] = "list-of-mixed-int-float-bool"
    case = f"tau={tau_c}, limit_sigma={ls_c}, {sel or 'no ranks'}"
    line = roles.model.lookup("rate").node.lineno
    try:
        oc = run_op(prog, roles, "rate", **kw)
    except Exception as e:
        return [dict(rule="R15.1", verdict="UNDECIDED", module=mod, function=entry, construct=case, line=line, message=f"abstract evaluation failed: {type(e).__name__}: {e}", detail={})]
    if oc.undecided or not oc.returned:
        return [dict(rule="R15.1", verdict="UNDECIDED", module=mod, function=entry, construct=case, line=line,
                     message="; ".join(oc.undecided[:3]) or "rate does not return on a well-formed class", detail={})]
    writes = [ev for ev in oc.I.events if ev.kind == "write" and ev.data["origin"] == "input:player" and ev.data["field"] in ("mu", "sigma")]
    for opt, cls in (("tau", tau_c), ("limit_sigma", ls_c)):
        arg_tag, ctor_tag = f"ARG:{opt}", f"CTOR:{opt}"
        with_arg = [ev for ev in writes if arg_tag in getattr(ev.data.get("val"), "prov", frozenset())]
        with_ctor = [ev for ev in writes if ctor_tag in getattr(ev.data.get("val"), "prov", frozenset())]
        inst = dict(rule="R15.1", module=mod, function=entry, construct=f"{opt}: {case}", line=line,
                    detail={"option": opt, "class": cls, "stores_depending_on_argument": len(with_arg), "stores_depending_on_model_attribute": len(with_ctor)})
        if cls == "None":
            # the model's own setting must be in force, the (absent) argument cannot matter
            if not with_ctor:
                out.append(dict(inst, verdict="VIOLATED", message=f"with {opt}=None no stored rating number depends on the model's {opt} setting: the model-level setting is not used"))
            else:
                out.append(dict(inst, verdict="HOLDS", message=""))
        else:
            if with_ctor:
                ev = with_ctor[0]
                m, fn, ln = where(ev)
                out.append(dict(inst, verdict="VIOLATED", module=m, function=fn, line=ln, construct=f"{opt} ({cls}): {norm_text(ev.node, 90)}",
                                message=f"rate(..., {opt}=<{cls}, not None>): the number stored here depends on the model attribute {opt} instead of (only) the argument "
                                        f"— a {cls} per-call value does not mean what the model-level setting means (case {case})"))
            elif opt == "tau" and not with_arg:
                out.append(dict(inst, verdict="VIOLATED", message=f"rate(..., tau=<{cls}>): no stored rating number depends on the argument"))
            elif opt == "limit_sigma" and cls == "truthy" and not with_arg:
                out.append(dict(inst, verdict="VIOLATED", message="rate(..., limit_sigma=True): no store is controlled by the argument (the cap is not applied)"))
            elif opt == "limit_sigma" and cls == "falsy" and with_arg:
                ev = with_arg[0]
                m, fn, ln = where(ev)
                out.append(dict(inst, verdict="VIOLATED", module=m, function=fn, line=ln, construct=f"limit_sigma (falsy): {norm_text(ev.node, 90)}",
                                message="rate(..., limit_sigma=False): a store to a rating is still controlled by the option"))
            else:
                out.append(dict(inst, verdict="HOLDS", message=""))
    # ---- R15.4 the resolution must not write the model-level setting back (otherwise "omitting the argument uses the
    # model's own setting" fails on the next call)
    wrote = False
    for ev in oc.I.events:
        if ev.kind == "write" and ev.data["origin"] == "input:model":
            m, fn, ln = where(ev)
            wrote = True
            out.append(dict(rule="R15.4", verdict="VIOLATED", module=m, function=fn, construct=norm_text(ev.node, 100), line=ln,
                            message=f"rate stores into the model attribute '{ev.data['field']}': a per-call option changes what later calls without the argument use", detail={"case": case}))
    if not wrote:
        out.append(dict(rule="R15.4", verdict="HOLDS", module=mod, function=entry, construct=f"no model attribute is written: {case}", line=line, message="", detail={}))
    # reads of the two model attributes (evidence for 'nothing reads the attribute behind the resolution')
    reads = sorted({(where(ev)[1], ev.data["attr"]) for ev in oc.I.events if ev.kind == "attr-read" and ev.data["origin"] == "input:model" and ev.data["attr"] in OPTS})
    out.append(dict(rule="R15.2", verdict="HOLDS", module=mod, function=entry, construct=f"reads of model tau/limit_sigma: {case}", line=line, message="",
                    detail={"reads": [list(r) for r in reads]}))
    # ---- R15.3 constructor transfer (once per model)
    if tau_c == "None" and ls_c == "None" and sel == "ranks":
        mobj = oc.world.state.heap[oc.world.model.loc].obj
        for opt in OPTS:
            tag = f"CTOR:{opt}"
            holders = [(n, v) for n, v in mobj.fields if tag in getattr(v, "prov", frozenset())]
            init = roles.model.lookup("__init__")
            base = dict(rule="R15.3", module=mod, function=f"{roles.model.name}.__init__", line=init.node.lineno)
            if not holders:
                out.append(dict(base, verdict="VIOLATED", construct=f"{opt} not stored", message=f"the constructor does not store its {opt} parameter", detail={}))
                continue
            for n, v in holders:
                psym = ("param", f"model.{opt}")
                ok = v.sym == psym or v.sym == ("call", "float", psym)
                out.append(dict(base, verdict="HOLDS" if ok else "VIOLATED", construct=f"self.{n} <- {opt}",
                                message="" if ok else f"the constructor transforms {opt} before storing it ({short(v)}, term {v.sym})", detail={"field": n}))
    return out


import re as _re

_NAMES = _re.compile(r"'(?:t|p|\$k|k)\d+'|#v\d+|, \d+\)")


def _store_trace(oc, atom_map) -> Dict[Any, set]:
    """(function, statement, field) -> set of position-erased normal forms of the values stored into the passed ratings."""
    from ..poly import freeze, to_poly

    tr: Dict[Any, set] = {}
    for ev in oc.I.events:
        if ev.kind != "write" or ev.data["origin"] != "input:player" or ev.data["field"] not in ("mu", "sigma"):
            continue
        v = ev.data.get("val")
        sym = getattr(v, "sym", None)
        pol = to_poly(sym, atom_map) if sym is not None else None
        form = None if pol is None else _NAMES.sub("_", repr(freeze(pol)))
        tr.setdefault((where(ev)[1], norm_text(ev.node, 100), ev.data["field"]), set()).add(form)
    return tr


def _equiv_job(job) -> List[Dict[str, Any]]:
    """R15.5: a call that leaves the option at None on a model whose setting is X stores the same terms as a call that
    passes X (the model-level atoms renamed to the argument's): None -> model setting is a pure substitution."""
    idx, ls = job
    prog = Program()
    roles = prog.roles()[idx]
    entry = f"{roles.model.name}.rate"
    mod = roles.model.module.name
    line = roles.model.lookup("rate").node.lineno
    base = dict(rule="R15.5", module=mod, function=entry, line=line, detail={})
    c = f"limit_sigma {'on' if ls else 'off'}: model-level setting with the argument at None == the same setting passed per call"
    try:
        a = run_op(prog, roles, "rate", ranks="list-of-mixed-int-float-bool", tau="None", limit_sigma="None",
                   model_overrides={"limit_sigma": Bool(ls, frozenset({"CTOR:limit_sigma"}), ("param", "model.limit_sigma"))})
        b = run_op(prog, roles, "rate", ranks="list-of-mixed-int-float-bool", tau="truthy", limit_sigma="truthy" if ls else "falsy")
    except Exception as e:
        return [dict(base, verdict="UNDECIDED", construct=c, message=f"abstract evaluation failed: {type(e).__name__}: {e}")]
    if a.undecided or b.undecided or not a.returned or not b.returned:
        return [dict(base, verdict="UNDECIDED", construct=c, message="; ".join((a.undecided + b.undecided)[:3]) or "rate does not return")]

    def to_arg(atom):
        if atom == ("param", "model.tau"):
            return ("param", "arg.tau")
        return atom

    ta, tb = _store_trace(a, to_arg), _store_trace(b, to_arg)
    out = []
    for key in sorted(set(ta) | set(tb), key=repr):
        fa, fb = ta.get(key), tb.get(key)
        fn, text, fld = key
        if fa is None or fb is None:
            out.append(dict(base, verdict="VIOLATED", function=fn, construct=f"{text} [{'on' if ls else 'off'}]",
                            message=f"this store to a rating's {fld} happens only when the setting comes from the {'model' if fb is None else 'argument'}: leaving the option at None does not mean what passing the model's setting means"))
            continue
        if None in fa or None in fb:
            continue  # no symbolic term on one side: not compared (counted in the evidence)
        if fa != fb:
            out.append(dict(base, verdict="VIOLATED", function=fn, construct=f"{text} [{'on' if ls else 'off'}]",
                            message=f"the value stored into {fld} differs between 'option None, model setting X' and 'option X': " + str(sorted(fa ^ fb))[:300]))
    if not out:
        compared = sum(1 for k in ta if k in tb and None not in ta[k] and None not in tb[k])
        out.append(dict(base, verdict="HOLDS" if compared else "UNDECIDED", construct=c, message="" if compared else "no store with a symbolic term on both sides", detail={"stores_compared": compared, "stores": len(ta)}))
    return out


def run(prog: Program, rep: Report, tier: str = "quick") -> None:
    roles = prog.roles()
    rep.explanation = (
        "Abstract evaluation of rate on the option domain: the per-call argument is None, falsy-but-not-None (0, 0.0, False) or "
        "truthy, tagged ARG; the constructor attribute is tagged CTOR. Every store of a number into a passed rating must "
        "depend on ARG and never on CTOR when the argument is not None, and on CTOR when it is None (data flow for tau, "
        "control dependence for limit_sigma). Together with R15.3 (the constructor stores the parameter unchanged modulo "
        "float()) this decides the statement for every game and every value of the options."
    )
    rep.rule_text = "one obligation per (model, option, option class, selector class); 2 options x 3 classes x 5 models x 4 selector combinations, plus constructor transfer"
    rep.exhaustive = True
    rep.trust("abstract interpreter osv/ai (provenance propagation through data flow and control dependence)")
    rep.assume("tau is a non-negative number and limit_sigma a bool when given (the statement's domain)")
    jobs = []
    for i in range(len(roles)):
        for t in CLASSES:
            for l in CLASSES:
                jobs.append((i, t, l, "ranks"))
        for t, l in zip(CLASSES, CLASSES):
            jobs.append((i, t, l, None))
            jobs.append((i, t, l, "scores"))
    seen = set()
    for lst in parallel_map(_job, jobs) + parallel_map(_equiv_job, [(i, ls) for i in range(len(roles)) for ls in (True, False)]):
        for d in lst:
            key = (d["rule"], d["verdict"], d["module"], d["function"], d["construct"], d.get("model", ""))
            if key in seen:
                continue
            seen.add(key)
            rep.add(Instance(d["rule"], d["verdict"], d["module"], d["function"], d["construct"], d["line"], d.get("message", ""), d.get("detail", {})))
    n = len(roles)
    rep.floor("R15.1", 25 * n)
    rep.floor("R15.3", 2 * n)
    rep.floor("R15.5", 2 * n)
    from . import game

    game.add_instances(rep, game.c15_job, [(i, tier) for i in range(n)], "R15.6", 45 * n)
    rep.arbitrate({"R15.1", "R15.2", "R15.4", "R15.5"}, "R15.6", "the per-call option means what the model-level setting means")
    rep.supersede({"R15.1", "R15.2", "R15.4", "R15.5"}, "R15.6", "the per-call option means what the model-level setting means")
