"""C16 — results do not depend on the unit or origin of the skill scale.

Scale clause = a units-of-measure type check (R16.1): every arithmetic node reachable from the four public
operations is typed with its homogeneity degree in the skill unit; posterior mu/sigma have degree 1, every
prediction degree 0, no node is ill-typed. R16.2: in the Thurstone-Mosteller models the only ill-typed values are
the kappa-derived second arguments handed by the kernel to the correction functions (the statement's exemption).
Shift clause = location-weight typing (R16.3).
"""

from __future__ import annotations

from dataclasses import replace
from fractions import Fraction
from typing import Any, Dict, List

from ..ai.values import POLY, Bool, Num, Ptr, Seq, TupleV, Union, Val, short
from ..ai.world import Box
from ..frontend import PUBLIC_OPS, Program, norm_text
from ..report import Instance, Report
from .harness import parallel_map, run_op, where

F0, F1 = Fraction(0), Fraction(1)
# the statement claims the scaling clause of rate for these model families only
SCALE_CLAIMED_PREFIXES = ("PlackettLuce", "BradleyTerry")


def _result_degs(I, st, v: Val, out: List, depth=0):
    if depth > 5:
        return
    if isinstance(v, Num):
        out.append(v)
    elif isinstance(v, TupleV):
        for x in v.items:
            _result_degs(I, st, x, out, depth + 1)
    elif isinstance(v, Union):
        for x in v.opts:
            _result_degs(I, st, x, out, depth + 1)
    elif isinstance(v, Seq):
        _result_degs(I, st, v.elem, out, depth + 1)
        for x in v.fixed or ():
            _result_degs(I, st, x, out, depth + 1)
    elif isinstance(v, Ptr):
        s = I.list_seq(st, v)
        if s is not None:
            _result_degs(I, st, s, out, depth + 1)


def _job(job) -> List[Dict[str, Any]]:
    idx, op, variant = job
    prog = Program()
    roles = prog.roles()[idx]
    mod = roles.model.module.name
    entry = f"{roles.model.name}.{op}"
    line = roles.model.lookup(op).node.lineno
    scale_claimed = roles.model.name.startswith(SCALE_CLAIMED_PREFIXES) or op != "rate"
    out: List[Dict[str, Any]] = []
    exempt_sites: List[Dict[str, Any]] = []
    case = variant

    def inst(rule, verdict, construct, message="", detail=None, m=mod, fn=entry, ln=line):
        out.append(dict(rule=rule, verdict=verdict, module=m, function=fn, construct=construct, line=ln, message=message, detail=dict(detail or {}, entry=entry, case=case)))

    common_mod = f"{prog.package}.models.weng_lin.common"

    def setup(w):
        def call_args(I, fv, args, kwargs, node):
            fi = fv.fi
            if fi is None or fi.module.name != common_mod or not any(f.label.endswith("._compute") or "._compute.<locals>" in f.label for f in I.stack):
                return None
            new = list(args)
            changed = False
            for i, a in enumerate(new):
                if isinstance(a, Num) and a.deg == Fraction(-1) and "CTOR:kappa" in a.prov:
                    f = I.cur_func()
                    exempt_sites.append(dict(m=f.partition("::")[0], fn=f.partition("::")[2], ln=getattr(node, "lineno", 0),
                                             c=f"{fi.name}(…, {norm_text(node.args[i], 40) if i < len(node.args) else '?'})", callee=fi.name))
                    new[i] = replace(a, deg=F0)
                    changed = True
            return (new, kwargs) if changed else None

        if not scale_claimed:
            w.I.hooks["call-args"] = call_args

    kw = {}
    if op == "rate":
        sel, opt = variant.split("/")
        kw = {"tau": opt, "limit_sigma": "any"}
        if sel != "none":
            kw[sel] = "list-of-mixed-int-float-bool"
    try:
        oc = run_op(prog, roles, op, box=Box(degrees=True), custom_gamma=(variant.endswith("+callback")), setup=setup,
                    **({k: v for k, v in kw.items()} if op == "rate" else {"n": (2, 2) if variant == "n=2" else (3, 8)}))
    except Exception as e:
        inst("R16.1", "UNDECIDED", case, f"abstract evaluation failed: {type(e).__name__}: {e}")
        return out
    if oc.undecided or not oc.returned:
        inst("R16.1", "UNDECIDED", case, "; ".join(oc.undecided[:3]) or f"{op} does not return")
        return out
    I, st = oc.I, oc.world.state
    # ---- R16.1 every typed node
    n_nodes = 0
    for d in I.diags.values():
        if d["domain"] != "degree":
            continue
        n_nodes += 1
        f = d["func"]
        m, _, qn = f.partition("::")
        if not d["ok"]:
            inst("R16.1", "VIOLATED", f"{norm_text(d['node'], 90)}", "dimensionally inconsistent: " + "; ".join(d["msgs"]) +
                 " — multiplying all skills and beta/tau by a factor does not scale this term consistently", {}, m, qn, getattr(d["node"], "lineno", 0))
    # ---- outputs
    if op == "rate":
        for ev in I.events:
            if ev.kind == "write" and ev.data["origin"] == "input:player" and ev.data["field"] in ("mu", "sigma"):
                v = ev.data.get("val")
                m, fn, ln = where(ev)
                if not isinstance(v, Num) or v.deg is None:
                    inst("R16.1", "UNDECIDED", f"posterior {ev.data['field']}: {norm_text(ev.node, 70)}", f"no degree could be inferred for the stored value ({short(v) if v else None})", {}, m, fn, ln)
                elif v.deg not in (F1, POLY):
                    inst("R16.1", "VIOLATED", f"posterior {ev.data['field']}: {norm_text(ev.node, 70)}", f"the stored {ev.data['field']} has homogeneity degree {v.deg}, not 1: it does not scale with the skill unit", {}, m, fn, ln)
                else:
                    inst("R16.1", "HOLDS", f"posterior {ev.data['field']} has degree 1: {norm_text(ev.node, 70)}", "", {}, m, fn, ln)
        for ev in I.events:
            if ev.kind == "callback":
                want = [F1, F0, F1, Fraction(2), None, F0]
                degs = [getattr(a, "deg", None) if isinstance(a, Num) else None for a in ev.data["args"]]
                m, fn, ln = where(ev)
                bad = [i for i, (d_, w_) in enumerate(zip(degs, want)) if w_ is not None and d_ not in (w_, POLY, None)]
                inst("R16.1", "VIOLATED" if bad or len(degs) != 6 else "HOLDS", f"callback arguments: {norm_text(ev.node, 60)}",
                     f"the gamma callback receives arguments of degrees {[str(x) for x in degs]}; documented kinds are (c:1, k:0, mu:1, sigma_squared:2, team, rank:0)" if bad or len(degs) != 6 else "", {}, m, fn, ln)
    else:
        nums: List[Num] = []
        _result_degs(I, st, oc.result, nums)
        if not nums:
            inst("R16.1", "UNDECIDED", f"returned values of {op}", f"no number found in the result {short(oc.result)}")
        for v in nums:
            if v.deg is None:
                inst("R16.1", "UNDECIDED", f"returned values of {op} ({case})", f"no degree inferred for {short(v)}")
            elif v.deg not in (F0, POLY):
                inst("R16.1", "VIOLATED", f"returned values of {op} ({case})", f"a returned number has homogeneity degree {v.deg}, not 0: the prediction changes with the unit of the skill scale")
            else:
                inst("R16.1", "HOLDS", f"returned values of {op} are dimensionless ({case})", "", {"nodes_typed": n_nodes})
    if not any(d["rule"] == "R16.1" and d["verdict"] == "VIOLATED" for d in out):
        inst("R16.1", "HOLDS", f"all arithmetic nodes well-typed ({case})", "", {"nodes_typed": n_nodes})
    # ---- R16.2 the exemption is exactly where the statement says
    seen = set()
    for s in exempt_sites:
        k = (s["m"], s["fn"], s["c"])
        if k in seen:
            continue
        seen.add(k)
        inst("R16.2", "ASSUMED", f"kappa as dimensional draw margin: {s['c']}", "confirmed exemption: kappa/c_iq (degree -1) handed to a correction function where a dimensionless margin is expected", {}, s["m"], s["fn"], s["ln"])
    return out


def _show(frozen) -> str:
    from ..poly import show

    return show(dict(frozen), 100)


def _shift_job(job) -> List[Dict[str, Any]]:
    """R16.3 location-weight typing: how every value responds to adding one constant to every player's mu
    (all teams of equal size)."""
    from ..ai import shift

    idx, op, variant = job
    prog = Program()
    roles = prog.roles()[idx]
    mod = roles.model.module.name
    entry = f"{roles.model.name}.{op}"
    line = roles.model.lookup(op).node.lineno
    out: List[Dict[str, Any]] = []
    case = variant

    def inst(rule, verdict, construct, message="", detail=None, m=mod, fn=entry, ln=line):
        out.append(dict(rule=rule, verdict=verdict, module=m, function=fn, construct=construct, line=ln, message=message, detail=dict(detail or {}, entry=entry, case=case)))

    def setup(w):
        w.I.shift_mode = True
        w.I.number_locals = True

    kw: Dict[str, Any] = {}
    if op == "rate":
        kw = {"tau": "any", "limit_sigma": "any"}
        if variant != "none":
            kw[variant] = "list-of-mixed-int-float-bool"
    else:
        kw = {"n": (2, 2) if variant == "n=2" else (3, 8)}
    try:
        oc = run_op(prog, roles, op, box=Box(shift=True), setup=setup, **kw)
    except Exception as e:
        inst("R16.3", "UNDECIDED", case, f"abstract evaluation failed: {type(e).__name__}: {e}")
        return out
    if oc.undecided or not oc.returned:
        inst("R16.3", "UNDECIDED", case, "; ".join(oc.undecided[:3]) or f"{op} does not return")
        return out
    I, st = oc.I, oc.world.state
    n_nodes = 0
    bad = False
    for d in I.diags.values():
        if d["domain"] != "shift":
            continue
        n_nodes += 1
        if not d["ok"]:
            bad = True
            f = d["func"]
            m, _, qn = f.partition("::")
            inst("R16.3", "VIOLATED", norm_text(d["node"], 90), "; ".join(d["msgs"][:2]) + " — adding one constant to every mu does not leave this term consistent", {}, m, qn, getattr(d["node"], "lineno", 0))
    want_mu = shift.player_mu_weight()
    if op == "rate":
        seen = set()
        for ev in I.events:
            if ev.kind == "write" and ev.data["origin"] == "input:player" and ev.data["field"] in ("mu", "sigma") and id(ev.node) not in seen:
                seen.add(id(ev.node))
                v = ev.data.get("val")
                m, fn, ln = where(ev)
                w = shift.weight_of(I, v) if isinstance(v, Num) else None
                fld = ev.data["field"]
                c = f"posterior {fld} under a shift of all mu: {norm_text(ev.node, 60)}"
                if w is None:
                    inst("R16.3", "VIOLATED" if bad else "UNDECIDED", c, "no shift response could be inferred for the stored value", {}, m, fn, ln)
                elif fld == "mu" and w != want_mu:
                    inst("R16.3", "VIOLATED", c, f"the stored mu moves by ({_show(w[0])}) x d (exponent {_show(w[1])}) when d is added to every mu — not by exactly d", {}, m, fn, ln)
                elif fld == "sigma" and w != shift.ZERO:
                    inst("R16.3", "VIOLATED", c, f"the stored sigma changes when a constant is added to every mu (weight {_show(w[0])}, exponent {_show(w[1])})", {}, m, fn, ln)
                else:
                    inst("R16.3", "HOLDS", c, "", {"nodes_typed": n_nodes}, m, fn, ln)
    else:
        nums: List[Num] = []
        _result_degs(I, st, oc.result, nums)
        if not nums:
            inst("R16.3", "UNDECIDED", f"returned values of {op}", "no number found in the result")
        for v in nums:
            w = shift.weight_of(I, v)
            c = f"returned values of {op} are shift invariant ({case})"
            if w is None:
                inst("R16.3", "VIOLATED" if bad else "UNDECIDED", c, "no shift response could be inferred for a returned number")
            elif w != shift.ZERO:
                inst("R16.3", "VIOLATED", c, f"a returned number changes when a constant is added to every mu (weight {_show(w[0])}, exponent {_show(w[1])})")
            else:
                inst("R16.3", "HOLDS", c, "", {"nodes_typed": n_nodes})
    return out


def run(prog: Program, rep: Report, tier: str = "quick") -> None:
    roles = prog.roles()
    rep.explanation = (
        "Units-of-measure typing by abstract interpretation: mu, sigma, beta, tau (attributes and per-call argument) have degree 1 in the skill unit, "
        "kappa, counts, nonzero literals and the callback's result degree 0, the literal 0 is polymorphic; +,-,comparison,max/min need equal degrees, "
        "* adds, / subtracts, **k multiplies, sqrt halves, and exp/Phi/phi/Phi^-1/erf need degree 0. If every node is well-typed and the stored posteriors "
        "have degree 1 and every prediction degree 0, multiplying all degree-1 inputs by a factor multiplies every degree-d intermediate by factor^d "
        "(parametricity of units of measure). For the two Thurstone-Mosteller models the kappa-derived second arguments of the correction functions are "
        "the only exempted values, exactly as the statement exempts them; every other ill-typed node, and any in the predictions, is a violation."
    )
    rep.rule_text = "per model: rate x {ranks, scores, none} x {tau None, tau given} (+ one run with an abstract callback), 3 predictions x {2 teams, 3..8 teams}; one instance per ill-typed node, output and exemption site"
    rep.trust("abstract interpreter osv/ai with the degree domain (DESIGN A.6)")
    rep.assume("the gamma callback returns a dimensionless, shift-invariant number")
    rep.not_decided = ["size of the rounding differences"]
    rep.assume("shift clause: all teams have the same number of players (the statement's condition): every team size is one symbol TEAMSIZE")
    jobs = []
    for i in range(len(roles)):
        for sel in ("ranks", "scores", "none"):
            for opt in ("None", "any"):
                jobs.append((i, "rate", f"{sel}/{opt}"))
        jobs.append((i, "rate", "ranks/any+callback"))
        for op in PUBLIC_OPS:
            if op != "rate":
                jobs.append((i, op, "n=2"))
                jobs.append((i, op, "n>=3"))
    seen = set()
    for lst in parallel_map(_job, jobs):
        for d in lst:
            key = (d["rule"], d["verdict"], d["module"], d["function"], d["construct"], d.get("model", ""))
            if key in seen:
                continue
            seen.add(key)
            rep.add(Instance(d["rule"], d["verdict"], d["module"], d["function"], d["construct"], d["line"], d.get("message", ""), d.get("detail", {})))
    sjobs = []
    for i in range(len(roles)):
        for v in ("ranks", "scores", "none"):
            sjobs.append((i, "rate", v))
        for op in PUBLIC_OPS:
            if op != "rate":
                sjobs.append((i, op, "n=2"))
                sjobs.append((i, op, "n>=3"))
    for lst in parallel_map(_shift_job, sjobs):
        for d in lst:
            key = (d["rule"], d["verdict"], d["module"], d["function"], d["construct"], d.get("model", ""))
            if key in seen:
                continue
            seen.add(key)
            rep.add(Instance(d["rule"], d["verdict"], d["module"], d["function"], d["construct"], d["line"], d.get("message", ""), d.get("detail", {})))
    n = len(roles)
    rep.floor("R16.1", 20 * n)
    rep.floor("R16.2", 6)
    rep.floor("R16.3", 8 * n)
