"""C17 — the Gaussian correction functions V, W, V~, W~ (partial, structural claim).

R17.1 the CDF primitive has no cancelling asymptote: along the resolved call chain of phi_major (into the
stdlib source when it delegates) no value is formed as c +/- f(u) with f saturating (erf, tanh, a CDF) where the
range of the result reaches 0 — there the absolute error of f becomes an unbounded relative error.
R17.2 v >= 0; R17.3 quotients only under the negation of their guard, and w uses v only on v's exact branch;
R17.4 finite values on the statement's sweep box.
"""

from __future__ import annotations

import ast
from fractions import Fraction
from typing import Any, Dict, List

from ..ai.state import InstObj
from ..ai.values import INF, Bool, FuncV, Interval, Num, Ptr, short
from ..ai.world import World
from ..frontend import AnalysisError, Program, norm_text
from ..report import Instance, Report

F0 = Fraction(0)
FLOAT = frozenset({"float"})
SATURATING = {"math.erf": "erf -> -1/+1", "math.tanh": "tanh -> -1/+1", "NormalDist.cdf": "cdf -> 0/1", "fn:phi_major": "cdf -> 0/1"}
X_BOX = (-40.0, 40.0)
T_BOX = (1e-8, 1e-2)


def _num(name: str, lo: float, hi: float) -> Num:
    return Num(kinds=FLOAT, rng=Interval(lo, hi, False, False), deg=F0, sym=("param", name))


def _common(prog: Program):
    mi = prog.modules.get(f"{prog.package}.models.weng_lin.common")
    if mi is None:
        raise AnalysisError("vanished anchor: openskill.models.weng_lin.common")
    return mi


def _cancel_hook(sites: List[Dict[str, Any]]):
    def arith(I, node, opname, a, b):
        if opname not in ("add", "sub"):
            return
        # difference of two CDF values that both reach the saturation limit 1: Phi(u) - Phi(u') cancels there
        if opname == "sub" and a.sym is not None and b.sym is not None and a.sym[0] == "call" and b.sym[0] == "call" \
                and SATURATING.get(a.sym[1], "").startswith("cdf") and SATURATING.get(b.sym[1], "").startswith("cdf") and a.rng is not None and b.rng is not None:
            if a.rng.hi >= 1 - 1e-9 and b.rng.hi >= 1 - 1e-9:
                f = I.cur_func()
                sites.append(dict(module=f.partition("::")[0], function=f.partition("::")[2], line=getattr(node, "lineno", 0), construct=norm_text(node, 100),
                                  what=f"difference of two CDF values whose ranges ({a.rng}, {b.rng}) both reach the saturation limit 1: the Gaussian mass of a band is computed by cancellation "
                                       "(evaluate it in the lower tail, at -|x|, instead)", stack=list(I.cur_stack())))
        for c, t, c_left in ((a, b, True), (b, a, False)):
            if c.const is None or isinstance(c.const, bool) or c.const == 0:
                continue
            if t.sym is None or t.sym[0] != "call" or t.sym[1] not in SATURATING or t.rng is None or c.rng is None:
                continue
            if opname == "add":
                r = c.rng.add(t.rng)
            else:
                r = c.rng.sub(t.rng) if c_left else t.rng.sub(c.rng)
            if r.contains_zero() or r.lo == 0 or r.hi == 0:
                f = I.cur_func()
                sites.append(dict(module=f.partition("::")[0], function=f.partition("::")[2], line=getattr(node, "lineno", 0), construct=norm_text(node, 100),
                                  what=f"{c.const} {'+' if opname == 'add' else '-'} {t.sym[1].split('.')[-1]}(u) with {t.sym[1].split('.')[-1]}(u) in {t.rng}: the sum reaches 0 by cancellation of O(1) terms",
                                  stack=list(I.cur_stack())))

    return arith


def _subst_param(sym, name: str, repl):
    if sym is None or not isinstance(sym, tuple) or not sym:
        return sym
    if sym == ("param", name):
        return repl
    if sym[0] in ("const", "param", "in", "rd", "elem", "idx", "lenterm", "len", "opq"):
        return sym
    return (sym[0],) + tuple(_subst_param(a, name, repl) if isinstance(a, tuple) else a for a in sym[1:])


def _parity_rule(prog, roles, mi, rep: Report, name: str, parity: int) -> None:
    """f(x) for x > 0 must equal parity * f(-x) evaluated on the x < 0 path, on each side of the function's guard."""
    from ..poly import p_neg, show, to_poly

    f = mi.funcs[name]
    word = "odd" if parity < 0 else "even"
    # discovery: the guard comparisons of the function against constants
    guards = []

    def mk(xbox, seeds):
        wx = World(prog, roles)
        wx.I.opaque_funcs = {mi.funcs[n].fq for n in ("phi_major", "phi_minor") if n in mi.funcs}
        wx.I.number_locals = False

        def compare(I, node, op, a, b):
            if I.cur_func().partition("::")[0] == mi.name and I.cur_func().partition("::")[2] not in ("phi_major", "phi_minor", "phi_major_inverse") and b.const is not None and a.sym is not None and a.sym[0] != "param" and a.const is None:
                guards.append((a.sym, b.sym))

        wx.I.hooks["compare"] = compare
        for a_, b_, r_ in seeds:
            wx.state.rel_set(a_, b_, r_)
        xv = Num(kinds=FLOAT, rng=Interval(*xbox), deg=F0, sym=("param", "x"))
        tv = _num("t", *T_BOX)
        r = wx.I.call_function(FuncV(fi=f, node=f.node, module=f.module), [xv, tv], {}, f.node, wx.state)
        return wx, r

    pos_box, neg_box = (0.0, 40.0, True, False), (-40.0, 0.0, False, True)
    mk(pos_box, [])
    gset = []
    for g in guards:
        if g not in gset:
            gset.append(g)
    import itertools as _it

    combos = list(_it.product((True, False), repeat=len(gset))) if gset else [()]
    for combo in combos[:8]:
        label = ", ".join(f"guard {i + 1} {'true' if t_ else 'false'}" for i, t_ in enumerate(combo)) or "no guard"
        seeds = [(a_, b_, frozenset({"LT"}) if t_ else frozenset({"GT", "EQ"})) for (a_, b_), t_ in zip(gset, combo)]
        _, rp = mk(pos_box, seeds)
        _, rn = mk(neg_box, seeds)
        c = f"{name} is {word} in x ({label})"
        sp = rp.sym if isinstance(rp, Num) else None
        sn = rn.sym if isinstance(rn, Num) else None
        if isinstance(rp, Num) and rp.const is not None and isinstance(rn, Num) and rn.const is not None:
            ok = rp.const == parity * rn.const
            (rep.holds if ok else rep.violated)("R17.5", module=mi.name, function=name, construct=c, line=f.node.lineno, message="" if ok else f"{name}(x>0) = {rp.const}, {name}(x<0) = {rn.const}")
            continue
        if sp is None or sn is None:
            rep.undecided("R17.5", module=mi.name, function=name, construct=c, message="a branch has no symbolic term (nested data-dependent branch)")
            continue
        mirrored = to_poly(_subst_param(sn, "x", ("neg", ("param", "x"))))
        if parity < 0 and mirrored is not None:
            mirrored = p_neg(mirrored)
        got = to_poly(sp)
        ok = got is not None and mirrored is not None and got == mirrored
        (rep.holds if ok else rep.violated)("R17.5", module=mi.name, function=name, construct=c, line=f.node.lineno,
                                             message="" if ok else f"{name}(x) for x > 0 is {show(got, 200)} but {'-' if parity < 0 else ''}{name}(-x) computed on the x < 0 path is {show(mirrored, 200)}: "
                                                                   f"the function is not {word} in x (a sign flip lost for one sign of x: a draw then moves the stronger team the wrong way)")


def run(prog: Program, rep: Report, tier: str = "quick") -> None:
    rep.explanation = (
        "Numeric-stability lint by abstract interpretation of the resolved CDF primitive (following phi_major into the pure-Python stdlib source when it delegates): "
        "a value formed as constant +/- saturating-function whose interval reaches 0 loses all relative accuracy in that tail, which 'accurate to 1e-12 relative in both "
        "tails' forbids. Interval analysis of v, w, vt, wt on the statement's sweep box (x in [-40, 40], t in [1e-8, 1e-2]) proves v >= 0, every quotient evaluated only "
        "where its denominator is bounded away from 0, w's use of v confined to v's exact branch, and finiteness. The accuracy figures and w, wt in [0, 1] are not decided."
    )
    rep.rule_text = "one instance per add/sub node of the CDF chain, per partial-operation site of the four functions, per guard-consistency fact, per function range"
    rep.trust("abstract interpreter osv/ai (interval domain, branch refinement, backward propagation through monotone functions)")
    rep.trust("axioms: erf/erfc/cdf ranges and monotonicity, pdf >= 0, sys.float_info.epsilon")
    rep.trust("role assumption: phi_major is a non-decreasing function with phi_major(0) = 1/2 and values in [0, 1] (the normal CDF); R17.1 decides its numerical form, not its identity")
    rep.not_decided = ["accuracy figures (1e-6 relative, 2 percent, 2t, 20t + 1e-13/t, 1e-12)", "w and wt inside [0, 1]"]
    mi = _common(prog)
    roles = prog.roles()[0]
    for name in ("phi_major", "phi_minor", "v", "w", "vt", "wt"):
        if name not in mi.funcs:
            raise AnalysisError(f"vanished anchor: {mi.name}.{name}")

    # ---------------------------------------------------------------- R17.1
    sites: List[Dict[str, Any]] = []
    w = World(prog, roles)
    w.I.hooks["arith"] = _cancel_hook(sites)
    x = _num("x", *X_BOX)
    fi = mi.funcs["phi_major"]
    res = w.I.call_function(FuncV(fi=fi, node=fi.node, module=fi.module), [x], {}, fi.node, w.state)
    chain = [fi.fq]
    n_nodes = sum(1 for d in w.I.diags.values()) + len(w.I.events)
    stdlib_calls = sorted({ev.data["qual"] for ev in w.I.events if ev.kind == "ext-call" and ev.data["qual"].startswith("statistics.")})
    for u in w.I.undecided:
        rep.undecided("R17.1", module=mi.name, function="phi_major", construct=u[:100], message=u)
    for q in stdlib_calls:
        # follow into the pure-Python stdlib source
        parts = q.split(".")
        sm = prog.stdlib_module(parts[0])
        cls = sm.classes.get(parts[1]) if sm else None
        meth = cls.methods.get(parts[2]) if cls and len(parts) == 3 else None
        if meth is None:
            rep.undecided("R17.1", module=mi.name, function="phi_major", construct=q, message=f"cannot resolve {q} into stdlib source")
            continue
        chain.append(f"{sm.path}::{cls.name}.{meth.name}")
        w2 = World(prog, roles)
        w2.I.hooks["arith"] = _cancel_hook(sites)
        inst = w2.I.instantiate(cls, [], {}, cls.node, w2.state)
        w2.I.raises.clear()
        r2 = w2.I.call_function(FuncV(fi=meth, node=meth.node, self_val=inst, module=meth.module), [x], {}, meth.node, w2.state)
        for u in w2.I.undecided:
            rep.undecided("R17.1", module="statistics", function=f"{cls.name}.{meth.name}", construct=u[:100], message=u)
        n_nodes += len(w2.I.events)
    seen = set()
    for s in sites:
        k = (s["module"], s["function"], s["construct"])
        if k in seen:
            continue
        seen.add(k)
        rep.violated("R17.1", module=s["module"], function=s["function"], construct=s["construct"], line=s["line"],
                     message=f"the CDF primitive reached from phi_major has a cancelling asymptote: {s['what']}; for x in [{X_BOX[0]}, {X_BOX[1]}] the lower tail is computed as a difference of "
                             "nearly equal numbers (relative error unbounded below about -8 standard deviations)", detail={"chain": chain})
    if not sites:
        rep.holds("R17.1", module=mi.name, function="phi_major", construct="no cancelling asymptote in the CDF primitive", line=fi.node.lineno, detail={"chain": chain, "stdlib_followed": stdlib_calls})
    rep.extra["cdf_chain"] = chain

    # ---------------------------------------------------------------- R17.2-17.4 on v, w, vt, wt
    results: Dict[str, Num] = {}
    for name in ("v", "w", "vt", "wt"):
        f = mi.funcs[name]
        wx = World(prog, roles)
        # phi_major in the CDF role: its value is numbered as an uninterpreted monotone CDF (cdf(0) = 1/2), so that
        # guards on it refine its argument whatever its implementation (single formula or sign-split)
        wx.I.opaque_funcs = {mi.funcs["phi_major"].fq}
        band_sites: List[Dict[str, Any]] = []
        wx.I.hooks["arith"] = _cancel_hook(band_sites)
        xv, tv = _num("x", *X_BOX), _num("t", *T_BOX)
        r = wx.I.call_function(FuncV(fi=f, node=f.node, module=f.module), [xv, tv], {}, f.node, wx.state)
        for u in wx.I.undecided:
            rep.undecided("R17.4", module=mi.name, function=name, construct=u[:100], message=u)
        for s_ in band_sites:
            rep.violated("R17.1", module=s_["module"], function=s_["function"], construct=s_["construct"], line=s_["line"],
                         message=f"cancelling form inside {name}: {s_['what']}; relative accuracy of the result is lost for large |x| on that side")
        if wx.I.raises or wx.state.bottom:
            rep.violated("R17.4", module=mi.name, function=name, construct=f"{name} returns normally", line=f.node.lineno, message=f"{name} may raise {[e.data['exc'] for e in wx.I.raises]} on the sweep box")
            continue
        if isinstance(r, Bool):
            from ..ai.values import bool_to_num

            r = bool_to_num(r)
        results[name] = r
        ok = isinstance(r, Num) and r.rng is not None and r.rng.finite()
        (rep.holds if ok else rep.violated)("R17.4", module=mi.name, function=name, construct=f"{name}(x, t) is finite on the sweep box", line=f.node.lineno,
                                             message="" if ok else f"interval analysis gives {getattr(r, 'rng', None)} for {name}", detail={"range": str(getattr(r, "rng", None))})
        # R17.3 quotients and other partial operations
        for d in wx.I.obligations.values():
            fn = d["func"].partition("::")[2]
            (rep.holds if d["ok"] else rep.violated)("R17.3", module=d["func"].partition("::")[0], function=fn, construct=f"{d['kind']}: {norm_text(d['node'], 80)} (via {name})",
                                                      line=getattr(d["node"], "lineno", 0), message="" if d["ok"] else f"reached from {name}: " + "; ".join(d["msgs"]) + " — the quotient is evaluated where its guard does not hold")
        # R17.3 consistent beliefs: inside w, v's guard is decided (exact branch only)
        if name == "w":
            inner = [ev for ev in wx.I.events if ev.kind == "branch" and ev.func.endswith("::v") and len(ev.stack) >= 3]
            if not inner:
                rep.undecided("R17.3", module=mi.name, function="w", construct="w uses v only on v's exact branch", message="no guard of v met inside w (idiom not recognised)")
            for ev in inner:
                okb = ev.data["tv"] is False
                (rep.holds if okb else rep.violated)("R17.3", module=mi.name, function="w", construct=f"inside w, v's guard is decided: {norm_text(ev.node, 60)}", line=getattr(ev.node, "lineno", 0),
                                                      message="" if okb else "w's guard threshold is smaller than v's: there is a band where w uses the product form while v already returns its asymptote (w = 0 where W is about 1)")
        if name == "wt":
            rep.assumed("R17.3", module=mi.name, function="wt", construct="wt guards at epsilon, vt at 1e-5", line=f.node.lineno,
                        message="confirmed exception: wt squares vt's asymptote between the two thresholds; the statement's tolerances for vt (2t) and wt (20t + 1e-13/t) were stated for exactly this behaviour")
    # ---------------------------------------------------------------- R17.6 no raising operation for any finite x
    # "for every finite x": outside the sweep box the accuracy clauses are out of reach, but an operation that *raises* on a large
    # finite argument (float ** int raises OverflowError where x * x gives inf; exp of a large positive argument) is visible to the
    # interval analysis on the whole float range.
    for name in ("v", "w", "vt", "wt"):
        f = mi.funcs[name]
        wx = World(prog, roles)
        wx.I.opaque_funcs = {mi.funcs["phi_major"].fq}
        xv, tv = _num("x", -1.7e308, 1.7e308), _num("t", *T_BOX)
        wx.I.call_function(FuncV(fi=f, node=f.node, module=f.module), [xv, tv], {}, f.node, wx.state)
        raising = [d for d in wx.I.obligations.values() if d["kind"] in ("pow-overflow", "exp") and not d["ok"]]
        if wx.I.undecided:
            rep.undecided("R17.6", module=mi.name, function=name, construct=f"{name}: no raising operation for any finite x", message="; ".join(wx.I.undecided[:2]))
        elif raising:
            for d in raising:
                rep.violated("R17.6", module=d["func"].partition("::")[0], function=d["func"].partition("::")[2], construct=f"{d['kind']}: {norm_text(d['node'], 80)} (via {name})", line=getattr(d["node"], "lineno", 0),
                             message=f"reached from {name} with a large finite x: " + "; ".join(d["msgs"]) + " — an exception instead of a finite value")
        else:
            rep.holds("R17.6", module=mi.name, function=name, construct=f"{name}: no raising operation for any finite x", line=f.node.lineno)
    # ---------------------------------------------------------------- R17.5 vt is odd and wt is even in x, branch by branch
    for name, parity in (("vt", -1), ("wt", 1)):
        _parity_rule(prog, roles, mi, rep, name, parity)
    # R17.2
    if "v" in results:
        r = results["v"]
        ok = isinstance(r, Num) and r.rng is not None and r.rng.ge0()
        (rep.holds if ok else rep.violated)("R17.2", module=mi.name, function="v", construct="v(x, t) >= 0", line=mi.funcs["v"].node.lineno,
                                             message="" if ok else f"interval analysis gives {getattr(r, 'rng', None)} for v: the asymptotic branch or the quotient can be negative", detail={"range": str(getattr(r, "rng", None))})
    rep.floor("R17.1", 1)
    rep.floor("R17.2", 1)
    rep.floor("R17.3", 4)
    rep.floor("R17.4", 4)
    rep.floor("R17.5", 2)
    rep.floor("R17.6", 4)
