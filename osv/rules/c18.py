"""C18 — rating comparison operators order players exactly as ordinal() does.

R18.1 the four order operators on the finite set of orderings of (a.ordinal(), b.ordinal()) and on foreign
operands; R18.2 equality on the orderings of (mu, sigma); R18.3 ordinal = mu - z*sigma, z default 3;
R18.4 own-class test (foreign classes include every other model's rating class).
"""

from __future__ import annotations

import ast
from fractions import Fraction
from typing import Any, Dict, List

from ..ai.values import Bool, Bottom, FuncV, NoneV, Num, Opaque, Ptr, Str, Top, Val, short
from ..ai.world import World
from ..frontend import Program, norm_text
from ..poly import p_add, p_atom, p_const, p_mul, p_neg, show, to_poly
from ..report import Instance, Report
from .harness import parallel_map

OPS = {
    "__lt__": {"LT": True, "EQ": False, "GT": False, "UN": False},
    "__le__": {"LT": True, "EQ": True, "GT": False, "UN": False},
    "__gt__": {"LT": False, "EQ": False, "GT": True, "UN": False},
    "__ge__": {"LT": False, "EQ": True, "GT": True, "UN": False},
}
RELS = ("LT", "EQ", "GT", "UN")


def _two(prog, roles, other_cls=None):
    w = World(prog, roles)
    w.make_rating_object("A", (), (), origin="input:player")
    w.make_rating_object("B", (), (), rating_cls=other_cls or roles.rating, origin="input:player")
    return w, Ptr("A", ()), Ptr("B", ())


def _call(w: World, cls, name: str, recv: Ptr, args: List[Val]):
    m = cls.lookup(name)
    if m is None:
        return None, None
    w.I.raises.clear()
    res = w.I.call_function(FuncV(fi=m, node=m.node, self_val=recv, module=m.module), args, {}, m.node, w.state)
    return m, res


ROOT_ORDER = ["__lt__", "__le__", "__gt__", "__ge__"]  # functools.total_ordering prefers max(roots) in string order
SYNTH = {
    # root -> {derived: (uses_not_root, combine, uses_eq)}   combine in {"and_ne", "or_eq", "not"}
    "__lt__": {"__gt__": ("not", "and_ne"), "__le__": ("id", "or_eq"), "__ge__": ("not", None)},
    "__le__": {"__ge__": ("not", "or_eq"), "__lt__": ("id", "and_ne"), "__gt__": ("not", None)},
    "__gt__": {"__lt__": ("not", "and_ne"), "__ge__": ("id", "or_eq"), "__le__": ("not", None)},
    "__ge__": {"__le__": ("not", "or_eq"), "__gt__": ("id", "and_ne"), "__lt__": ("not", None)},
}


def _has_total_ordering(R) -> bool:
    return any("total_ordering" in d for c in R.mro for d in c.decorators)


def _tv(v):
    return v.tv if isinstance(v, Bool) else None


def _not(x):
    return None if x is None else (not x)


def _and(x, y):
    if x is False or y is False:
        return False
    if x is True and y is True:
        return True
    return None


def _or(x, y):
    if x is True or y is True:
        return True
    if x is False and y is False:
        return False
    return None


def call_operator(w: World, R, opname: str, a: Ptr, other: Val):
    """Evaluate `a <op> other` through the class's own method, or through functools.total_ordering's documented
    synthesis when the class is decorated with it and lacks the method. Returns (method-or-root FuncInfo, result)."""
    meth = R.lookup(opname)
    if meth is not None:
        return _call(w, R, opname, a, [other])
    if not _has_total_ordering(R):
        return None, None
    roots = [op for op in ROOT_ORDER if R.lookup(op) is not None]
    if not roots:
        return None, None
    root = max(roots)
    how, comb = SYNTH[root][opname]
    m, res = _call(w, R, root, a, [other])
    if w.state.bottom or isinstance(res, Opaque):
        return m, res  # raised, or NotImplemented is passed through
    r = _tv(res)
    if how == "not":
        r = _not(r)
    if comb is not None:
        raises_before = list(w.I.raises)
        _, eq = _call(w, R, "__eq__", a, [other])
        w.I.raises[:0] = raises_before
        e = _tv(eq)
        if isinstance(eq, Opaque) and eq.tag == "NotImplemented":
            e = False  # falls back to identity: two distinct objects
        r = _and(r, _not(e)) if comb == "and_ne" else _or(r, e)
    return m, Bool(r)


def _foreign_values(prog, roles):
    vals = [("None", lambda w: NoneV()), ("number", lambda w: Num(kinds=frozenset({"float"}))), ("str", lambda w: Str("x")),
            ("object", lambda w: Opaque("object", True))]
    for o in prog.roles():
        if o.rating is not roles.rating:
            def mk(w, o=o):
                w.make_rating_object("F", (), (), rating_cls=o.rating, origin="input:foreign")
                return Ptr("F", ())

            vals.append((f"rating of {o.short}", mk))
    return vals


def _job(idx: int) -> List[Dict[str, Any]]:
    prog = Program()
    roles = prog.roles()[idx]
    R = roles.rating
    mod = R.module.name
    out: List[Dict[str, Any]] = []

    def inst(rule, verdict, fn, construct, line, message="", detail=None):
        out.append(dict(rule=rule, verdict=verdict, module=mod, function=f"{R.name}.{fn}", construct=construct, line=line, message=message, detail=detail or {}))

    # ---------------------------------------------------------------- R18.3 ordinal
    w, a, b = _two(prog, roles)
    m, TA = _call(w, R, "ordinal", a, [])
    if m is None:
        inst("R18.3", "VIOLATED", "ordinal", "ordinal missing", R.node.lineno, f"{R.name} has no ordinal()")
        return out
    mu_a, sg_a = p_atom(("in", "A", "mu", ())), p_atom(("in", "A", "sigma", ()))
    want = p_add(mu_a, p_mul(p_const(3), sg_a), -1)
    got = to_poly(TA.sym) if isinstance(TA, Num) else None
    ok = got is not None and got == want and not w.I.raises and not w.I.undecided
    inst("R18.3", "HOLDS" if ok else ("UNDECIDED" if w.I.undecided else "VIOLATED"), "ordinal", "ordinal() == mu - 3*sigma", m.node.lineno,
         "" if ok else f"ordinal() with the default z evaluates to {show(got)} instead of mu - 3*sigma", {"normal_form": show(got)})
    w2, a2, _ = _two(prog, roles)
    z = Num(kinds=frozenset({"float"}), sym=("param", "z"))
    m, TZ = _call(w2, R, "ordinal", a2, [z])
    want_z = p_add(mu_a, p_mul(p_atom(("param", "z")), sg_a), -1)
    got_z = to_poly(TZ.sym) if isinstance(TZ, Num) else None
    ok = got_z is not None and got_z == want_z and not w2.I.raises
    inst("R18.3", "HOLDS" if ok else "VIOLATED", "ordinal", "ordinal(z) == mu - z*sigma", m.node.lineno,
         "" if ok else f"ordinal(z) evaluates to {show(got_z)} instead of mu - z*sigma", {"normal_form": show(got_z)})

    # ---------------------------------------------------------------- R18.5 ordinal follows the current (mu, sigma); comparisons have no side effects
    w5, a5, b5 = _two(prog, roles)
    _call(w5, R, "ordinal", a5, [])
    for opn in ("__lt__", "__eq__"):
        if R.lookup(opn) is not None:
            _call(w5, R, opn, a5, [b5])
    side = [ev for ev in w5.I.events if ev.kind in ("write", "mutate") and not ev.data.get("origin", "").startswith("alloc:openskill")]
    side = [ev for ev in w5.I.events if ev.kind == "write" and ev.data["origin"].startswith("input")] + [ev for ev in w5.I.events if ev.kind == "mutate" and (ev.data["origin"].startswith("input") or ev.data["origin"].startswith("global"))]
    for ev in side[:2]:
        m_, _, qn = ev.func.partition("::")
        out.append(dict(rule="R18.5", verdict="VIOLATED", module=m_, function=qn, construct=norm_text(ev.node, 90), line=getattr(ev.node, "lineno", 0),
                        message="evaluating ordinal()/a comparison modifies state (a cached value that in-place updates of mu/sigma do not invalidate)", detail={}))
    mu2 = Num(kinds=frozenset({"float"}), sym=("param", "mu2"))
    w5.I.write_field(w5.state, a5, "mu", mu2, R.node)
    w5.I.raises.clear()
    m5, T5 = _call(w5, R, "ordinal", a5, [])
    want5 = p_add(p_atom(("param", "mu2")), p_mul(p_const(3), p_atom(("in", "A", "sigma", ()))), -1)
    got5 = to_poly(T5.sym) if isinstance(T5, Num) else None
    ok5 = got5 is not None and got5 == want5
    inst("R18.5", "HOLDS" if ok5 else "VIOLATED", "ordinal", "ordinal() follows an in-place change of mu", m5.node.lineno if m5 else R.node.lineno,
         "" if ok5 else f"after mu is reassigned in place, ordinal() evaluates to {show(got5)} instead of the new mu - 3*sigma: operators and sorting use a stale value", {"normal_form": show(got5)})

    # ---------------------------------------------------------------- R18.1 order operators
    for opname, table in OPS.items():
        meth = R.lookup(opname)
        if meth is None:
            if _has_total_ordering(R) and any(R.lookup(op) for op in ROOT_ORDER):
                meth = R.lookup(max(op for op in ROOT_ORDER if R.lookup(op)))
                w.I.axiom("functools.total_ordering synthesises the missing operators from the root operator and == as documented (functools._convert)") if False else None
            else:
                inst("R18.1", "VIOLATED", opname, f"{opname} missing", R.node.lineno, f"{R.name} does not define {opname}")
                continue
        for rel in RELS:
            w, a, b = _two(prog, roles)
            _, ta = _call(w, R, "ordinal", a, [])
            _, tb = _call(w, R, "ordinal", b, [])
            if not (isinstance(ta, Num) and isinstance(tb, Num) and ta.sym is not None and tb.sym is not None):
                inst("R18.1", "UNDECIDED", opname, f"{opname} on {rel}", meth.node.lineno, "ordinal() has no symbolic value")
                continue
            w.state.rel_set(ta.sym, tb.sym, frozenset({rel}))
            _, res = call_operator(w, R, opname, a, b)
            want_tv = table[rel]
            c = f"a.ordinal() {rel} b.ordinal() => a {opname} b is {want_tv}"
            if w.I.undecided:
                inst("R18.1", "UNDECIDED", opname, c, meth.node.lineno, "; ".join(w.I.undecided[:2]))
            elif w.I.raises or w.state.bottom:
                inst("R18.1", "VIOLATED", opname, c, meth.node.lineno, f"{opname} raises {[e.data['exc'] for e in w.I.raises]} on two ratings of the same model")
            elif isinstance(res, Bool) and res.tv is want_tv:
                inst("R18.1", "HOLDS", opname, c, meth.node.lineno, "", {"relation": rel, "result": res.tv})
            else:
                got = res.tv if isinstance(res, Bool) else short(res)
                why = "does not follow from the order of the two ordinals (compares something else, or with the wrong operator)" if got is None else f"is {got}"
                inst("R18.1", "VIOLATED", opname, c, meth.node.lineno, f"when a.ordinal() {rel} b.ordinal(), a {opname} b {why}; expected {want_tv}", {"relation": rel, "result": str(got)})
        for label, mk in _foreign_values(prog, roles):
            w, a, _ = _two(prog, roles)
            other = mk(w)
            _, res = call_operator(w, R, opname, a, other)
            c = f"{opname} with foreign operand ({label}) raises ValueError"
            excs = sorted({e.data["exc"] for e in w.I.raises})
            if w.I.undecided:
                inst("R18.1", "UNDECIDED", opname, c, meth.node.lineno, "; ".join(w.I.undecided[:2]))
            elif not w.state.bottom:
                inst("R18.1", "VIOLATED", opname, c, meth.node.lineno, f"comparison with {label} returns {short(res)} instead of raising ValueError", {"operand": label})
            elif excs != ["ValueError"] and not all("ValueError" in e.data.get("mro", ()) for e in w.I.raises):
                inst("R18.1", "VIOLATED", opname, c, meth.node.lineno, f"comparison with {label} raises {excs}, not ValueError", {"operand": label})
            else:
                inst("R18.1", "HOLDS", opname, c, meth.node.lineno, "", {"operand": label})

    # ---------------------------------------------------------------- R18.2 equality
    eq = R.lookup("__eq__")
    if eq is None:
        inst("R18.2", "VIOLATED", "__eq__", "__eq__ missing", R.node.lineno, f"{R.name} does not define __eq__ (identity comparison)")
    else:
        for rmu in ("EQ", "NE"):
            for rsg in ("EQ", "NE"):
                w, a, b = _two(prog, roles)
                for fld, r in (("mu", rmu), ("sigma", rsg)):
                    w.state.rel_set(("in", "A", fld, ()), ("in", "B", fld, ()), frozenset({"EQ"}) if r == "EQ" else frozenset({"LT", "GT"}))
                _, res = _call(w, R, "__eq__", a, [b])
                want_tv = rmu == "EQ" and rsg == "EQ"
                c = f"mu {rmu}, sigma {rsg} => a == b is {want_tv}"
                if w.I.undecided:
                    inst("R18.2", "UNDECIDED", "__eq__", c, eq.node.lineno, "; ".join(w.I.undecided[:2]))
                elif isinstance(res, Bool) and res.tv is want_tv and not w.I.raises:
                    inst("R18.2", "HOLDS", "__eq__", c, eq.node.lineno, "", {"result": res.tv})
                else:
                    got = res.tv if isinstance(res, Bool) else short(res)
                    inst("R18.2", "VIOLATED", "__eq__", c, eq.node.lineno, f"a == b evaluates to {got} (raises: {[e.data['exc'] for e in w.I.raises]}); expected {want_tv}")
        for label, mk in _foreign_values(prog, roles):
            w, a, _ = _two(prog, roles)
            other = mk(w)
            _, res = _call(w, R, "__eq__", a, [other])
            c = f"== with foreign operand ({label}) is unequal"
            ok = not w.I.raises and not w.state.bottom and ((isinstance(res, Opaque) and res.tag == "NotImplemented") or (isinstance(res, Bool) and res.tv is False))
            inst("R18.2", "HOLDS" if ok else ("UNDECIDED" if w.I.undecided else "VIOLATED"), "__eq__", c, eq.node.lineno,
                 "" if ok else f"== with {label} gives {short(res)} / raises {[e.data['exc'] for e in w.I.raises]}; expected NotImplemented or False", {"operand": label})
        ne = R.lookup("__ne__")
        if ne is not None:
            inst("R18.2", "UNDECIDED", "__ne__", "__ne__ defined", ne.node.lineno, "a hand-written __ne__ is not checked against __eq__")
    return out


def run(prog: Program, rep: Report, tier: str = "quick") -> None:
    roles = prog.roles()
    rep.explanation = (
        "The operators touch ordinals only through comparisons, so the input space collapses to the relation between a.ordinal() and "
        "b.ordinal() (LT, EQ, GT, unordered/NaN) and to the class of the other operand. Each of the 20 operators is evaluated abstractly on "
        "every relation and on every foreign operand class (other models' ratings, None, number, str, object); __eq__ on the four "
        "orderings of (mu, sigma); ordinal's value is normalised and compared with mu - z*sigma (z default 3). Exhaustive over the abstract domain."
    )
    rep.rule_text = "5 rating classes x (4 operators x (4 relations + 8 foreign operand classes) + __eq__ x (4 + 8) + 2 ordinal forms)"
    rep.exhaustive = True
    rep.trust("abstract interpreter osv/ai with the 3-point order domain (assumed relation between two value-numbered terms)")
    rep.trust("polynomial normal form osv/poly.py for the one-line ordinal formula")
    for lst in parallel_map(_job, list(range(len(roles)))):
        for d in lst:
            rep.add(Instance(d["rule"], d["verdict"], d["module"], d["function"], d["construct"], d["line"], d.get("message", ""), d.get("detail", {})))
    n = len(roles)
    rep.floor("R18.1", 4 * 12 * n)
    rep.floor("R18.2", 12 * n)
    rep.floor("R18.3", 2 * n)
    rep.floor("R18.5", n)
