"""C19 — the five models differ only in their update rule.

R19.1 interface parity, R19.2 shared-code agreement (canonical sibling comparison,
deviant by majority), R19.3 registry completeness, R19.4 Bradley-Terry pair kernels.
"""

from __future__ import annotations

import ast
from collections import Counter, defaultdict
from typing import Dict, List, Tuple

from ..callgraph import CallGraph
from ..canon import canonical_expr_text, canonical_text, diff_text, fold_const
from ..frontend import PUBLIC_OPS, FuncInfo, Program, Roles
from ..report import Report

KERNEL = "_compute"
ROLE_KINDS = ("model", "rating", "team_rating")


def _role_class(r: Roles, kind: str):
    return getattr(r, kind)


def signature(fi: FuncInfo, roles: Roles) -> List[Tuple[str, str, str]]:
    a = fi.node.args
    out = [("decorator", fi.kind if not fi.kind.startswith("decorated") else fi.kind, "")]

    def dflt(d):
        if d is None:
            return ""
        fc = fold_const(d)
        if fc is not None:
            return f"{fc[0]}:{fc[1]!r}"
        return canonical_expr_text(d, roles)

    pos = list(a.posonlyargs) + list(a.args)
    defaults = [None] * (len(pos) - len(a.defaults)) + list(a.defaults)
    for i, (p, d) in enumerate(zip(pos, defaults)):
        out.append(("posonly" if i < len(a.posonlyargs) else "pos", p.arg, dflt(d)))
    if a.vararg:
        out.append(("vararg", a.vararg.arg, ""))
    for p, d in zip(a.kwonlyargs, a.kw_defaults):
        out.append(("kwonly", p.arg, dflt(d)))
    if a.kwarg:
        out.append(("kwarg", a.kwarg.arg, ""))
    return out


def api_reachable_outside_kernel(prog: Program, r: Roles) -> List[FuncInfo]:
    """Functions reachable from the public/dunder API of the three role classes without entering the kernel."""
    cg = CallGraph(prog, r)
    roots = []
    for ci in (r.model, r.rating, r.team_rating):
        for name in ci.all_method_names():
            if name == KERNEL:
                continue
            if not name.startswith("_") or (name.startswith("__") and name.endswith("__")):
                m = ci.lookup(name)
                if m is not None:
                    roots.append(m)
    return cg.reachable(roots, receiver=r.model, cut=(KERNEL,))


def kernel_only(prog: Program, r: Roles) -> List[FuncInfo]:
    """Functions of a model reachable from its API only through the update kernel."""
    cg = CallGraph(prog, r)
    roots = []
    for ci in (r.model, r.rating, r.team_rating):
        for name in ci.all_method_names():
            if name == KERNEL:
                continue
            if not name.startswith("_") or (name.startswith("__") and name.endswith("__")):
                m = ci.lookup(name)
                if m is not None:
                    roots.append(m)
    outside = set(cg.reachable(roots, receiver=r.model, cut=(KERNEL,)))
    kern = r.model.lookup(KERNEL)
    inside = set(cg.reachable([kern], receiver=r.model)) if kern else set()
    return [f for f in inside if f not in outside]


def run(prog: Program, rep: Report, tier: str = "quick") -> None:
    roles = prog.roles()
    rep.explanation = (
        "Sibling agreement over the resolved definitions of the registered models: every method of the model, "
        "Rating and TeamRating roles that is reachable outside the update kernel (_compute and what only it "
        "calls) has one canonical form across all copies (docstrings, annotations, messages, role names and "
        "local names normalised); public/dunder method sets, signatures and default values agree; the registry "
        "is complete. A copy in the minority is named as the deviant with a canonical diff. Decides the "
        "'same operations, same signatures, same validation, same predictions, same compare/hash/copy rules' "
        "clauses structurally for every input at once; BT-part == BT-full on two teams is decided as equality of "
        "the per-pair kernel terms (R19.4), the remaining premise (_ladder_pairs on two teams yields the other "
        "team) is a run-time fact pinned by test_ladder_pairs."
    )
    rep.rule_text = (
        "one instance per (role, method) group compared across the registered models, per signature group, "
        "per registry fact; non-trivial = at least two resolved definitions were compared"
    )
    if len(roles) < 2:
        rep.error("fewer than two registered models: nothing to compare")
        return
    rep.trust("canonicaliser (osv/canon.py): equality of canonical text is taken to imply equal behaviour")
    rep.trust("own name/callee resolver (no type checker available)")

    # ---------------------------------------------------------------- R19.3 registry
    reg = prog.registry()
    names = [c.name for c in reg]
    if len(set(reg)) != len(reg):
        rep.violated(
            "R19.3", module="openskill.models", function="MODELS", construct="MODELS", message=f"duplicate entries in MODELS: {names}"
        )
    else:
        rep.holds("R19.3", module="openskill.models", function="MODELS", construct="MODELS", detail={"models": names})
    for modname in (f"{prog.package}.models", f"{prog.package}.models.weng_lin"):
        mi = prog.modules.get(modname)
        if mi is None:
            continue
        allv = mi.assigns.get("__all__", [])
        exported = set()
        for v in allv:
            if isinstance(v, (ast.List, ast.Tuple)):
                exported |= {e.value for e in v.elts if isinstance(e, ast.Constant)}
        for r in roles:
            for ci in (r.model, r.rating):
                if ci.name in exported and prog.resolve_module_attr(modname, ci.name) == ("class", ci):
                    rep.holds("R19.3", module=modname, function="__all__", construct=ci.name)
                else:
                    rep.violated(
                        "R19.3",
                        module=modname,
                        function="__all__",
                        construct=ci.name,
                        message=f"{ci.name} is not exported by {modname}.__all__ (or resolves elsewhere)",
                    )
    # a class with the model role that is not registered
    for ci in prog.all_classes():
        if ci in reg:
            continue
        if all(ci.lookup(op) is not None for op in PUBLIC_OPS) and ci.node.body:
            # abstract bases of registered models are fine
            if any(ci in m.mro for m in reg):
                continue
            rep.violated(
                "R19.3",
                module=ci.module.name,
                function=ci.name,
                construct=f"class {ci.name}",
                line=ci.node.lineno,
                message=f"class {ci.name} has the model role (rate/predict_*) but is not in MODELS",
            )
    rep.floor("R19.3", 1 + 2 * 2 * len(roles))

    # ---------------------------------------------------------------- R19.1 interface parity
    for kind in ROLE_KINDS:
        per_model = {}
        for r in roles:
            ci = _role_class(r, kind)
            per_model[r.short] = {
                n for n in ci.all_method_names() if not n.startswith("_") or (n.startswith("__") and n.endswith("__"))
            }
        union = set().union(*per_model.values())
        for name in sorted(union):
            missing = [m for m, s in per_model.items() if name not in s]
            if missing:
                for m in missing:
                    r = next(x for x in roles if x.short == m)
                    ci = _role_class(r, kind)
                    rep.violated(
                        "R19.1",
                        module=ci.module.name,
                        function=ci.name,
                        construct=f"{kind}.{name} missing",
                        line=ci.node.lineno,
                        message=f"{ci.name} lacks the operation '{name}' that the other models' {kind} role exposes",
                    )
                continue
            sigs = {}
            for r in roles:
                ci = _role_class(r, kind)
                sigs[r.short] = (signature(ci.lookup(name), r), ci.lookup(name))
            groups = Counter(repr(s[0]) for s in sigs.values())
            if len(groups) == 1:
                rep.holds(
                    "R19.1",
                    module="*",
                    function=f"{kind}.{name}",
                    construct=f"signature {kind}.{name}",
                    detail={"signature": [list(x) for x in next(iter(sigs.values()))[0]], "copies": len(sigs)},
                )
            else:
                major = groups.most_common(1)[0][0]
                for m, (sig, fi) in sigs.items():
                    if repr(sig) != major:
                        rep.violated(
                            "R19.1",
                            module=fi.module.name,
                            function=fi.qualname,
                            construct=f"signature {kind}.{name}",
                            line=fi.node.lineno,
                            message=f"signature of {fi.qualname} differs from the majority: {sig} vs {major}",
                        )
    rep.floor("R19.1", 15)

    # ---------------------------------------------------------------- R19.2 shared-code agreement
    outside_sets = {r.short: set(api_reachable_outside_kernel(prog, r)) for r in roles}
    compared = 0
    for kind in ROLE_KINDS:
        names = []
        for r in roles:
            for n in _role_class(r, kind).all_method_names():
                if n not in names:
                    names.append(n)
        for name in names:
            defs: Dict[str, FuncInfo] = {}
            for r in roles:
                m = _role_class(r, kind).lookup(name)
                if m is not None:
                    defs[r.short] = m
            if name == KERNEL and kind == "model":
                continue
            # exempt when no copy is reachable from the API other than through the kernel
            # (kernel helpers such as _c/_sum_q/_a, or dead private code)
            if all(defs[m] not in outside_sets[m] for m in defs):
                rep.assumed(
                    "R19.2",
                    module="*",
                    function=f"{kind}.{name}",
                    construct=f"{kind}.{name}",
                    message="reachable from the API only through the update kernel (or not at all): part of the update rule, not compared",
                    nontrivial=False,
                )
                continue
            if len(defs) < 2:
                continue
            texts = {}
            for r in roles:
                if r.short in defs:
                    texts[r.short] = canonical_text(defs[r.short], r)
                    rep.functions_analysed.append(defs[r.short].fq)
            compared += len(texts)
            groups = defaultdict(list)
            for m, t in texts.items():
                groups[t].append(m)
            if len(groups) == 1:
                rep.holds(
                    "R19.2",
                    module="*",
                    function=f"{kind}.{name}",
                    construct=f"{kind}.{name}",
                    detail={"copies": len(texts)},
                )
                continue
            ordered = sorted(groups.items(), key=lambda kv: -len(kv[1]))
            major_text, major_members = ordered[0]
            for t, members in ordered[1:]:
                for m in members:
                    fi = defs[m]
                    rep.violated(
                        "R19.2",
                        module=fi.module.name,
                        function=fi.qualname,
                        construct=f"{kind}.{name}",
                        line=fi.node.lineno,
                        message=(
                            f"{fi.qualname} deviates from the {len(major_members)} cop{'y' if len(major_members)==1 else 'ies'} "
                            f"in {major_members}:\n" + diff_text(major_text, t, "majority", m)
                        ),
                    )
    rep.extra["definitions_compared"] = compared
    rep.floor("R19.2", 25)

    run_r194(prog, rep)
    from . import game

    game.add_instances(rep, game.c19_job, [tier], "R19.5", 9)
    rep.arbitrate({"R19.4"}, "R19.5", "Bradley-Terry partial pairing == full pairing on two teams")
    rep.supersede({"R19.4"}, "R19.5", "Bradley-Terry partial pairing == full pairing on two teams")
    game.add_instances(rep, game.c19_pred_job, [tier], "R19.6", 12 * (len(prog.roles()) - 1))

    # class-level attributes and decorators of the role classes
    for kind in ROLE_KINDS:
        descr = {}
        for r in roles:
            ci = _role_class(r, kind)
            attrs = {}
            for c in reversed(ci.mro):
                for k, v in c.class_attrs.items():
                    # a plain string literal (display label / model name) legitimately differs between the siblings
                    attrs[k] = "<str>" if isinstance(v, ast.Constant) and isinstance(v.value, str) else canonical_expr_text(v, r)
            descr[r.short] = (
                tuple(sorted(attrs.items())),
                tuple(sorted(set(d for c in ci.mro for d in c.decorators))),
                tuple(sorted(set(ci.ext_ancestors()))),
            )
        groups = Counter(descr.values())
        if len(groups) == 1:
            rep.holds("R19.1", module="*", function=kind, construct=f"class attributes/decorators of {kind}")
        else:
            major = groups.most_common(1)[0][0]
            for r in roles:
                if descr[r.short] != major:
                    ci = _role_class(r, kind)
                    rep.violated(
                        "R19.1",
                        module=ci.module.name,
                        function=ci.name,
                        construct=f"class attributes/decorators of {kind}",
                        line=ci.node.lineno,
                        message=f"class-level attributes/decorators/bases of {ci.name} differ from the majority: {descr[r.short]} vs {major}",
                    )


# ======================================================================================
# R19.4 pairing kernels: Bradley-Terry partial pairing uses the same per-pair exchange as full pairing
# ======================================================================================
import copy as _copy


def _pair_block(fi: FuncInfo):
    """The innermost `for` loop of the kernel that calls the callback slot (self.gamma): its body is the per-pair
    exchange. A leading self-exclusion guard (`if q == i: continue`) is not part of the exchange."""
    best = None
    for n in ast.walk(fi.node):
        if isinstance(n, ast.For):
            has_cb = any(isinstance(c, ast.Call) and isinstance(c.func, ast.Attribute) and isinstance(c.func.value, ast.Name) and c.func.value.id == "self" and c.func.attr == "gamma"
                         for c in ast.walk(n))
            inner_for = any(isinstance(c, ast.For) and c is not n and any(isinstance(x, ast.Call) and isinstance(x.func, ast.Attribute) and getattr(x.func.value, "id", None) == "self" and x.func.attr == "gamma" for x in ast.walk(c))
                            for c in ast.walk(n))
            if has_cb and not inner_for:
                best = n
    if best is None:
        return None
    body = list(best.body)
    if body and isinstance(body[0], ast.If) and len(body[0].body) == 1 and isinstance(body[0].body[0], ast.Continue) and not body[0].orelse:
        body = body[1:]
    return body


class _AlphaAll(ast.NodeTransformer):
    """Rename every plain name by order of first occurrence (blocks are compared up to consistent renaming);
    numeric literals compare by value (1 == 1.0: they always meet a float operand here)."""

    def __init__(self):
        self.ren = {}

    def visit_Name(self, node):
        if node.id in ("self", "math", "True", "False", "None") or node.id in dir(__builtins__):
            return node
        if node.id not in self.ren:
            self.ren[node.id] = f"n{len(self.ren)}"
        return ast.Name(id=self.ren[node.id], ctx=ast.Load())

    def visit_Constant(self, node):
        if isinstance(node.value, (int, float)) and not isinstance(node.value, bool):
            return ast.Constant(value=float(node.value))
        return node

    def visit_AnnAssign(self, node):
        if node.value is None:
            return None
        return self.visit(ast.Assign(targets=[node.target], value=node.value))


def pair_block_text(fi: FuncInfo):
    body = _pair_block(fi)
    if body is None:
        return None
    mod = ast.Module(body=[_copy.deepcopy(s) for s in body], type_ignores=[])
    out = _AlphaAll().visit(mod)
    ast.fix_missing_locations(out)
    return ast.unparse(out)


def _kernel_handlers(prog: Program, roles: Roles) -> List[str]:
    """Exception handlers (caught types, and whether they re-raise) in the update kernel and everything of the package it
    reaches: what the kernel does on inputs where a partial operation fails."""
    cg = CallGraph(prog, roles)
    start = roles.model.lookup(KERNEL)
    seen, todo, out = set(), [start] if start else [], []
    while todo:
        fi = todo.pop()
        if fi is None or fi in seen:
            continue
        seen.add(fi)
        for n in ast.walk(fi.node):
            if isinstance(n, ast.Try):
                for h in n.handlers:
                    reraises = any(isinstance(x, ast.Raise) for x in ast.walk(h))
                    out.append(f"{ast.unparse(h.type) if h.type is not None else 'BaseException'}{' (re-raised)' if reraises else ''}")
                if n.finalbody:
                    out.append("finally")
            elif isinstance(n, ast.With):
                out.append("with " + ", ".join(ast.unparse(i.context_expr.func) if isinstance(i.context_expr, ast.Call) else ast.unparse(i.context_expr) for i in n.items))
        for cs in cg.callsites(fi):
            todo.extend(cs.targets)
    return sorted(out)


def run_r194(prog: Program, rep: Report) -> None:
    by_name = {r.model.name: r for r in prog.roles()}
    pairs = [("BradleyTerryFull", "BradleyTerryPart", True), ("ThurstoneMostellerFull", "ThurstoneMostellerPart", False)]
    for full, part, claimed in pairs:
        if full not in by_name or part not in by_name:
            if claimed:
                rep.undecided("R19.4", module="openskill.models", function="MODELS", construct=f"{full} / {part}", message="the two Bradley-Terry models named in the statement were not found in the registry")
            continue
        kf, kp = by_name[full].model.lookup(KERNEL), by_name[part].model.lookup(KERNEL)
        tf, tp = (pair_block_text(k) if k else None for k in (kf, kp))
        c = f"per-pair exchange of {part} == {full}"
        if claimed and kf and kp:
            # the two kernels also have to fail alike: the exceptions they intercept (anywhere below the kernel) are the same
            hf, hp = _kernel_handlers(prog, by_name[full]), _kernel_handlers(prog, by_name[part])
            ce = f"exceptions intercepted below {part}.{KERNEL} == {full}.{KERNEL}"
            if hf == hp:
                rep.holds("R19.4", module=by_name[part].model.module.name, function=f"{part}.{KERNEL}", construct=ce, line=kp.node.lineno, detail={"handlers": hf})
            else:
                rep.violated("R19.4", module=by_name[part].model.module.name, function=f"{part}.{KERNEL}", construct=ce, line=kp.node.lineno,
                             message=f"{part}'s kernel intercepts {hp or 'nothing'} where {full}'s intercepts {hf or 'nothing'}: where the guarded operation fails one model raises and the other "
                                     "returns a value, so on two-team games partial pairing does not return exactly what full pairing returns")
        if claimed:
            # semantic comparison first: what one pair (i, q) adds to the accumulators behind the mu and sigma updates, as normal
            # forms of the abstract evaluation under each relation of the two ranks (independent of how the kernel is spelled)
            from ..poly import show
            from .c07 import exchange_terms

            try:
                ef, why_f = exchange_terms(prog, by_name[full])
                ep, why_p = exchange_terms(prog, by_name[part])
            except Exception as e:  # the textual comparison below still decides
                ef, ep, why_f, why_p = None, None, f"{type(e).__name__}: {e}", ""
            if ef is not None and ep is not None and all(ef[r_].get("omega") and ef[r_].get("delta") for r_ in ("LT", "GT")):
                diffs = [(rel, kind) for rel in ("LT", "EQ", "GT") for kind in ("omega", "delta") if ef[rel].get(kind) != ep[rel].get(kind)]
                if not diffs:
                    rep.holds("R19.4", module=by_name[part].model.module.name, function=f"{part}.{KERNEL}", construct=c, line=kp.node.lineno,
                              detail={"how": "normal forms of the pair terms (omega, delta) under rank(q) <, =, > rank(i) are identical", "text_identical": tf is not None and tf == tp})
                else:
                    rel, kind = diffs[0]
                    rep.violated("R19.4", module=by_name[part].model.module.name, function=f"{part}.{KERNEL}", construct=c, line=kp.node.lineno,
                                 message=f"the per-pair exchange of {part} differs from {full}'s (the {kind} term when rank(q) {rel} rank(i)): on two-team games partial pairing no longer returns exactly "
                                         f"what full pairing returns\n  {full}: {show(ef[rel].get(kind), 300)}\n  {part}: {show(ep[rel].get(kind), 300)}")
                continue
        if (tf is None or tp is None) and not claimed:
            rep.assumed("R19.4", module=by_name[part].model.module.name, function=f"{part}.{KERNEL}", construct=c, line=kp.node.lineno if kp else 0,
                        message="not compared: the per-pair block could not be located in both kernels (the statement does not claim these two models equal)")
            continue
        if tf is None or tp is None:
            rep.undecided("R19.4", module=by_name[part].model.module.name, function=f"{part}.{KERNEL}", construct=c, message="could not locate the per-pair block (innermost loop calling the gamma callback)")
            continue
        if tf == tp:
            rep.holds("R19.4", module=by_name[part].model.module.name, function=f"{part}.{KERNEL}", construct=c, line=kp.node.lineno, detail={"statements": len(tf.splitlines())})
        elif claimed:
            rep.violated("R19.4", module=by_name[part].model.module.name, function=f"{part}.{KERNEL}", construct=c, line=kp.node.lineno,
                         message=f"the per-pair exchange of {part} differs from {full}'s: on two-team games partial pairing no longer returns exactly what full pairing returns\n" + diff_text(tf, tp, full, part))
        else:
            # Thurstone-Mosteller full vs part are not claimed equal (factor 2 in c_iq): recorded as a confirmed instance; any other difference is reported
            lines_f, lines_p = tf.splitlines(), tp.splitlines()
            diffs = [(a, b) for a, b in zip(lines_f, lines_p) if a != b]
            only_factor = len(lines_f) == len(lines_p) and len(diffs) == 1 and diffs[0][1].replace("2.0 * ", "", 1) == diffs[0][0]
            if only_factor:
                rep.assumed("R19.4", module=by_name[part].model.module.name, function=f"{part}.{KERNEL}", construct=c, line=kp.node.lineno,
                            message="confirmed difference: partial pairing scales c_iq by 2 (not claimed equal by the statement); everything else agrees")
            else:
                rep.violated("R19.4", module=by_name[part].model.module.name, function=f"{part}.{KERNEL}", construct=c, line=kp.node.lineno,
                             message=f"the per-pair exchange of {part} differs from {full}'s beyond the documented factor 2 in c_iq\n" + diff_text(tf, tp, full, part))
    rep.floor("R19.4", 1)
