"""C20 — ratings can be built, stored and restored without changing any later result.

R20.1 `is None` defaulting in Model.rating (option domain), R20.2 create_rating transfer and rejection,
R20.3 constructor identity and fresh id, R20.4 copy completeness of deepcopy, R20.5 no hidden per-rating state.
"""

from __future__ import annotations

from typing import Any, Dict, List

from ..ai.domains import lift_const
from ..ai.state import InstObj
from ..ai.values import Bool, Bottom, Interval, NoneV, Num, Opaque, Ptr, Str, Top, Val, short
from ..ai.world import World
from ..frontend import PUBLIC_OPS, Program, norm_text
from ..report import Instance, Report
from .harness import parallel_map, run_op, where

FLOAT = frozenset({"float"})


def _arg(name: str, cls: str) -> Val:
    sym = ("param", f"arg.{name}")
    prov = frozenset({f"ARG:{name}"})
    if cls == "None":
        return NoneV()
    if cls == "zero":
        return Num(kinds=frozenset({"int", "float"}), rng=Interval.point(0.0), prov=prov, sym=sym)
    return Num(kinds=frozenset({"int", "float"}), prov=prov, sym=sym)  # any finite number, negative included


def _fields(w: World, p: Val) -> Dict[str, Val]:
    if not isinstance(p, Ptr) or p.loc not in w.state.heap or not isinstance(w.state.heap[p.loc].obj, InstObj):
        return {}
    return {n: w.I.read_field(w.state, p, n) for n in w.state.heap[p.loc].obj.names()}


def _job(idx: int) -> List[Dict[str, Any]]:
    prog = Program()
    roles = prog.roles()[idx]
    M, R = roles.model, roles.rating
    mod = M.module.name
    out: List[Dict[str, Any]] = []

    def inst(rule, verdict, fn, construct, line, message="", detail=None):
        out.append(dict(rule=rule, verdict=verdict, module=mod, function=fn, construct=construct, line=line, message=message, detail=detail or {}))

    # ---------------------------------------------------------------- R20.1 defaulting
    rating_m = M.lookup("rating")
    for fld in ("mu", "sigma"):
        for cls in ("None", "zero", "any"):
            w = World(prog, roles)
            m = w.make_model()
            args = {"mu": _arg("mu", "any"), "sigma": _arg("sigma", "any"), "name": Str(None, frozenset({"ARG:name"}))}
            args[fld] = _arg(fld, cls)
            w.I.raises.clear()
            res = w.call(m, "rating", [], args)
            c = f"rating({fld}=<{cls}>)"
            f = _fields(w, res)
            if w.I.undecided or w.state.bottom or fld not in f:
                inst("R20.1", "UNDECIDED" if w.I.undecided else "VIOLATED", f"{M.name}.rating", c, rating_m.node.lineno,
                     "; ".join(w.I.undecided[:2]) or f"rating() did not return an object with a '{fld}' attribute (raises {[e.data['exc'] for e in w.I.raises]})")
                continue
            v = f[fld]
            if cls == "None":
                ok = isinstance(v, Num) and f"CTOR:{fld}" in v.prov and f"ARG:{fld}" not in v.prov
                msg = f"with {fld} omitted the rating holds {short(v)}, not the model's default {fld}"
            else:
                ok = isinstance(v, Num) and v.sym == ("param", f"arg.{fld}") and f"CTOR:{fld}" not in v.prov
                msg = f"rating({fld}=<{cls}>) stores {short(v)} (term {getattr(v, 'sym', None)}) instead of exactly the given value" + (" — a zero argument falls back to the default" if cls == "zero" else "")
            inst("R20.1", "HOLDS" if ok else "VIOLATED", f"{M.name}.rating", c, rating_m.node.lineno, "" if ok else msg, {"stored": short(v)})
            nv = f.get("name")
            okn = isinstance(nv, Str) and "ARG:name" in nv.prov
            if not okn or (fld == "mu" and cls == "any"):
                inst("R20.1", "HOLDS" if okn else "VIOLATED", f"{M.name}.rating", f"rating(name=...) keeps the name ({c})", rating_m.node.lineno,
                     "" if okn else f"the name passed to rating() is not stored ({short(nv) if nv else 'missing'}) when called as {c}")
            if fld == "mu" and cls == "any":
                iv = f.get("id")
                oki = isinstance(iv, Str) and "RANDOM" in iv.prov and "DEFTIME" not in iv.prov
                inst("R20.3", "HOLDS" if oki else "VIOLATED", f"{R.name}.__init__", "fresh id per construction", R.node.lineno,
                     "" if oki else f"the id of a new rating is not generated afresh inside the constructor on every construction ({short(iv) if iv else 'no id attribute'})")

    # both numbers omitted at once (the everyday call `model.rating(name="...")`)
    w = World(prog, roles)
    m = w.make_model()
    w.I.raises.clear()
    res = w.call(m, "rating", [], {"mu": _arg("mu", "None"), "sigma": _arg("sigma", "None"), "name": Str(None, frozenset({"ARG:name"}))})
    f = _fields(w, res)
    c = "rating(mu=None, sigma=None, name=...)"
    if w.I.undecided or w.state.bottom or "mu" not in f or "sigma" not in f:
        inst("R20.1", "UNDECIDED" if w.I.undecided else "VIOLATED", f"{M.name}.rating", c, rating_m.node.lineno,
             "; ".join(w.I.undecided[:2]) or f"rating() did not return a rating (raises {[e.data['exc'] for e in w.I.raises]})")
    else:
        okd = all(isinstance(f[x], Num) and f"CTOR:{x}" in f[x].prov for x in ("mu", "sigma"))
        nv = f.get("name")
        okn = isinstance(nv, Str) and "ARG:name" in nv.prov
        inst("R20.1", "HOLDS" if okd and okn else "VIOLATED", f"{M.name}.rating", c, rating_m.node.lineno,
             "" if okd and okn else ("the model defaults are not used for both numbers" if not okd else f"the name passed to rating() is not stored ({short(nv) if nv else 'missing'}) when both numbers are omitted"))

    # ---------------------------------------------------------------- R20.3 constructor identity
    w = World(prog, roles)
    a_mu, a_sg = _arg("mu", "any"), _arg("sigma", "any")
    p = w.I.instantiate(R, [a_mu, a_sg, Str(None, frozenset({"ARG:name"}))], {}, R.node, w.state)
    f = _fields(w, p)
    init = R.lookup("__init__")
    for fld, want in (("mu", a_mu), ("sigma", a_sg)):
        v = f.get(fld)
        ok = isinstance(v, Num) and v.sym == want.sym
        inst("R20.3", "HOLDS" if ok else "VIOLATED", f"{R.name}.__init__", f"self.{fld} <- {fld} unchanged", init.node.lineno if init else R.node.lineno,
             "" if ok else f"the constructor stores {short(v) if v else 'nothing'} (term {getattr(v, 'sym', None)}) for {fld}: the given value is transformed or dropped")
    universe = sorted(f)

    # ---------------------------------------------------------------- R20.2 create_rating
    cr = M.lookup("create_rating")
    if cr is None:
        inst("R20.2", "VIOLATED", f"{M.name}.create_rating", "create_rating missing", M.node.lineno, "create_rating is not defined")
    else:
        from ..ai.values import FuncV

        def call_cr(w, args, kwargs=None):
            w.I.raises.clear()
            fv = FuncV(fi=cr, node=cr.node, module=cr.module, self_val=None if cr.kind == "staticmethod" else w.model)
            return w.I.call_function(fv, args, kwargs or {}, cr.node, w.state)

        for kinds in ("int", "float", "bool", "mixed"):
            for named in (True, False):
                w = World(prog, roles)
                w.make_model()
                ks = {"int": {"int"}, "float": {"float"}, "bool": {"bool"}, "mixed": {"int", "float", "bool"}}[kinds]
                e0 = Num(kinds=frozenset(ks), sym=("param", "arg.r0"), prov=frozenset({"ARG:r0"}))
                e1 = Num(kinds=frozenset(ks), sym=("param", "arg.r1"), prov=frozenset({"ARG:r1"}))
                lst = w.I.new_list(w.state, [e0, e1], cr.node, "arglist")
                kw = {"name": Str("player", frozenset({"ARG:name"}))} if named else {}
                res = call_cr(w, [lst], kw)
                c = f"create_rating([{kinds}, {kinds}]{', name' if named else ''})"
                f = _fields(w, res)
                if w.I.undecided:
                    inst("R20.2", "UNDECIDED", f"{M.name}.create_rating", c, cr.node.lineno, "; ".join(w.I.undecided[:2]))
                    continue
                if w.state.bottom or w.I.raises:
                    inst("R20.2", "VIOLATED", f"{M.name}.create_rating", c, cr.node.lineno, f"a well-formed [mu, sigma] list is (or may be) rejected: {[e.data['exc'] for e in w.I.raises]}")
                    continue
                ok = isinstance(f.get("mu"), Num) and f["mu"].sym == e0.sym and isinstance(f.get("sigma"), Num) and f["sigma"].sym == e1.sym
                okn = (not named) or (isinstance(f.get("name"), Str) and "ARG:name" in f["name"].prov)
                okc = isinstance(res, Ptr) and w.state.heap[res.loc].obj.cls is R
                inst("R20.2", "HOLDS" if ok and okn and okc else "VIOLATED", f"{M.name}.create_rating", c, cr.node.lineno,
                     "" if ok and okn and okc else f"create_rating stores mu={short(f.get('mu')) if f.get('mu') else None} (term {getattr(f.get('mu'), 'sym', None)}), "
                     f"sigma term {getattr(f.get('sigma'), 'sym', None)}, name kept={okn}, own class={okc}: not exactly rating[0], rating[1], name")
        bad_args = {
            "already a rating": lambda w: (w.make_rating_object("A", (), ()), Ptr("A", ()))[1],
            "list of length 1": lambda w: w.I.new_list(w.state, [Num(kinds=FLOAT)], cr.node, "arglist"),
            "list of length 3": lambda w: w.I.new_list(w.state, [Num(kinds=FLOAT)] * 3, cr.node, "arglist"),
            "tuple of two numbers": lambda w: __import__("osv.ai.values", fromlist=["TupleV"]).TupleV((Num(kinds=FLOAT), Num(kinds=FLOAT))),
            "list with a str": lambda w: w.I.new_list(w.state, [Num(kinds=FLOAT), Str("8.3")], cr.node, "arglist"),
            "list with None": lambda w: w.I.new_list(w.state, [NoneV(), Num(kinds=FLOAT)], cr.node, "arglist"),
        }
        for label, mk in bad_args.items():
            w = World(prog, roles)
            w.make_model()
            arg = mk(w)
            res = call_cr(w, [arg])
            c = f"create_rating({label}) is rejected"
            excs = sorted({e.data["exc"] for e in w.I.raises})
            okx = all(e.data["exc"] in ("TypeError", "ValueError") for e in w.I.raises)
            if w.I.undecided:
                inst("R20.2", "UNDECIDED", f"{M.name}.create_rating", c, cr.node.lineno, "; ".join(w.I.undecided[:2]))
            elif not w.state.bottom:
                inst("R20.2", "VIOLATED", f"{M.name}.create_rating", c, cr.node.lineno, f"create_rating accepts {label} and returns {short(res)}")
            elif not okx:
                inst("R20.2", "VIOLATED", f"{M.name}.create_rating", c, cr.node.lineno, f"create_rating rejects {label} with {excs} (not TypeError/ValueError)")
            else:
                inst("R20.2", "HOLDS", f"{M.name}.create_rating", c, cr.node.lineno, "", {"raises": excs})

    # ---------------------------------------------------------------- R20.4 copy completeness
    w = World(prog, roles)
    w.make_rating_object("A", (), (), origin="input:player")
    a = Ptr("A", ())
    src = _fields(w, a)
    w.I.raises.clear()
    cp = w.I.bi.deepcopy(a, w.state, R.node)
    dc = R.lookup("__deepcopy__")
    fn = f"{R.name}.__deepcopy__" if dc else f"{R.name} (generic deepcopy)"
    line = dc.node.lineno if dc else R.node.lineno
    if w.I.undecided or w.state.bottom or not isinstance(cp, Ptr):
        inst("R20.4", "UNDECIDED" if w.I.undecided else "VIOLATED", fn, "deepcopy returns a rating", line, "; ".join(w.I.undecided[:2]) or f"deepcopy of a rating gives {short(cp)} / raises {[e.data['exc'] for e in w.I.raises]}")
    else:
        distinct = cp.loc != a.loc
        same_cls = isinstance(w.state.heap[cp.loc].obj, InstObj) and w.state.heap[cp.loc].obj.cls is R
        inst("R20.4", "HOLDS" if distinct and same_cls else "VIOLATED", fn, "deepcopy returns a new object of its own class", line,
             "" if distinct and same_cls else ("deepcopy returns the original object itself" if not distinct else "deepcopy returns an object of another class"))
        dst = _fields(w, cp)
        for n, v in src.items():
            d = dst.get(n)
            if isinstance(v, Num):
                ok = isinstance(d, Num) and d.sym == v.sym
            elif isinstance(v, Str):
                tag = "ID" if "ID" in v.prov else "NAME" if "NAME" in v.prov else None
                ok = isinstance(d, Str) and (tag is None or (tag in d.prov and "RANDOM" not in d.prov))
            else:
                ok = d == v
            inst("R20.4", "HOLDS" if ok else "VIOLATED", fn, f"copy.{n} == original.{n}", line,
                 "" if ok else f"the copy's '{n}' is {short(d) if d is not None else 'missing'}, not the original's ({short(v)}): deepcopy does not preserve {n}")

    # ---- R20.4m: the memo protocol. copy.deepcopy hands __deepcopy__ a memo that may already hold copies of *other* objects.
    # Returning an entry of the memo is right only for the entry registered under this object's identity (id(self)); a lookup by
    # anything else (the rating's id string, its name, its numbers) can hand back the copy of another object that merely shares
    # that value — two distinct ratings with the same id, a snapshot and the current state, would be merged into one copy.
    if dc is not None:
        from ..ai.state import Cell, DictObj
        from ..ai.values import FuncV, Length, Union, INF
        from ..ai.builtins import _deep_prov

        w2 = World(prog, roles)
        w2.make_rating_object("A", (), (), origin="input:player")
        w2.make_rating_object("B", (), (), origin="input:player")
        a2, b2 = Ptr("A", ()), Ptr("B", ())
        w2.state.heap["MEMO"] = Cell(DictObj(Top("memo-key"), b2, Length(None, 1, INF), None), (), (), "input:memo", None)
        keys: List[Any] = []
        w2.I.hooks["dict-get"] = lambda I, node, p, key, v: keys.append((node, key)) if p.loc == "MEMO" else None
        w2.I.hooks["dict-contains"] = lambda I, node, container, item: keys.append((node, item)) if isinstance(container, Ptr) and container.loc == "MEMO" else None
        w2.I.hooks["dict-index-key"] = lambda I, node, p, key: keys.append((node, key)) if p.loc == "MEMO" else None
        w2.I.raises.clear()
        try:
            res = w2.I.call_function(FuncV(fi=dc, node=dc.node, self_val=a2, module=dc.module), [Ptr("MEMO", ())], {}, dc.node, w2.state)
        except Exception as e:  # noqa: BLE001
            res = None
            inst("R20.4", "UNDECIDED", fn, "a memo entry is returned only under the object's own identity", line, f"abstract evaluation failed: {type(e).__name__}: {e}")
        if res is not None:
            opts = list(res.opts) if isinstance(res, Union) else [res]
            from_memo = any(o == b2 or isinstance(o, Top) for o in opts)
            bad_keys = [(nd, k) for nd, k in keys if "IDENTITY" not in _deep_prov(k)]
            if from_memo and bad_keys:
                nd, k = bad_keys[0]
                inst("R20.4", "VIOLATED", fn, "a memo entry is returned only under the object's own identity", getattr(nd, "lineno", line),
                     f"__deepcopy__ can return an object found in the memo under a key that is not this object's identity ({norm_text(nd, 60)}; key depends on {sorted(_deep_prov(k)) or 'nothing of the object'}): "
                     "two distinct ratings that share that value are merged into one copy, which then holds the mu and sigma of only one of them")
            else:
                inst("R20.4", "HOLDS", fn, "a memo entry is returned only under the object's own identity", line, "", {"memo_reads": len(keys), "may_return_memo_entry": from_memo})

    # ---------------------------------------------------------------- R20.5 no hidden per-rating state
    allowed_reads = {"mu", "sigma", "id", "name"}
    for op in PUBLIC_OPS:
        kw = {"ranks": "list-of-mixed-int-float-bool", "tau": "any", "limit_sigma": "any"} if op == "rate" else {}
        oc = run_op(prog, roles, op, **kw)
        entry = f"{M.name}.{op}"
        bad = False
        for ev in oc.I.events:
            if ev.kind == "attr-read" and ev.data["origin"] in ("input:player",) and ev.data["attr"] not in allowed_reads:
                m_, fn_, ln_ = where(ev)
                if fn_.startswith(R.name + "."):
                    continue
                bad = True
                out.append(dict(rule="R20.5", verdict="VIOLATED", module=m_, function=fn_, construct=norm_text(ev.node, 100), line=ln_,
                                message=f"{op} reads rating attribute '{ev.data['attr']}': per-rating state beyond (mu, sigma) influences the operation", detail={"entry": entry}))
            if ev.kind == "write" and ev.data["origin"] == "input:player" and ev.data["field"] in ("mu", "sigma"):
                tags = sorted(t for t in getattr(ev.data.get("val"), "prov", frozenset()) if t in ("ID", "NAME", "IDENTITY", "HASH"))
                if tags:
                    m_, fn_, ln_ = where(ev)
                    bad = True
                    out.append(dict(rule="R20.5", verdict="VIOLATED", module=m_, function=fn_, construct=norm_text(ev.node, 100), line=ln_,
                                    message=f"the number {op} stores into rating.{ev.data['field']} depends on {tags} of the rating objects: a rating rebuilt from its stored (mu, sigma) "
                                            "has a fresh id / another identity, so the later result differs from the one obtained with the original object", detail={"entry": entry}))
            if ev.kind == "write" and ev.data["origin"] == "input:player" and ev.data["field"] not in ("mu", "sigma"):
                m_, fn_, ln_ = where(ev)
                bad = True
                out.append(dict(rule="R20.5", verdict="VIOLATED", module=m_, function=fn_, construct=norm_text(ev.node, 100), line=ln_,
                                message=f"{op} writes rating attribute '{ev.data['field']}' (hidden per-rating state)", detail={"entry": entry}))
        if op != "rate" and oc.returned:
            from .c14 import _result_prov

            tags = sorted(t for t in _result_prov(oc.I, oc.world.state, oc.result) if t in ("ID", "NAME", "IDENTITY", "HASH"))
            if tags:
                bad = True
                inst("R20.5", "VIOLATED", entry, f"return value of {op}", M.lookup(op).node.lineno,
                     f"the numbers {op} returns depend on {tags} of the rating objects: rebuilt ratings (fresh id, other identity) give another result")
        for u in oc.undecided:
            bad = True
            inst("R20.5", "UNDECIDED", entry, u[:100], 0, u)
        if not bad:
            inst("R20.5", "HOLDS", entry, f"{entry} reads only mu/sigma (id/name never reach numbers: C14 R14.3)", M.lookup(op).node.lineno, "", {"attribute_universe": universe})
    return out


def run(prog: Program, rep: Report, tier: str = "quick") -> None:
    roles = prog.roles()
    rep.explanation = (
        "Abstract evaluation of Model.rating on the option domain {None, zero, any number} (the stored value must be the argument's own term, "
        "or the model default only for None), of create_rating on well-formed [mu, sigma] lists (int/float/bool) and on malformed arguments, of the "
        "Rating constructor (fields are the parameters unchanged; id generated inside the body on every construction), of deepcopy (new object, "
        "own class, every attribute of the attribute universe preserved), and of the read/write sets of the public operations on rating objects "
        "(only mu and sigma are read as numbers), which is what makes results a function of the stored (mu, sigma) alone."
    )
    rep.rule_text = "per model: 7 defaulting cases, 14 create_rating cases, 3 constructor facts, 1+|fields| copy facts, 4 entry points"
    rep.trust("abstract interpreter osv/ai; uniqueness of uuid4 values is the stdlib's")
    rep.not_decided = ["uniqueness of generated ids (uuid4, stdlib)", "bit-identity is derived from the read sets (R20.5, C14 R14.3), not measured"]
    for lst in parallel_map(_job, list(range(len(roles)))):
        for d in lst:
            rep.add(Instance(d["rule"], d["verdict"], d["module"], d["function"], d["construct"], d["line"], d.get("message", ""), d.get("detail", {})))
    n = len(roles)
    rep.floor("R20.1", 7 * n)
    rep.floor("R20.2", 14 * n)
    rep.floor("R20.3", 3 * n)
    rep.floor("R20.4", 5 * n)
    rep.floor("R20.5", 4 * n)
