"""Explicit small games: every operation evaluated abstractly, in the term domain, on games written out position by position.

The summary runs of the other rules quantify over games of any size and lose, at joins and at unknown positions, what a
particular position receives. For a *small exact* game the interpreter needs no summary at all: the list of teams, every team
and the list of ranks are explicit lists, every player is its own abstract object with its own atoms (`g.mu<i>_<j>`,
`g.sg<i>_<j>`), loops are unrolled, and the rank values — which the code may touch only through comparisons (C03) — are
given by *assuming one weak ordering at a time* (3-point order domain), so that every comparison, every sort and every tie scan
is decided. The result is, for every player, the term (over the input atoms) that the operation stores or returns, and for
every result position the object that stands there. Nothing is executed: numbers stay atoms, the only algebra is the
polynomial normal form of `osv.poly` (ring identities, f(z) + f(-z) = 1 for the logistic and the Gaussian CDF by role).

Rules built on it (each compares the program with itself, or with the literal content of the property's statement):

  C02 R2.9   result[i][j] is the object passed at teams[i][j], for every ordering of the ranks of 2, 3 (4) teams
  C03 R3.5   omitted ranks == strictly increasing ranks; scores == ranks under the reversed ordering (same terms)
  C04 R4.6   permuting the teams (ranks alongside) / the players of a team leaves every player's terms unchanged
  C07 R7.11  sum over teams of (sum of the members' mu changes) / (team variance after inflation) == 0 as a rational function
  C09 R9.9   predict_win sums to 1; permuting the teams permutes the terms
  C19 R19.5  Bradley-Terry partial pairing stores the terms of Bradley-Terry full pairing on every two-team game
"""

from __future__ import annotations

import itertools
from dataclasses import dataclass, field
from fractions import Fraction
from typing import Any, Dict, List, Optional, Sequence, Tuple

from ..ai.values import Bool, Bottom, Interval, NoneV, Num, Ptr, Str, Union, short, sym_cap
from ..ai.world import Box, World
from ..frontend import AnalysisError, Program
from ..poly import Poly, freeze, p_add, p_atom, p_const, p_mul, p_neg, p_pow, show, to_poly

TERM_CAP = 400000  # explicit games keep every term whole (the default cap of 400 nodes is for summary runs)
CORRECTIONS = ("v", "w", "vt", "wt", "phi_major", "phi_minor", "phi_major_inverse")


def weak_orderings(n: int) -> List[Tuple[int, ...]]:
    """Every weak ordering of n items as a tuple of levels (level[i] < level[j]: item i is placed better), levels dense from 0."""
    out = set()
    for assign in itertools.product(range(n), repeat=n):
        used = sorted(set(assign))
        out.add(tuple(used.index(a) for a in assign))
    return sorted(out)


def describe(levels: Sequence[int], name: str = "r") -> str:
    groups: Dict[int, List[int]] = {}
    for i, l in enumerate(levels):
        groups.setdefault(l, []).append(i)
    return " < ".join(" = ".join(f"{name}{i}" for i in groups[l]) for l in sorted(groups))


@dataclass
class GameRun:
    model: str
    sizes: Tuple[int, ...]
    order: Tuple[int, ...]  # team identities in presentation order
    world: Any
    players: Dict[Tuple[int, int], Ptr]  # (team identity, player identity) -> object
    result: Any
    undecided: List[str]
    raises: List[Any]
    bottom: bool
    prior: Dict[Tuple[int, int], Tuple[Any, Any]] = field(default_factory=dict)

    def field(self, who: Tuple[int, int], name: str):
        I = self.world.I
        return I.read_field(self.world.state, self.players[who], name)

    def ok(self) -> Optional[str]:
        if self.undecided:
            return "; ".join(self.undecided[:2])
        if self.bottom or self.raises:
            return f"the operation does not return on this game (raises {sorted({e.data['exc'] for e in self.raises})})"
        return None


def mu_atom(i: int, j: int):
    return ("param", f"g.mu{i}_{j}")


def sg_atom(i: int, j: int):
    return ("param", f"g.sg{i}_{j}")


def rank_atom(i: int):
    return ("param", f"g.r{i}")


def build_game(w: World, sizes: Sequence[int], order: Optional[Sequence[int]] = None, player_order: Optional[Dict[int, Sequence[int]]] = None):
    """Explicit teams: team identity i has sizes[i] players; `order` lists the team identities in presentation order."""
    I = w.I
    R = w.roles.rating
    order = list(order) if order is not None else list(range(len(sizes)))
    players: Dict[Tuple[int, int], Ptr] = {}
    team_ptrs = []
    for pos, i in enumerate(order):
        members = []
        po = list(player_order.get(i, range(sizes[i]))) if player_order else list(range(sizes[i]))
        for j in po:
            mu = Num(kinds=frozenset({"float"}), sym=mu_atom(i, j), prov=frozenset({"MU"}))
            sg = Num(kinds=frozenset({"float"}), sym=sg_atom(i, j), prov=frozenset({"SIGMA"}))
            I.unroll_idx.append(1000 + 100 * i + j)  # one abstract object per player (allocation sites carry the unrolling index)
            try:
                p = I.instantiate(R, [mu, sg, Str(None, frozenset({"NAME"}))], {}, R.node, w.state)
            finally:
                I.unroll_idx.pop()
            if w.state.bottom or not isinstance(p, Ptr):
                raise AnalysisError(f"abstract construction of {R.name} failed")
            c = w.state.heap[p.loc]
            from dataclasses import replace as _r

            w.state.heap[p.loc] = _r(c, origin="input:player")
            players[(i, j)] = p
            members.append(p)
        I.unroll_idx.append(2000 + i)
        try:
            tp = I.new_list(w.state, members, R.node, "g.team")
        finally:
            I.unroll_idx.pop()
        team_ptrs.append(tp)
    game = I.new_list(w.state, team_ptrs, R.node, "g.teams")
    return game, players


def build_values(w: World, levels: Sequence[int], order: Sequence[int], reverse: bool = False, tag: str = "g.ranks"):
    """Explicit list of rank (or score) values in presentation order; the assumed weak ordering relates the values of the team
    identities: value(i) < value(j) iff levels[i] < levels[j] (reversed for scores)."""
    I = w.I
    n = len(levels)
    vals = {i: Num(kinds=frozenset({"int", "float"}), sym=rank_atom(i), prov=frozenset({"RANKRAW"})) for i in range(n)}
    for i in range(n):
        for j in range(i + 1, n):
            if levels[i] == levels[j]:
                rel = "EQ"
            else:
                lt = levels[i] < levels[j]
                if reverse:
                    lt = not lt
                rel = "LT" if lt else "GT"
            w.state.rel_set(rank_atom(i), rank_atom(j), frozenset({rel}))
    return I.new_list(w.state, [vals[i] for i in order], w.roles.model.node, tag)


def run_rate(prog: Program, roles, sizes: Sequence[int], levels: Optional[Sequence[int]], *, mode: str = "ranks", order: Optional[Sequence[int]] = None,
             player_order=None, limit_sigma: Optional[bool] = False, tau: str = "arg", opaque=CORRECTIONS) -> GameRun:
    w = World(prog, roles, Box())
    I = w.I
    I.number_locals = True
    I.explicit = True
    common = prog.modules.get(f"{prog.package}.models.weng_lin.common")
    if common is not None and opaque:
        I.opaque_funcs = {common.funcs[n].fq for n in opaque if n in common.funcs}
    m = w.make_model(custom_gamma=False)
    order = list(order) if order is not None else list(range(len(sizes)))
    game, players = build_game(w, sizes, order, player_order)
    prior = {who: (I.read_field(w.state, p, "mu"), I.read_field(w.state, p, "sigma")) for who, p in players.items()}
    kwargs: Dict[str, Any] = {}
    if mode in ("ranks", "scores") and levels is not None:
        kwargs[mode] = build_values(w, levels, order, reverse=(mode == "scores"))
    if limit_sigma is not None:
        kwargs["limit_sigma"] = Bool(bool(limit_sigma), frozenset(), None)
    if tau == "arg":
        kwargs["tau"] = Num(kinds=frozenset({"float"}), sym=("param", "g.tau"))
    I.events.clear()
    I.raises.clear()
    I.open_cmps.clear()
    with sym_cap(TERM_CAP):
        res = w.call(m, "rate", [game], kwargs)
    return GameRun(roles.short, tuple(sizes), tuple(order), w, players, res, list(I.undecided), list(I.raises), bool(w.state.bottom), prior)


def run_predict(prog: Program, roles, op: str, sizes: Sequence[int], order: Optional[Sequence[int]] = None, opaque=CORRECTIONS, rels=()) -> GameRun:
    w = World(prog, roles, Box())
    I = w.I
    I.number_locals = True
    I.explicit = True
    common = prog.modules.get(f"{prog.package}.models.weng_lin.common")
    if common is not None and opaque:
        I.opaque_funcs = {common.funcs[n].fq for n in opaque if n in common.funcs}
    m = w.make_model(custom_gamma=False)
    order = list(order) if order is not None else list(range(len(sizes)))
    game, players = build_game(w, sizes, order)
    for a_, b_, r_ in rels:
        w.state.rel_set(a_, b_, frozenset({r_}))
    I.events.clear()
    I.raises.clear()
    I.open_cmps.clear()
    with sym_cap(TERM_CAP):
        res = w.call(m, op, [game], {})
    return GameRun(roles.short, tuple(sizes), tuple(order), w, players, res, list(I.undecided), list(I.raises), bool(w.state.bottom))


def result_positions(run: GameRun) -> Optional[List[List[Any]]]:
    """The objects standing at result[i][j] (explicit lists only)."""
    I = run.world.I
    st = run.world.state
    res = run.result
    if not isinstance(res, Ptr):
        return None
    outer = I.list_seq(st, res)
    if outer is None or outer.fixed is None:
        return None
    out = []
    for t in outer.fixed:
        if not isinstance(t, Ptr):
            return None
        inner = I.list_seq(st, t)
        if inner is None or inner.fixed is None:
            return None
        out.append(list(inner.fixed))
    return out


def result_numbers(run: GameRun) -> Optional[List[Any]]:
    I = run.world.I
    st = run.world.state
    res = run.result
    if not isinstance(res, Ptr):
        return None
    s = I.list_seq(st, res)
    if s is None or s.fixed is None:
        return None
    return list(s.fixed)


# ---------------------------------------------------------------------------------------------------------------------
# rational-function zero test on normal forms
# ---------------------------------------------------------------------------------------------------------------------


ZERO_TEST_BUDGET_S = 4.0  # per zero test; on the pinned tree the slowest one takes well under a second


class _Timeout(Exception):
    pass


_TL_DEPTH = [0]


class time_limit:
    """Wall-clock limit for one comparison (SIGALRM in the main thread of the worker process; nested uses share the outermost
    timer). A comparison that runs out of time is *undecided*, never a verdict."""

    def __init__(self, seconds: float):
        self.seconds = seconds
        self.armed = False

    def __enter__(self):
        import signal
        import threading

        _TL_DEPTH[0] += 1
        if _TL_DEPTH[0] == 1 and threading.current_thread() is threading.main_thread():
            def handler(signum, frame):
                raise _Timeout()

            self.old = signal.signal(signal.SIGALRM, handler)
            signal.setitimer(signal.ITIMER_REAL, self.seconds)
            self.armed = True
        return self

    def __exit__(self, et, ev, tb):
        import signal

        _TL_DEPTH[0] -= 1
        if self.armed:
            signal.setitimer(signal.ITIMER_REAL, 0)
            signal.signal(signal.SIGALRM, self.old)
        return et is _Timeout and _TL_DEPTH[0] == 0


def expand_sums(p: Poly, limit: int = 60) -> Optional[Poly]:
    """Sum atoms with a positive integer exponent multiplied out (sqrt(S) * sqrt(S) is S, not an opaque atom)."""
    for _ in range(limit):
        target = None
        for mono in p:
            for at, e in mono:
                if isinstance(at, tuple) and at and at[0] == "sum" and e.denominator == 1 and e > 0:
                    target = at
                    break
            if target is not None:
                break
        if target is None:
            return p
        sum_poly: Poly = {m: c for m, c in target[1]}
        out: Poly = {}
        for mono, c in p.items():
            k = 0
            rest = []
            for a2, e2 in mono:
                if a2 == target and e2.denominator == 1 and e2 > 0:
                    k = int(e2)
                else:
                    rest.append((a2, e2))
            term: Poly = {tuple(rest): c}
            for _i in range(k):
                term = p_mul(term, sum_poly)
            out = p_add(out, term)
        p = out
        if len(p) > 40000:
            return None
    return None


def clear_denominators(p: Poly, limit: int = 80) -> Optional[Poly]:
    """p times the sums the program divides by, until every sum atom S occurs only as S^f with 0 <= f < 1 (f = 1/2 for the square
    roots): S^e is split into S^floor(e), multiplied out, and S^(e - floor(e)). p == 0 as a function of the atoms iff the result is
    the zero polynomial in the atoms and these fractional powers."""
    import math as _m
    import time as _t

    t_end = _t.monotonic() + ZERO_TEST_BUDGET_S
    for _ in range(limit):
        if _t.monotonic() > t_end:
            return None  # budget exhausted: the caller reports "could not be normalised" (undecided), never a verdict
        p = expand_sums(p)
        if p is None:
            return None
        target = None
        for mono in p:
            for at, e in mono:
                if isinstance(at, tuple) and at and at[0] == "sum" and (e < 0 or e >= 1):
                    target = at
                    break
            if target is not None:
                break
        if target is None:
            return p
        emin = min([e for mono in p for at, e in mono if at == target] + ([Fraction(0)] if any(all(at != target for at, _ in mono) for mono in p) else []))
        shift = int(_m.ceil(-emin)) if emin < 0 else 0
        sum_poly: Poly = {m: c for m, c in target[1]}
        out: Poly = {}
        for mono, c in p.items():
            e = Fraction(0)
            rest = []
            for a2, e2 in mono:
                if a2 == target:
                    e = e2
                else:
                    rest.append((a2, e2))
            e = e + shift
            n = int(_m.floor(e))
            f = e - n
            base = tuple(sorted(rest + ([(target, f)] if f != 0 else []), key=repr))
            term: Poly = {base: c}
            for _i in range(n):
                term = p_mul(term, sum_poly)
            out = p_add(out, term)
        p = out
        if len(p) > 30000:
            return None
    return None


def _unknown_inside(x, depth: int = 0) -> bool:
    if not isinstance(x, tuple) or depth > 80:
        return False
    if x and x[0] in ("opq", "star-occurrence", "cmp"):
        return True
    return any(_unknown_inside(y, depth + 1) for y in x if isinstance(y, tuple))


def has_unknown(p: Optional[Poly]) -> bool:
    """The term mentions a value the explicit run could not express over the input atoms (a numbered local of a join, an element
    at an unknown position, an undecided comparison used as a number): nothing can be concluded from a difference."""
    return p is not None and any(_unknown_inside(m) for m in p)


def is_zero(p: Optional[Poly]) -> Optional[bool]:
    if p is None:
        return None
    if not p:
        return True
    q = None
    with time_limit(3 * ZERO_TEST_BUDGET_S):
        q = clear_denominators(p)
    if q is None:
        return None
    if not q:
        return True
    return None if has_unknown(q) else False


def _is_frozen_poly(x) -> bool:
    return isinstance(x, tuple) and all(isinstance(t, tuple) and len(t) == 2 and isinstance(t[1], Fraction) and isinstance(t[0], tuple) for t in x)


def _walk_atoms(at, out):
    """max / min / abs / call atoms at any depth (inside sums, powers, arguments), innermost first."""
    if not (isinstance(at, tuple) and at and isinstance(at[0], str)):
        return
    for x in at[1:]:
        if _is_frozen_poly(x):
            for mono, _ in x:
                for a2, _e in mono:
                    _walk_atoms(a2, out)
    if at[0] in ("max", "min", "abs", "call") and at not in out:
        out.append(at)


def _atoms_of(p: Poly):
    out: List[Any] = []
    for mono in p:
        for at, _ in mono:
            _walk_atoms(at, out)
    return out


def _map_atom(at, old, new):
    if at == old:
        return new
    if not (isinstance(at, tuple) and at and isinstance(at[0], str)):
        return at
    parts = []
    changed = False
    for x in at[1:]:
        if _is_frozen_poly(x) and x:
            y = freeze(_replace_atom({m: c for m, c in x}, old, new))
            changed = changed or y != x
            parts.append(y)
        else:
            parts.append(x)
    if not changed:
        return at
    if at[0] in ("max", "min"):
        parts = sorted(parts, key=repr)
    return (at[0],) + tuple(parts)


def _atom_args(at):
    """(head, [argument polynomials]) of a max / min / abs / call atom; None when an argument is not a frozen polynomial."""
    head = at[:2] if at[0] == "call" else at[:1]
    args = []
    for x in (at[2:] if at[0] == "call" else at[1:]):
        if not isinstance(x, tuple) or (x and not (isinstance(x[0], tuple) and len(x[0]) == 2 and isinstance(x[0][1], Fraction))):
            if x == ():
                args.append({})
                continue
            return None
        args.append({m: c for m, c in x})
    return head, args


def _atoms_equal(x, y, depth: int) -> bool:
    ax, ay = _atom_args(x), _atom_args(y)
    if ax is None or ay is None or ax[0] != ay[0] or len(ax[1]) != len(ay[1]):
        return False
    pairings = [list(range(len(ax[1])))]
    if x[0] in ("max", "min") and len(ax[1]) == 2:
        pairings.append([1, 0])
    for perm in pairings:
        if all(_same(ax[1][i], ay[1][perm[i]], depth + 1) is True for i in range(len(perm))):
            return True
    return False


def _replace_atom(p: Poly, old, new) -> Poly:
    out: Poly = {}
    for mono, c in p.items():
        m2 = tuple(sorted(((_map_atom(at, old, new), e) for at, e in mono), key=repr))
        out = p_add(out, {m2: c})
    return out


def _same(a: Optional[Poly], b: Optional[Poly], depth: int = 0) -> Optional[bool]:
    if a is None or b is None:
        return None
    if a == b:
        return True
    z = is_zero(p_add(a, b, -1))
    if z is not False or depth > 3:
        return z
    # the arguments of max / min / abs / function atoms are compared as rational functions, not as written: an atom of b whose
    # arguments equal those of an atom of a is the same value
    only_a = [x for x in _atoms_of(a) if x not in _atoms_of(b)]
    only_b = [y for y in _atoms_of(b) if y not in _atoms_of(a)]
    changed = False
    for y in only_b:
        for x in only_a:
            if _atoms_equal(x, y, depth):
                b = _replace_atom(b, y, x)
                changed = True
                break
    if not changed:
        return False
    return is_zero(p_add(a, b, -1))


def same(a: Optional[Poly], b: Optional[Poly]) -> Optional[bool]:
    """a == b as rational functions of the atoms (atoms with arguments compared by their arguments' values)."""
    out: List[Optional[bool]] = [None]
    with time_limit(5 * ZERO_TEST_BUDGET_S):
        out[0] = _same(a, b, 0)
    return out[0]


def poly_of(v) -> Optional[Poly]:
    if isinstance(v, Num):
        if v.sym is not None:
            return to_poly(v.sym)
        if v.const is not None and isinstance(v.const, (int, float)) and not isinstance(v.const, bool):
            return p_const(v.const)
    return None


# ---------------------------------------------------------------------------------------------------------------------
# the rules
# ---------------------------------------------------------------------------------------------------------------------


def _inst(rule, verdict, roles, anchor, construct, message="", detail=None):
    fi = roles.model.lookup(anchor)
    return dict(rule=rule, verdict=verdict, module=(fi.module.name if fi else roles.model.module.name), function=(fi.qualname if fi else roles.model.name),
                construct=construct, line=(fi.node.lineno if fi else 0), message=message, detail=detail or {})


def _mentions_atom(frozen, names) -> bool:
    if isinstance(frozen, tuple):
        if len(frozen) == 2 and frozen[0] == "param" and frozen[1] in names:
            return True
        return any(_mentions_atom(x, names) for x in frozen)
    return False


def poly_mentions(p: Optional[Poly], names) -> bool:
    return p is not None and any(_mentions_atom(m, names) for m in p)


def team_atoms(i: int, size: int):
    return {f"g.mu{i}_{j}" for j in range(size)} | {f"g.sg{i}_{j}" for j in range(size)}


def is_partial_pairing(prog, roles) -> Optional[bool]:
    """Discovered, not named: in a three-team game without ties the winner's update of a full-pairing model mentions the last
    team's ratings, that of a partial-pairing model does not."""
    run = run_rate(prog, roles, (1, 1, 1), (0, 1, 2))
    if run.ok():
        return None
    p = poly_of(run.field((0, 0), "mu"))
    if p is None:
        return None
    return not poly_mentions(p, {"g.mu2_0"})


def state_terms(run: GameRun) -> Optional[Dict[Tuple[int, int], Tuple[Poly, Poly]]]:
    out = {}
    for who in run.players:
        mu, sg = poly_of(run.field(who, "mu")), poly_of(run.field(who, "sigma"))
        if mu is None or sg is None:
            return None
        out[who] = (mu, sg)
    return out


def conservation(run: GameRun) -> Tuple[Optional[bool], str]:
    """sum over teams of (sum of members' mu change) / (sum of members' (sigma^2 + tau^2))  ==  0 ?"""
    total: Poly = {}
    tau2 = p_mul(p_atom(("param", "g.tau")), p_atom(("param", "g.tau")))
    for i, size in enumerate(run.sizes):
        num: Poly = {}
        den: Poly = {}
        for j in range(size):
            post = poly_of(run.field((i, j), "mu"))
            if post is None:
                return None, f"the mu stored for player {j} of team {i} has no term"
            num = p_add(num, p_add(post, p_atom(mu_atom(i, j)), -1))
            den = p_add(den, p_add(p_mul(p_atom(sg_atom(i, j)), p_atom(sg_atom(i, j))), tau2))
        inv = p_pow(den, Fraction(-1))
        total = p_add(total, p_mul(num, inv))
    z = is_zero(total)
    if z is None:
        return None, "the sum could not be normalised"
    if z:
        return True, ""
    q = clear_denominators(total)
    return False, show(q if q is not None else total, 260)


QUICK_SIZES = [(1, 1), (2, 1), (1, 1, 1), (1, 2, 1)]
THOROUGH_SIZES = [(1, 1, 1, 1), (2, 1, 2)]


# larger games, each with a few hand-picked orderings (a 5-cycle of the presentation, tie groups of three and four, six teams): cheap for
# the rules that need no denominators cleared across many pair scales (closed forms, positions, predictions)
LARGE_GAMES = [
    ((1, 1, 1, 1, 1), (2, 0, 4, 1, 3)),
    ((1, 1, 1, 1, 1), (0, 0, 1, 1, 1)),
    ((1, 1, 1, 1, 1), (0, 1, 1, 1, 1)),
    ((1, 1, 1, 1, 1, 1), (0, 1, 2, 3, 4, 5)),
    ((1, 1, 1, 1, 1, 1), (3, 3, 0, 3, 3, 1)),
    ((3, 1), (1, 0)),
    ((3, 1), (0, 0)),
    ((1, 3, 2), (1, 0, 1)),
    ((2, 3), (0, 1)),
]


def _sizes(tier: str):
    return QUICK_SIZES + (THOROUGH_SIZES if tier == "thorough" else [])


def _only_tie_corrections(p: Poly) -> bool:
    """Every monomial of the residual carries a call of the tie correction (vt): the statement's draw-margin exemption."""
    def has_vt(mono):
        return any(isinstance(at, tuple) and len(at) > 1 and at[0] == "call" and at[1] == "fn:vt" for at, _ in mono)

    return bool(p) and all(has_vt(m) for m in p)


def c07_job(job) -> List[Dict[str, Any]]:
    """R7.11: the statement's sum, as a rational function of the input atoms, for every weak ordering of the small games."""
    idx, tier = job
    prog = Program()
    roles = prog.roles()[idx]
    out = []
    # (the four-team games of the thorough tier are left out here: clearing six distinct pair scales exceeds the budget of a zero
    # test for the full-pairing models; the closed forms R1.1 cover those games)
    for sizes in _sizes("quick"):
        for lv in weak_orderings(len(sizes)):
            desc = f"sum over teams of (members' mu change) / (team variance after inflation) == 0: team sizes {sizes}, {describe(lv)}"
            try:
                run = run_rate(prog, roles, sizes, lv)
                bad = run.ok()
                if bad:
                    out.append(_inst("R7.11", "UNDECIDED", roles, "rate", desc, bad))
                    continue
                ok, msg = conservation(run)
            except Exception as e:  # noqa: BLE001
                out.append(_inst("R7.11", "UNDECIDED", roles, "rate", desc, f"abstract evaluation failed: {type(e).__name__}: {e}"))
                continue
            if ok is None:
                out.append(_inst("R7.11", "UNDECIDED", roles, "rate", desc, msg))
            elif ok:
                out.append(_inst("R7.11", "HOLDS", roles, "rate", desc))
            else:
                tied = len(set(lv)) < len(lv)
                total_msg = msg
                # recompute the residual to test the exemption
                exempt = False
                if tied:
                    tot: Poly = {}
                    tau2 = p_mul(p_atom(("param", "g.tau")), p_atom(("param", "g.tau")))
                    for i, size in enumerate(sizes):
                        num: Poly = {}
                        den: Poly = {}
                        for j in range(size):
                            num = p_add(num, p_add(poly_of(run.field((i, j), "mu")), p_atom(mu_atom(i, j)), -1))
                            den = p_add(den, p_add(p_mul(p_atom(sg_atom(i, j)), p_atom(sg_atom(i, j))), tau2))
                        tot = p_add(tot, p_mul(num, p_pow(den, Fraction(-1))))
                    q = clear_denominators(tot)
                    exempt = q is not None and _only_tie_corrections(q)
                if exempt:
                    out.append(_inst("R7.11", "HOLDS", roles, "rate", desc, "", {"exempt": "the residual consists of tie-correction (vt) terms only: the statement's draw-margin exemption for Thurstone-Mosteller ties"}))
                else:
                    out.append(_inst("R7.11", "VIOLATED", roles, "rate", desc,
                                     f"the precision-weighted mu changes do not cancel on this game; residual (denominators cleared): {total_msg}"))
    return out


def _compare_states(a: Dict, b: Dict) -> Tuple[Optional[bool], str]:
    undec = None
    for who in a:
        for k, name in ((0, "mu"), (1, "sigma")):
            s = same(a[who][k], b[who][k])
            if s is False:
                return False, f"the posterior {name} of player {who[1]} of team {who[0]} differs: {show(p_add(a[who][k], b[who][k], -1), 200)}"
            if s is None:
                undec = f"the posterior {name} of player {who[1]} of team {who[0]} could not be compared"
    return (None, undec) if undec else (True, "")


def c04_job(job) -> List[Dict[str, Any]]:
    """R4.6: exchanging two neighbouring teams in the presentation (ranks alongside), or two players of a team, leaves the
    terms stored for every player unchanged. Adjacent exchanges generate every permutation, and every weak ordering of the
    presented positions is a base point, so the rule covers every permutation of the small games; for the partial-pairing
    models (discovered by data flow) exchanges of two tied teams are left out, as the statement leaves them out."""
    idx, tier = job
    prog = Program()
    roles = prog.roles()[idx]
    out = []
    try:
        partial = is_partial_pairing(prog, roles)
    except Exception as e:  # noqa: BLE001
        return [_inst("R4.6", "UNDECIDED", roles, "rate", "pairing kind of the model", f"abstract evaluation failed: {type(e).__name__}: {e}")]
    if partial is None:
        return [_inst("R4.6", "UNDECIDED", roles, "rate", "pairing kind of the model", "cannot tell full from partial pairing on a three-team game")]
    for sizes, mode in [(sz, "ranks") for sz in _sizes("quick") + [(3, 1)]] + [(sz, "scores") for sz in _sizes("quick") if max(sz) == 1]:
        n = len(sizes)
        for lv in weak_orderings(n):
            try:
                base_run = run_rate(prog, roles, sizes, lv, mode=mode)
                bad = base_run.ok()
                base = None if bad else state_terms(base_run)
            except Exception as e:  # noqa: BLE001
                bad, base = f"abstract evaluation failed: {type(e).__name__}: {e}", None
            if base is None:
                out.append(_inst("R4.6", "UNDECIDED", roles, "rate", f"team sizes {sizes}, {mode} {describe(lv)}", bad or "a stored value has no term"))
                continue
            variants = []
            for k in range(n - 1):
                if partial and lv[k] == lv[k + 1]:
                    continue
                order = list(range(n))
                order[k], order[k + 1] = order[k + 1], order[k]
                variants.append((f"teams {k} and {k + 1} exchanged", dict(order=order)))
            for i, sz in enumerate(sizes):
                for j in range(sz - 1):
                    po = list(range(sz))
                    po[j], po[j + 1] = po[j + 1], po[j]
                    variants.append((f"players {j} and {j + 1} of team {i} exchanged", dict(player_order={i: po})))
            for what, kw in variants:
                desc = f"same posterior for every player: team sizes {sizes}, {mode} {describe(lv)}, {what}"
                try:
                    r2 = run_rate(prog, roles, sizes, lv, mode=mode, **kw)
                    bad = r2.ok()
                    t2 = None if bad else state_terms(r2)
                except Exception as e:  # noqa: BLE001
                    bad, t2 = f"abstract evaluation failed: {type(e).__name__}: {e}", None
                if t2 is None:
                    out.append(_inst("R4.6", "UNDECIDED", roles, "rate", desc, bad or "a stored value has no term"))
                    continue
                ok, msg = _compare_states(base, t2)
                out.append(_inst("R4.6", "HOLDS" if ok else "UNDECIDED" if ok is None else "VIOLATED", roles, "rate", desc,
                                 "" if ok else msg if ok is None else f"the result depends on the presentation order: {msg}"))
    return out


def c03_job(job) -> List[Dict[str, Any]]:
    """R3.5: no ranks == strictly increasing ranks; scores == ranks inducing the same weak ordering."""
    idx, tier = job
    prog = Program()
    roles = prog.roles()[idx]
    out = []
    for sizes in _sizes("quick"):
        n = len(sizes)

        def terms(**kw):
            try:
                r = run_rate(prog, roles, sizes, **kw)
                bad = r.ok()
                return (None, bad) if bad else (state_terms(r), "a stored value has no term")
            except Exception as e:  # noqa: BLE001
                return None, f"abstract evaluation failed: {type(e).__name__}: {e}"

        inc = tuple(range(n))
        a, ea = terms(levels=inc)
        b, eb = terms(levels=None, mode="none")
        desc = f"omitting ranks == ranks [0, 1, .., n-1]: team sizes {sizes}"
        if a is None or b is None:
            out.append(_inst("R3.5", "UNDECIDED", roles, "rate", desc, ea if a is None else eb))
        else:
            ok, msg = _compare_states(a, b)
            out.append(_inst("R3.5", "HOLDS" if ok else "UNDECIDED" if ok is None else "VIOLATED", roles, "rate", desc, "" if ok else msg))
        for lv in weak_orderings(n):
            desc = f"scores == ranks with every value negated: team sizes {sizes}, {describe(lv)}"
            a, ea = terms(levels=lv)
            b, eb = terms(levels=lv, mode="scores")
            if a is None or b is None:
                out.append(_inst("R3.5", "UNDECIDED", roles, "rate", desc, ea if a is None else eb))
                continue
            ok, msg = _compare_states(a, b)
            out.append(_inst("R3.5", "HOLDS" if ok else "UNDECIDED" if ok is None else "VIOLATED", roles, "rate", desc, "" if ok else msg))
    return out


def c02_job(job) -> List[Dict[str, Any]]:
    """R2.9: result[i][j] is the object passed at teams[i][j], whatever the ranks/scores and the limit_sigma setting."""
    idx, tier = job
    prog = Program()
    roles = prog.roles()[idx]
    out = []
    all_cases = [(sizes, lv, mode) for sizes in _sizes(tier) for (lv, mode) in [(lv, mode) for lv in weak_orderings(len(sizes)) for mode in ("ranks", "scores")] + [(None, "none")]]
    all_cases += [(sizes, lv, mode) for sizes, lv in LARGE_GAMES for mode in ("ranks", "scores")]
    for sizes, lv, mode in all_cases:
        n = len(sizes)
        if True:
            for ls in (False, True) + (("model",) if mode == "ranks" and len(sizes) <= 3 else ()):
                desc = f"result[i][j] is the player passed at teams[i][j]: team sizes {sizes}, {mode} {describe(lv) if lv else ''}, limit_sigma={ls}".replace("  ", " ")
                try:
                    run = run_rate_seeded(prog, roles, sizes, lv, (), limit_from_model=True) if ls == "model" else run_rate(prog, roles, sizes, lv, mode=mode, limit_sigma=ls)
                    bad = run.ok()
                    pos = None if bad else result_positions(run)
                except Exception as e:  # noqa: BLE001
                    bad, pos = f"abstract evaluation failed: {type(e).__name__}: {e}", None
                if pos is None:
                    out.append(_inst("R2.9", "UNDECIDED", roles, "rate", desc, bad or f"the result is not an explicit list of lists ({short(run.result)[:120]})"))
                    continue
                problems = []
                if len(pos) != n:
                    problems.append(f"{len(pos)} teams returned for {n} passed")
                for i in range(min(n, len(pos))):
                    if len(pos[i]) != sizes[i]:
                        problems.append(f"team {i}: {len(pos[i])} players returned for {sizes[i]} passed")
                        continue
                    for j in range(sizes[i]):
                        if pos[i][j] != run.players[(i, j)]:
                            who = [k for k, p in run.players.items() if p == pos[i][j]]
                            problems.append(f"result[{i}][{j}] is " + (f"the player passed at teams[{who[0][0]}][{who[0][1]}]" if who else "not one of the passed players (a copy or another object)"))
                out.append(_inst("R2.9", "VIOLATED" if problems else "HOLDS", roles, "rate", desc, "; ".join(problems[:3])))
    return out


def c19_job(job) -> List[Dict[str, Any]]:
    """R19.5: on every two-team game the partial-pairing Bradley-Terry model stores the terms of the full-pairing one."""
    tier = job
    prog = Program()
    by_name = {r.short: r for r in prog.roles()}
    full, part = by_name.get("BradleyTerryFull"), by_name.get("BradleyTerryPart")
    if full is None or part is None:
        return []
    out = []
    sizes_list = [(1, 1), (2, 1), (1, 2)] + ([(2, 3)] if tier == "thorough" else [])
    for sizes in sizes_list:
        for lv in weak_orderings(2):
            for ls in (False,):  # the cap of limit_sigma is wrapper code: compared by R19.2, decided by C06 R6.5
                desc = f"{part.short}.rate == {full.short}.rate on two teams: team sizes {sizes}, {describe(lv)}, limit_sigma={ls}"
                try:
                    ra, rb = run_rate(prog, full, sizes, lv, limit_sigma=ls), run_rate(prog, part, sizes, lv, limit_sigma=ls)
                    bad = ra.ok() or rb.ok()
                    ta, tb = (None, None) if bad else (state_terms(ra), state_terms(rb))
                except Exception as e:  # noqa: BLE001
                    bad, ta, tb = f"abstract evaluation failed: {type(e).__name__}: {e}", None, None
                if ta is None or tb is None:
                    out.append(_inst("R19.5", "UNDECIDED", part, "rate", desc, bad or "a stored value has no term"))
                    continue
                ok, msg = _compare_states(ta, tb)
                out.append(_inst("R19.5", "HOLDS" if ok else "UNDECIDED" if ok is None else "VIOLATED", part, "rate", desc, "" if ok else msg))
    return out


_CHECKER_DIGEST: List[Optional[str]] = [None]


def _checker_digest() -> str:
    """Digest of the analyser's own sources (a cached result is only valid for the analyser that produced it)."""
    if _CHECKER_DIGEST[0] is None:
        import hashlib
        import os

        h = hashlib.sha1()
        root = os.path.dirname(os.path.dirname(os.path.abspath(__file__)))
        for dp, dn, fn in sorted(os.walk(root)):
            dn.sort()
            for f in sorted(fn):
                if f.endswith(".py") and f != "manifest_gen.py" and "selftest" not in dp:
                    with open(os.path.join(dp, f), "rb") as fh:
                        h.update(f.encode())
                        h.update(fh.read())
        _CHECKER_DIGEST[0] = h.hexdigest()
    return _CHECKER_DIGEST[0]


def _cached(job_fn, job, repo_digest: str):
    """Memo of one explicit-game job keyed by (analysed sources, analyser sources, job): several checks use the same closed-form /
    cap / returns-normally job as counterpart of their structural rules. The memo is an optimisation only (a miss recomputes); it lives
    outside /verif and /repo and can be disabled with OSV_NO_CACHE=1."""
    import hashlib
    import os
    import pickle

    if os.environ.get("OSV_NO_CACHE"):
        return job_fn(job)
    base = os.environ.get("OSV_CACHE_DIR") or os.path.join("/dev/shm" if os.path.isdir("/dev/shm") else "/tmp", f"osv-cache-{os.getuid()}")
    # the rule id is the last string of the job for the shared jobs: results are stored without it
    rule = next((x for x in reversed(job) if isinstance(x, str) and x.startswith("R")), None) if isinstance(job, tuple) else None
    key_job = tuple(x for x in job if x != rule) if rule else job
    key = hashlib.sha1(repr((job_fn.__module__, job_fn.__name__, key_job, repo_digest, _checker_digest())).encode()).hexdigest()
    path = os.path.join(base, key + ".pkl")
    try:
        with open(path, "rb") as fh:
            out = pickle.load(fh)
    except Exception:  # noqa: BLE001
        out = job_fn(job)
        try:
            os.makedirs(base, exist_ok=True)
            tmp = path + f".{os.getpid()}.tmp"
            with open(tmp, "wb") as fh:
                pickle.dump(out, fh)
            os.replace(tmp, path)
        except Exception:  # noqa: BLE001
            pass
        return out
    if rule:
        out = [dict(d, rule=rule) for d in out]
    return out


JOB_BUDGET_S = {"quick": 300.0, "thorough": 1500.0}


def budgeted(fn, job, digest=None):
    """One explicit-game job under a wall-clock budget: a job that does not finish (an abstract run or a normal form that blows up
    on code the machinery does not handle well) yields one undecided instance instead of hanging the check. Nothing is cached then."""
    import os

    tier = next((x for x in job if x in ("quick", "thorough")), "quick") if isinstance(job, tuple) else "quick"
    rule = next((x for x in reversed(job) if isinstance(x, str) and x.startswith("R")), "R?") if isinstance(job, tuple) else "R?"
    out = [None]
    with time_limit(float(os.environ.get("OSV_JOB_BUDGET_S", JOB_BUDGET_S.get(tier, 300.0)))):
        out[0] = _cached(fn, job, digest) if digest is not None else fn(job)
    if out[0] is None:
        return [dict(rule=rule, verdict="UNDECIDED", module="", function=getattr(fn, "__name__", "job"), construct=f"explicit-game job {job}", line=0,
                     message="the job did not finish within its time budget (the explicit evaluation or a normal form blew up on this code)", detail={})]
    return out[0]


class _CachedJob:
    def __init__(self, fn, digest):
        self.fn, self.digest = fn, digest

    def __call__(self, job):
        return budgeted(self.fn, job, self.digest)


def add_instances(rep, job_fn, jobs, rule: str, floor: int, counterpart_only: bool = False) -> None:
    """Run the explicit-game jobs on the process pool and add their instances to the report. `counterpart_only`: the rule belongs
    to another property (the closed forms of C01 / C12) and serves this check only as the exact small-game counterpart of its
    structural rules: an instance that does not hold is recorded as assumed-not-used (it is that other check's finding, and it
    disables the arbitration, which needs every instance to hold); no instance floor applies."""
    from ..report import Instance
    from .harness import parallel_map

    digest = rep.extra.get("repo_digest") or Program().digest()
    for lst in parallel_map(_CachedJob(job_fn, digest), jobs):
        for d in lst:
            verdict, message = d["verdict"], d.get("message", "")
            if counterpart_only and verdict != "HOLDS":
                message = f"[counterpart rule of another property ({verdict.lower()} there): not used to arbitrate here] " + message
                verdict = "ASSUMED"
            rep.add(Instance(d["rule"], verdict, d["module"], d["function"], d["construct"], d["line"], message, d.get("detail", {})))
    if not counterpart_only:
        rep.floor(rule, floor)
    else:
        rep.__dict__.setdefault("counterpart_min", {})[rule] = floor  # fewer holding instances than this: no arbitration
    rep.trust("explicit small games (osv/rules/game.py): every team, player and rank value its own abstract object, one assumed weak ordering of the rank values per run; "
              "polynomial normal form with denominators cleared (osv/poly.py), f(z) + f(-z) = 1 for the logistic shape and the Gaussian CDF role")


# ---------------------------------------------------------------------------------------------------------------------
# predictions on explicit games
# ---------------------------------------------------------------------------------------------------------------------

LAST_RUN: List[Any] = [None]  # the run behind the last win_terms / rank_terms / draw_term call (for case splitting)


def open_compares(run) -> List[Tuple[Any, Any]]:
    """Comparisons between two input-dependent terms that a branch of the run could not decide (candidates for a case split)."""
    out = []
    if run is None:
        return out
    def rating_only(t, depth=0):
        # built from the ratings and the model parameters alone (no rank value, no element of a sorted or unknown-position
        # sequence, no numbered local): only then are all three relations possible whatever the assumed ordering of the ranks
        if not isinstance(t, tuple) or depth > 60:
            return True
        if t and t[0] == "param":
            return isinstance(t[1], str) and (t[1].startswith(("g.mu", "g.sg", "g.tau", "model.")))
        if t and t[0] in ("elem", "opq", "rd", "idx", "in", "lenterm", "star-occurrence", "cmp"):
            return False
        return all(rating_only(x, depth + 1) for x in t[1:] if isinstance(x, tuple))

    def splittable(a, b):
        if not (rating_only(a) and rating_only(b)):
            return False
        # two input-dependent terms, or a *compound* term against a constant (a threshold on a computed quantity: both sides are
        # possible). A bare input against a constant is not split: the sign domain of the inputs (sigma > 0, tau >= 0) is not modelled here.
        if a[0] != "const" and b[0] != "const":
            return True
        other = b if a[0] == "const" else a
        return other[0] not in ("const", "param")

    for a, b in run.world.I.open_cmps:
        if splittable(a, b) and (a, b) not in out and (b, a) not in out:
            out.append((a, b))
    opq = set(run.world.I.opaque_funcs or ())
    for ev in run.world.I.events:
        if ev.kind != "branch" or ev.data.get("tv") is not None:
            continue
        if ev.func in opq or any(lbl in opq for lbl in (getattr(ev, "stack", None) or ())):
            continue  # a guard inside a function the run treats as uninterpreted
        v = ev.data.get("val")
        s = getattr(v, "sym", None)
        if isinstance(v, Bool) and isinstance(s, tuple) and len(s) == 4 and s[0] == "cmp" and s[2] is not None and s[3] is not None:
            a, b = s[2], s[3]
            if splittable(a, b):
                if (a, b) not in out and (b, a) not in out:
                    out.append((a, b))
    return out


def _poly_to_sym(p: Poly):
    """A polynomial over plain parameter atoms back into a term (None when it contains anything else)."""
    terms = []
    for mono, c in sorted(p.items(), key=repr):
        t = ("const", c.numerator) if c.denominator == 1 else ("div", ("const", c.numerator), ("const", c.denominator))
        for at, e in mono:
            if not (isinstance(at, tuple) and len(at) == 2 and at[0] == "param") or e.denominator != 1 or e < 1:
                return None
            for _ in range(int(e)):
                t = ("mul", t, at)
        terms.append(t)
    if not terms:
        return ("const", 0)
    out = terms[0]
    for t in terms[1:]:
        out = ("add", out, t)
    return out


def equation_substitution(rels):
    """atom map realising the assumed equations a == b: each equation that is linear in some parameter atom with coefficient +-1
    is solved for that atom. Returns (atom_map, number of equations not solved)."""
    subst: Dict[Any, Any] = {}
    unsolved = 0
    for a, b, r in rels:
        if r != "EQ":
            continue
        amap = (lambda s, _m=dict(subst): _m.get(s, s)) if subst else None
        pa, pb = to_poly(a, amap), to_poly(b, amap)
        if pa is None or pb is None:
            unsolved += 1
            continue
        def unroot(q):
            # sqrt(F) as a whole term: the equation sqrt(F) == sqrt(G) is F == G
            if len(q) == 1:
                (mono, c), = q.items()
                if c == 1 and len(mono) == 1 and mono[0][1] == Fraction(1, 2) and isinstance(mono[0][0], tuple) and mono[0][0][0] == "sum":
                    return {m_: c_ for m_, c_ in mono[0][0][1]}
            return None

        ua, ub = unroot(pa), unroot(pb)
        if ua is not None and ub is not None:
            pa, pb = ua, ub
        d = p_add(pa, pb, -1)
        if not d:
            continue
        if len(d) == 2:
            # c * (x^2 - y^2) == 0 for two non-negative parameter atoms (sigmas): x == y
            (m1, c1), (m2, c2) = sorted(d.items(), key=repr)
            if c1 == -c2 and len(m1) == 1 and len(m2) == 1 and m1[0][1] == 2 and m2[0][1] == 2 and all(isinstance(m[0][0], tuple) and m[0][0][0] == "param" for m in (m1, m2)):
                x_, y_ = sorted((m1[0][0], m2[0][0]), key=repr, reverse=True)
                subst[x_] = y_
                continue
        cand = None
        for mono, c in sorted(d.items(), key=repr, reverse=True):
            if len(mono) == 1 and mono[0][1] == 1 and isinstance(mono[0][0], tuple) and mono[0][0][0] == "param" and abs(c) == 1:
                x = mono[0][0]
                if not any(_mentions_atom(m2, {x[1]}) for m2 in d if m2 != mono):
                    cand = (x, c, mono)
                    break
        if cand is None:
            unsolved += 1
            continue
        x, c, mono = cand
        rest = {m2: -c2 / c for m2, c2 in d.items() if m2 != mono}
        sym = _poly_to_sym(rest)
        if sym is None:
            unsolved += 1
            continue
        subst[x] = sym
    if not subst:
        return None, unsolved
    return (lambda s, _m=subst: _m.get(s, s)), unsolved


def case_split(term_fn, depth: int = 2, rels=()):
    """Leaves of the finite case analysis: term_fn(rels) -> (value, problem); when the run behind it left a comparison between two
    input terms open, the three relations are assumed in turn (3-point order domain), up to `depth` comparisons deep."""
    val, bad = term_fn(rels)
    run = LAST_RUN[0]
    opens = [p for p in open_compares(run) if not any((p[0] == r[0] and p[1] == r[1]) or (p[0] == r[1] and p[1] == r[0]) for r in rels)]
    if val is not None or not opens or depth == 0:
        return [(tuple(rels), val, bad)]
    out = []
    a, b = opens[0]
    for rel in ("LT", "EQ", "GT"):
        out.extend(case_split(term_fn, depth - 1, tuple(rels) + ((a, b, rel),)))
    return out


PRED_SIZES = [(1, 1), (2, 1), (1, 1, 1), (1, 2, 1)]
PRED_THOROUGH = [(1, 1, 1, 1), (2, 1, 1, 2), (1, 1, 1, 1, 1), (3, 2, 1), (4, 4, 3)]


def _pred_sizes(tier: str):
    return PRED_SIZES + PRED_THOROUGH  # cheap enough for every run


def _rename_team(i_from: int, i_to: int):
    """atom map: the ratings of team i_from become those of team i_to (two identical teams)."""
    pf_mu, pf_sg = f"g.mu{i_from}_", f"g.sg{i_from}_"

    def fn(s):
        if isinstance(s, tuple) and len(s) == 2 and s[0] == "param" and isinstance(s[1], str):
            if s[1].startswith(pf_mu):
                return ("param", f"g.mu{i_to}_" + s[1][len(pf_mu):])
            if s[1].startswith(pf_sg):
                return ("param", f"g.sg{i_to}_" + s[1][len(pf_sg):])
        return s

    return fn


def win_terms(prog, roles, sizes, order=None, atom_map=None, rels=()):
    """(terms by team identity, problem)"""
    run = run_predict(prog, roles, "predict_win", sizes, order, rels=rels)
    LAST_RUN[0] = run
    bad = run.ok()
    if bad:
        return None, bad
    nums = result_numbers(run)
    n = len(sizes)
    if nums is None:
        return None, f"the result is not an explicit list ({short(run.result)[:100]})"
    if len(nums) != n:
        return None, ("count", f"{len(nums)} numbers returned for {n} teams")
    out = {}
    for pos, x in enumerate(nums):
        p = to_poly(x.sym, atom_map) if isinstance(x, Num) and x.sym is not None else poly_of(x)
        if p is None:
            return None, f"result[{pos}] has no term"
        out[run.order[pos]] = p
    return out, ""


def c09_job(job) -> List[Dict[str, Any]]:
    idx, tier = job
    prog = Program()
    roles = prog.roles()[idx]
    out = []

    def add(verdict, construct, message=""):
        out.append(_inst("R9.9", verdict, roles, "predict_win", construct, message))

    for sizes in _pred_sizes(tier):
        n = len(sizes)
        try:
            base, bad = win_terms(prog, roles, sizes)
        except Exception as e:  # noqa: BLE001
            base, bad = None, f"abstract evaluation failed: {type(e).__name__}: {e}"
        c_sum = f"one number per team, summing to 1: team sizes {sizes}"
        if base is None:
            if isinstance(bad, tuple):
                add("VIOLATED", c_sum, bad[1])
            else:
                add("UNDECIDED", c_sum, bad)
            continue
        tot: Poly = {}
        for p in base.values():
            tot = p_add(tot, p)
        z = is_zero(p_add(tot, p_const(1), -1))
        add("HOLDS" if z else "UNDECIDED" if z is None else "VIOLATED", c_sum,
            "" if z else "the sum could not be normalised" if z is None else f"the win probabilities sum to {show(tot, 200)}, not to 1")
        # permuting the teams permutes the result
        for k in range(n - 1):
            order = list(range(n))
            order[k], order[k + 1] = order[k + 1], order[k]
            c = f"permuting the teams permutes the result: team sizes {sizes}, teams {k} and {k + 1} exchanged"
            try:
                t2, bad2 = win_terms(prog, roles, sizes, order)
            except Exception as e:  # noqa: BLE001
                t2, bad2 = None, f"abstract evaluation failed: {type(e).__name__}: {e}"
            if t2 is None:
                add("UNDECIDED", c, bad2 if not isinstance(bad2, tuple) else bad2[1])
                continue
            diff = [i for i in range(n) if same(base[i], t2[i]) is not True]
            add("HOLDS" if not diff else "VIOLATED", c, "" if not diff else f"the probability of team {diff[0]} depends on where the teams stand in the list: {show(p_add(base[diff[0]], t2[diff[0]], -1), 200)}")
        # identical teams get identical probabilities; two identical teams get one half each
        for a in range(n):
            for b in range(a + 1, n):
                if sizes[a] != sizes[b]:
                    continue
                c = f"identical teams get identical probabilities: team sizes {sizes}, team {b} a copy of team {a}"
                try:
                    t3, bad3 = win_terms(prog, roles, sizes, None, _rename_team(b, a))
                except Exception as e:  # noqa: BLE001
                    t3, bad3 = None, f"abstract evaluation failed: {type(e).__name__}: {e}"
                if t3 is None:
                    add("UNDECIDED", c, bad3 if not isinstance(bad3, tuple) else bad3[1])
                    continue
                s = same(t3[a], t3[b])
                msg = "" if s else f"two teams with the same ratings get different probabilities: difference {show(p_add(t3[a], t3[b], -1), 200)}"
                if s and n == 2:
                    half = same(t3[a], p_const(Fraction(1, 2)))
                    if half is not True:
                        s, msg = False, f"two identical teams get {show(t3[a], 120)}, not one half"
                add("HOLDS" if s else "UNDECIDED" if s is None else "VIOLATED", c, msg)
    return out


def draw_term(prog, roles, sizes, order=None, player_order=None, atom_map=None, rels=()):
    w_run = run_predict(prog, roles, "predict_draw", sizes, order, rels=rels) if player_order is None else None
    if w_run is None:
        # players of one team exchanged: build the game by hand
        w = World(prog, roles, Box())
        I = w.I
        I.number_locals = True
        I.explicit = True
        common = prog.modules.get(f"{prog.package}.models.weng_lin.common")
        if common is not None:
            I.opaque_funcs = {common.funcs[n_].fq for n_ in CORRECTIONS if n_ in common.funcs}
        m = w.make_model(custom_gamma=False)
        game, players = build_game(w, sizes, order, player_order)
        I.events.clear()
        I.raises.clear()
        with sym_cap(TERM_CAP):
            res = w.call(m, "predict_draw", [game], {})
        w_run = GameRun(roles.short, tuple(sizes), tuple(order or range(len(sizes))), w, players, res, list(I.undecided), list(I.raises), bool(w.state.bottom))
    LAST_RUN[0] = w_run
    bad = w_run.ok()
    if bad:
        return None, bad
    rv = w_run.result
    p = to_poly(rv.sym, atom_map) if isinstance(rv, Num) and rv.sym is not None else poly_of(rv)
    if p is None:
        return None, f"the result has no term ({short(w_run.result)[:100]})"
    return p, ""


def c10_job(job) -> List[Dict[str, Any]]:
    """R10.5: predict_draw does not depend on the order of the teams or of the players of a team (same term)."""
    idx, tier = job
    prog = Program()
    roles = prog.roles()[idx]
    out = []
    for sizes in _pred_sizes(tier):
        n = len(sizes)
        try:
            base, bad = draw_term(prog, roles, sizes)
        except Exception as e:  # noqa: BLE001
            base, bad = None, f"abstract evaluation failed: {type(e).__name__}: {e}"
        if base is None:
            out.append(_inst("R10.5", "UNDECIDED", roles, "predict_draw", f"order independence: team sizes {sizes}", bad))
            continue
        variants = []
        for k in range(n - 1):
            order = list(range(n))
            order[k], order[k + 1] = order[k + 1], order[k]
            variants.append((f"teams {k} and {k + 1} exchanged", dict(order=order)))
        for i, sz in enumerate(sizes):
            if sz >= 2:
                variants.append((f"players 0 and 1 of team {i} exchanged", dict(player_order={i: [1, 0] + list(range(2, sz))})))
        for what, kw in variants:
            c = f"order independence: team sizes {sizes}, {what}"
            try:
                t2, bad2 = draw_term(prog, roles, sizes, **kw)
            except Exception as e:  # noqa: BLE001
                t2, bad2 = None, f"abstract evaluation failed: {type(e).__name__}: {e}"
            if t2 is None:
                out.append(_inst("R10.5", "UNDECIDED", roles, "predict_draw", c, bad2))
                continue
            s = same(base, t2)
            out.append(_inst("R10.5", "HOLDS" if s else "UNDECIDED" if s is None else "VIOLATED", roles, "predict_draw", c,
                             "" if s else f"the draw probability depends on the listing order: difference {show(p_add(base, t2, -1), 200)}"))
    return out


def _abs_atoms(p: Poly) -> List[Any]:
    seen = []
    for mono in p:
        for at, e in mono:
            if isinstance(at, tuple) and at and at[0] == "abs" and at not in seen:
                seen.append(at)
    return seen


def _subst_atom(p: Poly, atom, repl: Poly) -> Optional[Poly]:
    out: Poly = {}
    for mono, c in p.items():
        k = None
        rest = []
        for a2, e2 in mono:
            if a2 == atom:
                k = e2
            else:
                rest.append((a2, e2))
        term: Poly = {tuple(rest): c}
        if k is not None:
            if k.denominator != 1 or k < 0:
                return None
            for _ in range(int(k)):
                term = p_mul(term, repl)
        out = p_add(out, term)
    return out


def zero_up_to_abs(p: Poly) -> Optional[bool]:
    """p == 0 for some choice of sign of every |x| atom (each |x| is x or -x on a region of the inputs; which one is a
    fact about run-time signs that the term domain does not decide)."""
    atoms = _abs_atoms(p)
    if len(atoms) > 6:
        return None
    undec = False
    for signs in itertools.product((1, -1), repeat=len(atoms)):
        q: Optional[Poly] = p
        for at, sg in zip(atoms, signs):
            inner: Poly = {m: c for m, c in at[1]}
            q = _subst_atom(q, at, inner if sg == 1 else p_neg(inner))
            if q is None:
                break
        if q is None:
            undec = True
            continue
        z = is_zero(q)
        if z:
            return True
        if z is None:
            undec = True
    return None if undec else False


def rank_terms(prog, roles, sizes, order=None, atom_map=None, rels=()):
    run = run_predict(prog, roles, "predict_rank", sizes, order, rels=rels)
    LAST_RUN[0] = run
    bad = run.ok()
    if bad:
        return None, bad
    items = result_numbers(run)
    n = len(sizes)
    if items is None:
        return None, f"the result is not an explicit list ({short(run.result)[:100]})"
    if len(items) != n:
        return None, ("count", f"{len(items)} pairs returned for {n} teams")
    out = {}
    from ..ai.values import TupleV

    for pos, x in enumerate(items):
        if not (isinstance(x, TupleV) and len(x.items) == 2):
            return None, ("shape", f"result[{pos}] is not a (rank, probability) pair ({short(x)[:80]})")
        pv = x.items[1]
        p = to_poly(pv.sym, atom_map) if isinstance(pv, Num) and pv.sym is not None else poly_of(pv)
        if p is None:
            return None, f"the probability at result[{pos}] has no term"
        out[run.order[pos]] = p
    return out, ""


def c11_job(job) -> List[Dict[str, Any]]:
    """R11.8: one (rank, probability) pair per team in input order (probabilities move with their teams); for three or more
    teams the probabilities plus predict_draw are 1 (up to the sign of each abs())."""
    idx, tier = job
    prog = Program()
    roles = prog.roles()[idx]
    out = []

    def add(verdict, construct, message=""):
        out.append(_inst("R11.8", verdict, roles, "predict_rank", construct, message))

    for sizes in _pred_sizes(tier):
        n = len(sizes)
        c0 = f"one (rank, probability) pair per team: team sizes {sizes}"
        try:
            base, bad = rank_terms(prog, roles, sizes)
        except Exception as e:  # noqa: BLE001
            base, bad = None, f"abstract evaluation failed: {type(e).__name__}: {e}"
        if base is None:
            add("VIOLATED" if isinstance(bad, tuple) else "UNDECIDED", c0, bad[1] if isinstance(bad, tuple) else bad)
            continue
        add("HOLDS", c0)
        for k in range(n - 1):
            order = list(range(n))
            order[k], order[k + 1] = order[k + 1], order[k]
            c = f"the probabilities stand in input order: team sizes {sizes}, teams {k} and {k + 1} exchanged"
            try:
                t2, bad2 = rank_terms(prog, roles, sizes, order)
            except Exception as e:  # noqa: BLE001
                t2, bad2 = None, f"abstract evaluation failed: {type(e).__name__}: {e}"
            if t2 is None:
                add("UNDECIDED", c, bad2 if not isinstance(bad2, tuple) else bad2[1])
                continue
            diff = [i for i in range(n) if same(base[i], t2[i]) is not True]
            add("HOLDS" if not diff else "VIOLATED", c, "" if not diff else f"the probability reported for team {diff[0]} depends on where the teams stand in the list")
        if n >= 3:
            c = f"probabilities of predict_rank + predict_draw == 1: team sizes {sizes}"
            try:
                d, badd = draw_term(prog, roles, sizes)
            except Exception as e:  # noqa: BLE001
                d, badd = None, f"abstract evaluation failed: {type(e).__name__}: {e}"
            if d is None:
                add("UNDECIDED", c, badd)
                continue
            tot: Poly = dict(d)
            for p in base.values():
                tot = p_add(tot, p)
            z = zero_up_to_abs(p_add(tot, p_const(1), -1))
            add("HOLDS" if z else "UNDECIDED" if z is None else "VIOLATED", c,
                "" if z else "the sum could not be normalised" if z is None else "the rank probabilities and the draw probability do not add up to 1 for any choice of the signs under abs(): " + show(p_add(tot, p_const(1), -1), 220))
    return out


def c19_pred_job(job) -> List[Dict[str, Any]]:
    """R19.6: the three predictions of every registered model are the same terms as the first model's (explicit small games)."""
    tier = job
    prog = Program()
    rl = prog.roles()
    out = []
    if len(rl) < 2:
        return out
    ref = rl[0]
    for sizes in _pred_sizes(tier):
        refs = {}
        for op, fn in (("predict_win", win_terms), ("predict_rank", rank_terms)):
            try:
                refs[op] = fn(prog, ref, sizes)
            except Exception as e:  # noqa: BLE001
                refs[op] = (None, f"abstract evaluation failed: {type(e).__name__}: {e}")
        try:
            refs["predict_draw"] = draw_term(prog, ref, sizes)
        except Exception as e:  # noqa: BLE001
            refs["predict_draw"] = (None, f"abstract evaluation failed: {type(e).__name__}: {e}")
        for other in rl[1:]:
            for op in ("predict_win", "predict_draw", "predict_rank"):
                c = f"{other.short}.{op} == {ref.short}.{op}: team sizes {sizes}"
                try:
                    got = draw_term(prog, other, sizes) if op == "predict_draw" else (win_terms if op == "predict_win" else rank_terms)(prog, other, sizes)
                except Exception as e:  # noqa: BLE001
                    got = (None, f"abstract evaluation failed: {type(e).__name__}: {e}")
                a, b = refs[op][0], got[0]
                if a is None or b is None:
                    why = refs[op][1] if a is None else got[1]
                    out.append(_inst("R19.6", "UNDECIDED", other, op, c, why[1] if isinstance(why, tuple) else why))
                    continue
                if op == "predict_draw":
                    s = same(a, b)
                else:
                    ss = [same(a[i], b[i]) for i in range(len(sizes))]
                    s = True if all(x is True for x in ss) else False if any(x is False for x in ss) else None
                out.append(_inst("R19.6", "HOLDS" if s else "UNDECIDED" if s is None else "VIOLATED", other, op, c,
                                 "" if s else f"{other.short} and {ref.short} compute different {op} results for the same ratings and parameters"))
    return out


def c05_job(job) -> List[Dict[str, Any]]:
    """R5.4: the mu changes of two members of one team are in the ratio of their tau-inflated variances
    (dmu_a * (sg_b^2 + tau^2) == dmu_b * (sg_a^2 + tau^2) as rational functions), on every ordering of the small games."""
    idx, tier = job
    prog = Program()
    roles = prog.roles()[idx]
    out = []
    tau2 = p_mul(p_atom(("param", "g.tau")), p_atom(("param", "g.tau")))
    for sizes in _sizes("quick"):
        if max(sizes) < 2:
            continue
        for lv in weak_orderings(len(sizes)):
            desc = f"members of a team move in proportion to their own inflated variance: team sizes {sizes}, {describe(lv)}"
            try:
                run = run_rate(prog, roles, sizes, lv)
                bad = run.ok()
            except Exception as e:  # noqa: BLE001
                bad = f"abstract evaluation failed: {type(e).__name__}: {e}"
            if bad:
                out.append(_inst("R5.4", "UNDECIDED", roles, "rate", desc, bad))
                continue
            verdict, msg = "HOLDS", ""
            for i, sz in enumerate(sizes):
                for j in range(1, sz):
                    a, b = poly_of(run.field((i, 0), "mu")), poly_of(run.field((i, j), "mu"))
                    if a is None or b is None:
                        verdict, msg = "UNDECIDED", "a stored mu has no term"
                        break
                    da, db = p_add(a, p_atom(mu_atom(i, 0)), -1), p_add(b, p_atom(mu_atom(i, j)), -1)
                    va = p_add(p_mul(p_atom(sg_atom(i, 0)), p_atom(sg_atom(i, 0))), tau2)
                    vb = p_add(p_mul(p_atom(sg_atom(i, j)), p_atom(sg_atom(i, j))), tau2)
                    z = is_zero(p_add(p_mul(da, vb), p_mul(db, va), -1))
                    if z is None:
                        verdict, msg = "UNDECIDED", "the cross product could not be normalised"
                    elif not z:
                        verdict, msg = "VIOLATED", f"players 0 and {j} of team {i} do not move in the ratio of their inflated variances (sigma^2 + tau^2)"
                        break
                if verdict == "VIOLATED":
                    break
            out.append(_inst("R5.4", verdict, roles, "rate", desc, msg))
    return out


def _rename_atoms(mapping: Dict[str, str]):
    def fn(s):
        if isinstance(s, tuple) and len(s) == 2 and s[0] == "param" and s[1] in mapping:
            return ("param", mapping[s[1]])
        return s

    return fn


def _state_terms_mapped(run: GameRun, atom_map) -> Optional[Dict[Tuple[int, int], Tuple[Poly, Poly]]]:
    out = {}
    for who in run.players:
        vals = []
        for name in ("mu", "sigma"):
            v = run.field(who, name)
            p = to_poly(v.sym, atom_map) if isinstance(v, Num) and v.sym is not None else None
            if p is None:
                return None
            vals.append(p)
        out[who] = tuple(vals)
    return out


def run_rate_model(prog, roles, sizes, levels, *, tau_arg: bool, limit_arg: Optional[bool], limit_model: Optional[bool], tau_kind: str = "float") -> GameRun:
    """rate on an explicit game with the options given per call or left to the model (tau atom: g.tau per call, model.tau on the model)."""
    w = World(prog, roles, Box())
    I = w.I
    I.number_locals = True
    I.explicit = True
    common = prog.modules.get(f"{prog.package}.models.weng_lin.common")
    if common is not None:
        I.opaque_funcs = {common.funcs[n].fq for n in CORRECTIONS if n in common.funcs}
    overrides = {}
    if limit_model is not None:
        overrides["limit_sigma"] = Bool(bool(limit_model), frozenset(), None)
    m = w.make_model(custom_gamma=False, overrides=overrides or None)
    game_, players = build_game(w, sizes)
    kwargs: Dict[str, Any] = {"ranks": build_values(w, levels, list(range(len(sizes))))}
    if tau_arg:
        kwargs["tau"] = Num(kinds=frozenset({tau_kind}), sym=("param", "g.tau"))
    if limit_arg is not None:
        kwargs["limit_sigma"] = Bool(bool(limit_arg), frozenset(), None)
    I.events.clear()
    I.raises.clear()
    I.open_cmps.clear()
    with sym_cap(TERM_CAP):
        res = w.call(m, "rate", [game_], kwargs)
    return GameRun(roles.short, tuple(sizes), tuple(range(len(sizes))), w, players, res, list(I.undecided), list(I.raises), bool(w.state.bottom))


def c15_job(job) -> List[Dict[str, Any]]:
    """R15.6: rate(tau=t) stores the terms that a model built with tau=t stores without the argument (model.tau renamed to t);
    with limit_sigma off; and the result positions and the posterior mu agree between rate(limit_sigma=b) and Model(limit_sigma=b)."""
    idx, tier = job
    prog = Program()
    roles = prog.roles()[idx]
    out = []
    ren = _rename_atoms({"model.tau": "g.tau"})
    for sizes in [(1, 1), (2, 1), (1, 2, 1)]:
        for lv in weak_orderings(len(sizes)):
            for b, kind in ((False, "float"), (True, "float"), (False, "int")):
                desc = f"rate(tau=t, limit_sigma={b}) == Model(tau=t, limit_sigma={b}).rate(): team sizes {sizes}, {describe(lv)}" + (" (t an int)" if kind == "int" else "")
                try:
                    ra = run_rate_model(prog, roles, sizes, lv, tau_arg=True, limit_arg=b, limit_model=(not b), tau_kind=kind)
                    rb = run_rate_model(prog, roles, sizes, lv, tau_arg=False, limit_arg=None, limit_model=b)
                    bad = ra.ok() or rb.ok()
                except Exception as e:  # noqa: BLE001
                    bad = f"abstract evaluation failed: {type(e).__name__}: {e}"
                if bad:
                    out.append(_inst("R15.6", "UNDECIDED", roles, "rate", desc, bad))
                    continue
                verdict, msg = "HOLDS", ""
                for who in ra.players:
                    for name in ("mu", "sigma"):
                        va, vb = ra.field(who, name), rb.field(who, name)
                        pa = to_poly(va.sym) if isinstance(va, Num) and va.sym is not None else None  # per-call run: the model's own tau must not appear at all
                        pb = to_poly(vb.sym, ren) if isinstance(vb, Num) and vb.sym is not None else None
                        if pa is None or pb is None:
                            if name == "sigma" and b and (pa is None) == (pb is None):
                                continue  # the capped sigma is a join of two branches in both runs: compared by C06 R6.5 / C15 R15.1
                            verdict, msg = "UNDECIDED", f"the {name} stored for player {who} has no term in one of the two runs"
                            continue
                        s = same(pa, pb)
                        if s is False:
                            verdict, msg = "VIOLATED", f"the posterior {name} of player {who[1]} of team {who[0]} differs between the per-call option and the model-level setting"
                            break
                        if s is None and verdict == "HOLDS":
                            verdict, msg = "UNDECIDED", "terms could not be compared"
                    if verdict == "VIOLATED":
                        break
                out.append(_inst("R15.6", verdict, roles, "rate", desc, msg))
    return out


def _run_predict_seeded(prog, roles, op, sizes, rels, assume_close=None):
    w = World(prog, roles, Box())
    I = w.I
    I.number_locals = True
    I.explicit = True
    I.assume_close = assume_close
    common = prog.modules.get(f"{prog.package}.models.weng_lin.common")
    if common is not None:
        I.opaque_funcs = {common.funcs[n].fq for n in CORRECTIONS if n in common.funcs}
    m = w.make_model(custom_gamma=False)
    game_, players = build_game(w, sizes)
    for a, b, r in rels:
        w.state.rel_set(a, b, frozenset({r}))
    I.events.clear()
    I.raises.clear()
    I.open_cmps.clear()
    with sym_cap(TERM_CAP):
        res = w.call(m, op, [game_], {})
    return GameRun(roles.short, tuple(sizes), tuple(range(len(sizes))), w, players, res, list(I.undecided), list(I.raises), bool(w.state.bottom))


def c11_rank_job(job) -> List[Dict[str, Any]]:
    """R11.9: the ranking clause on every weak ordering of the returned probabilities of an explicit game. Phase 1 takes the
    terms of the probabilities predict_rank returns; phase 2 assumes, for every weak ordering of these n terms, the relations
    between them (3-point order domain; the same relation for their abs() and un-abs()ed forms) and evaluates predict_rank again:
    whatever code produces the ranks (a rank-data helper, a sort, a direct scan) becomes concrete, the ranks are constants and are
    compared with the statement."""
    idx, tier = job
    prog = Program()
    roles = prog.roles()[idx]
    out = []
    from ..ai.values import TupleV

    for n in (2, 3) + ((4,) if tier == "thorough" else ()):
        sizes = (1,) * n
        head = f"ranks agree with the returned probabilities on every weak ordering of {n} probabilities"
        try:
            r0 = _run_predict_seeded(prog, roles, "predict_rank", sizes, [])
            bad = r0.ok()
            items = None if bad else result_numbers(r0)
        except Exception as e:  # noqa: BLE001
            bad, items = f"abstract evaluation failed: {type(e).__name__}: {e}", None
        if items is None or len(items) != n or not all(isinstance(x, TupleV) and len(x.items) == 2 and isinstance(x.items[1], Num) and x.items[1].sym is not None for x in items):
            out.append(_inst("R11.9", "UNDECIDED", roles, "predict_rank", head, bad or "the result is not an explicit list of (rank, probability) pairs with symbolic probabilities"))
            continue
        syms = [x.items[1].sym for x in items]
        if len(set(syms)) != n:
            out.append(_inst("R11.9", "UNDECIDED", roles, "predict_rank", head, "two teams of the explicit game have the same probability term"))
            continue

        def forms(s):
            fs = [s]
            if s[0] == "abs":
                fs.append(s[1])
            else:
                fs.append(("abs", s))
            return fs

        worst = "HOLDS"
        for lv in weak_orderings(n):
            # level 0 = the largest probability
            rels = []
            for i in range(n):
                for j in range(i + 1, n):
                    rel = "EQ" if lv[i] == lv[j] else ("GT" if lv[i] < lv[j] else "LT")
                    for fa, fb in zip(forms(syms[i]), forms(syms[j])):
                        rels.append((fa, fb, rel))
            desc = f"{head}: " + describe(lv, "p").replace("<", ">")

            def ranks_under(assume_close):
                try:
                    run_ = _run_predict_seeded(prog, roles, "predict_rank", sizes, rels, assume_close)
                    bad_ = run_.ok()
                    res_ = None if bad_ else result_numbers(run_)
                except Exception as e:  # noqa: BLE001
                    return None, f"abstract evaluation failed: {type(e).__name__}: {e}", False
                rk = None
                if res_ is not None and len(res_) == n and all(isinstance(x, TupleV) and len(x.items) == 2 and isinstance(x.items[0], Num) for x in res_):
                    rk = [x.items[0].const for x in res_]
                return rk, bad_, bool(run_.world.I.tolerance_tests)

            ranks, bad, tol = ranks_under(None)
            if tol and (ranks is None or any(not isinstance(r, int) or isinstance(r, bool) for r in ranks)):
                # the ranking consults a tolerance test (math.isclose) on the probabilities: two probabilities in a strict order can be
                # arbitrarily close, so the clause must hold when every such test answers "close" (and when it answers "not close")
                for assume, word in ((True, "close"), (False, "not close")):
                    rk, bad2, _ = ranks_under(assume)
                    if rk is None or any(not isinstance(r, int) or isinstance(r, bool) for r in rk):
                        continue
                    probs = []
                    for i in range(n):
                        for j in range(n):
                            if lv[i] < lv[j] and not rk[i] < rk[j]:
                                probs.append(f"p{i} > p{j} but rank {rk[i]} is not better than {rk[j]}")
                    if probs:
                        ranks = rk
                        bad = None
                        desc += f" [every tolerance test on the probabilities answering '{word}']"
                        break
                    ranks = rk
            if ranks is None or any(not isinstance(r, int) or isinstance(r, bool) for r in ranks):
                out.append(_inst("R11.9", "UNDECIDED", roles, "predict_rank", desc, bad or "the ranks are not integer constants under this ordering"))
                worst = "UNDECIDED" if worst == "HOLDS" else worst
                continue
            problems = []
            for i in range(n):
                if not 1 <= ranks[i] <= n:
                    problems.append(f"rank {ranks[i]} outside 1..{n}")
                for j in range(n):
                    if lv[i] < lv[j] and not ranks[i] < ranks[j]:
                        problems.append(f"p{i} > p{j} but rank {ranks[i]} is not better than {ranks[j]}")
                    if lv[i] == lv[j] and ranks[i] != ranks[j]:
                        problems.append(f"p{i} = p{j} but the ranks are {ranks[i]} and {ranks[j]}")
            if any(ranks[i] != 1 for i in range(n) if lv[i] == 0):
                problems.append("the most likely team does not have rank 1")
            if problems:
                worst = "VIOLATED"
                out.append(_inst("R11.9", "VIOLATED", roles, "predict_rank", desc, f"ranks {ranks}: " + "; ".join(sorted(set(problems))[:3])))
            else:
                out.append(_inst("R11.9", "HOLDS", roles, "predict_rank", desc))
    return out


def run_rate_seeded(prog, roles, sizes, levels, rels, *, limit_sigma=True, limit_from_model: bool = False) -> GameRun:
    """rate on an explicit game (ranks given, tau per call) with extra assumed relations between terms."""
    w = World(prog, roles, Box())
    I = w.I
    I.number_locals = True
    I.explicit = True
    common = prog.modules.get(f"{prog.package}.models.weng_lin.common")
    if common is not None:
        I.opaque_funcs = {common.funcs[n].fq for n in CORRECTIONS if n in common.funcs}
    m = w.make_model(custom_gamma=False, overrides={"limit_sigma": Bool(bool(limit_sigma), frozenset(), None)} if limit_from_model else None)
    game_, players = build_game(w, sizes)
    prior = {who: (I.read_field(w.state, p, "mu"), I.read_field(w.state, p, "sigma")) for who, p in players.items()}
    kwargs: Dict[str, Any] = {"ranks": build_values(w, levels, list(range(len(sizes)))), "tau": Num(kinds=frozenset({"float"}), sym=("param", "g.tau"))}
    if not limit_from_model:
        kwargs["limit_sigma"] = Bool(bool(limit_sigma), frozenset(), None)
    for a_, b_, r_ in rels:
        w.state.rel_set(a_, b_, frozenset({r_}))
    I.events.clear()
    I.raises.clear()
    I.open_cmps.clear()
    with sym_cap(TERM_CAP):
        res = w.call(m, "rate", [game_], kwargs)
    return GameRun(roles.short, tuple(sizes), tuple(range(len(sizes))), w, players, res, list(I.undecided), list(I.raises), bool(w.state.bottom), prior)


def cap_job(job) -> List[Dict[str, Any]]:
    """The limit_sigma cap on explicit games, by finite case analysis: the comparisons between a player's posterior sigma and
    a prior that the run leaves open are assumed in turn (3-point order domain). In every case the sigma finally stored for
    a player must be a term that the case's assumptions order at or below that same player's prior sigma: its own prior atom, or a
    term assumed <= / == it. (rule id passed in: R6.6 for C06, R2.10 for C02)"""
    idx, tier, rule = job
    prog = Program()
    roles = prog.roles()[idx]
    out = []
    for sizes in [(1, 1), (2, 1)] + ([(1, 1, 1)] if tier == "thorough" else []):
        lvs = weak_orderings(len(sizes)) if len(sizes) == 2 else [(0, 1, 2), (1, 0, 1)]
        for lv, from_model in [(lv, fm) for lv in lvs for fm in (False, True)]:
            desc = (f"with limit_sigma the sigma stored for a player is at most that player's own prior: team sizes {sizes}, {describe(lv)}"
                    + (", limit_sigma set on the model only" if from_model else ""))
            verdict, msg, n_leaves = "HOLDS", "", 0

            def leaves(rels, depth, from_model=from_model, lv=lv):
                run = run_rate_seeded(prog, roles, sizes, lv, rels, limit_from_model=from_model)
                opens = [p for p in open_compares(run) if not any({p[0], p[1]} == {r[0], r[1]} for r in rels)]
                if not opens or depth == 0:
                    return [(rels, run, bool(opens))]
                a, b = opens[0]
                res = []
                for rel in ("LT", "EQ", "GT"):
                    res.extend(leaves(tuple(rels) + ((a, b, rel),), depth - 1))
                return res

            try:
                lf = leaves((), sum(sizes) + 1)
            except Exception as e:  # noqa: BLE001
                out.append(_inst(rule, "UNDECIDED", roles, "rate", desc, f"abstract evaluation failed: {type(e).__name__}: {e}"))
                continue
            for rels, run, still_open in lf:
                n_leaves += 1
                bad = run.ok()
                if bad or still_open:
                    if verdict == "HOLDS":
                        verdict, msg = "UNDECIDED", bad or "comparisons remain open after the case analysis"
                    continue
                st = run.world.state
                for who in run.players:
                    v = run.field(who, "sigma")
                    pri = sg_atom(*who)
                    if not isinstance(v, Num) or v.sym is None:
                        if verdict == "HOLDS":
                            verdict, msg = "UNDECIDED", f"the sigma stored for player {who} has no term in one case"
                        continue
                    if v.sym == pri:
                        continue
                    r = st.rel_lookup(v.sym, pri)
                    if r is not None and r <= {"LT", "EQ"}:
                        continue
                    if v.sym[0] == "min":
                        # min(.., own prior, ..) is at most the own prior whatever the other arguments are
                        args = [a for a in v.sym[1:] if isinstance(a, tuple)]
                        if pri in args or any((st.rel_lookup(a, pri) or {"GT"}) <= {"LT", "EQ"} for a in args):
                            continue
                    case = ", ".join(f"{show(to_poly(a), 50)} {dict(LT='<', EQ='==', GT='>')[rr]} {show(to_poly(b), 50)}" for a, b, rr in rels)
                    if r is not None and "GT" in r and len(r) == 1:
                        verdict, msg = "VIOLATED", f"in the case [{case}] the sigma stored for player {who[1]} of team {who[0]} is assumed larger than that player's own prior, and is kept"
                        break
                    # stored something whose relation to the own prior is not fixed by the case: it was capped against another value
                    verdict, msg = "VIOLATED", (f"in the case [{case}] the sigma stored for player {who[1]} of team {who[0]} is {show(to_poly(v.sym), 80)}: neither that player's own prior nor a value the case "
                                                "orders at or below it (the cap compares against, or stores, something other than the same player's prior)")
                    break
                if verdict == "VIOLATED":
                    break
            out.append(_inst(rule, verdict, roles, "rate", desc, msg, {"cases": n_leaves}))
    return out


def returns_job(job) -> List[Dict[str, Any]]:
    """Every operation returns normally on every explicit small game (no exception of any class), rule id passed in."""
    idx, tier, rule = job
    prog = Program()
    roles = prog.roles()[idx]
    out = []
    for sizes in _sizes(tier):
        cases = [("rate", lv, mode) for lv in weak_orderings(len(sizes)) for mode in ("ranks", "scores")] + [("rate", None, "none")]
        cases += [(op, None, "") for op in ("predict_win", "predict_draw", "predict_rank")]
        for op, lv, mode in cases:
            desc = f"{op} returns normally: team sizes {sizes}" + (f", {mode} {describe(lv) if lv else ''}" if op == "rate" else "")
            try:
                run = run_rate(prog, roles, sizes, lv, mode=mode, limit_sigma=True) if op == "rate" else run_predict(prog, roles, op, sizes)
            except Exception as e:  # noqa: BLE001
                out.append(_inst(rule, "UNDECIDED", roles, op, desc, f"abstract evaluation failed: {type(e).__name__}: {e}"))
                continue
            if run.raises and not run.undecided:
                out.append(_inst(rule, "VIOLATED", roles, op, desc, f"a valid game raises {sorted({e.data['exc'] for e in run.raises})}"))
            elif run.undecided or run.bottom:
                out.append(_inst(rule, "UNDECIDED", roles, op, desc, "; ".join(run.undecided[:2]) or "no path returns"))
            else:
                out.append(_inst(rule, "HOLDS", roles, op, desc))
    return out
