"""Shared harness: run a public operation of a model on one abstract input class."""

from __future__ import annotations

import os
from concurrent.futures import ProcessPoolExecutor
from dataclasses import dataclass, field
from typing import Any, Callable, Dict, List, Optional, Tuple

from ..ai.values import Bool, Bottom, Interval, NoneV, Num, Ptr, Val, short
from ..ai.world import Box, World, build_numlist, build_teams
from ..frontend import PUBLIC_OPS, AnalysisError, Program, Roles, norm_text


@dataclass
class Outcome:
    model: str
    op: str
    case: Dict[str, str]
    world: World
    result: Val
    returned: bool  # some path returns normally
    raises: List[Any]
    undecided: List[str]

    @property
    def I(self):
        return self.world.I

    def raise_classes(self) -> List[str]:
        return sorted({e.data["exc"] for e in self.raises})

    def describe(self) -> Dict[str, Any]:
        return {
            "model": self.model,
            "op": self.op,
            "case": self.case,
            "outcome": ("returns" if self.returned else "") + ("+" if self.returned and self.raises else "") + ("raises " + ",".join(self.raise_classes()) if self.raises else ""),
        }


def option_value(kind: str, what: str, box: Box) -> Optional[Val]:
    """Option classes: 'omitted' | 'None' | 'falsy' | 'truthy' (| 'any' for tau/limit_sigma)."""
    if kind == "omitted":
        return None
    if kind == "None":
        return NoneV()
    if what == "tau":
        base = box.num("tau", sym=("param", "arg.tau"), prov=frozenset({"ARG:tau"}), kinds=frozenset({"int", "float"}))
        if kind == "falsy":
            from ..ai.domains import lift_const

            z = lift_const(0.0)
            return Num(kinds=frozenset({"int", "float", "bool"}), rng=z.rng if box.ranges else None, deg=base.deg if base.deg is None else z.deg,
                       prov=frozenset({"ARG:tau"}), sym=("param", "arg.tau"), const=None).with_(rng=Interval.point(0.0))
        if kind == "truthy":
            if base.rng is not None:
                return base.with_(rng=Interval(base.rng.lo, base.rng.hi, True, base.rng.hi_open) if base.rng.lo == 0 else base.rng)
            return base.with_(rng=Interval(0.0, float("inf"), True, True))
        return base
    if what == "limit_sigma":
        if kind == "falsy":
            return Bool(False, frozenset({"ARG:limit_sigma"}), ("param", "arg.limit_sigma"))
        if kind == "truthy":
            return Bool(True, frozenset({"ARG:limit_sigma"}), ("param", "arg.limit_sigma"))
        return Bool(None, frozenset({"ARG:limit_sigma"}), ("param", "arg.limit_sigma"))
    raise AnalysisError(f"unknown option {what}")


def run_op(
    prog: Program,
    roles: Roles,
    op: str,
    *,
    teams: str = "teams:well-formed",
    ranks: str = "None",
    scores: str = "None",
    tau: str = "omitted",
    limit_sigma: str = "omitted",
    box: Optional[Box] = None,
    foreign=None,
    custom_gamma: bool = False,
    setup: Optional[Callable[[World], None]] = None,
    model_overrides: Optional[Dict[str, Val]] = None,
    n=None,
    msize=None,
    callbacks: Optional[Dict[str, Any]] = None,
) -> Outcome:
    box = box or Box()
    if callbacks is None and custom_gamma:
        from fractions import Fraction

        g = box.num("gamma", prov=frozenset({"CALLBACK:gamma"}))
        callbacks = {"gamma": {"result": g}}
    w = World(prog, roles, box, callbacks=callbacks)
    if setup:
        setup(w)
    m = w.make_model(custom_gamma=custom_gamma, overrides=model_overrides)
    if (n is not None or msize is not None) and teams == "teams:well-formed":
        tv = w.make_teams(n=n, m=msize)
    else:
        tv = build_teams(w, teams, foreign)
    kwargs: Dict[str, Val] = {}
    case = {"teams": teams}
    if op == "rate":
        case.update({"ranks": ranks, "scores": scores, "tau": tau, "limit_sigma": limit_sigma})
        if ranks != "omitted":
            kwargs["ranks"] = build_numlist(w, ranks, "IN.ranks", "RANKRAW")
        if scores != "omitted":
            kwargs["scores"] = build_numlist(w, scores, "IN.scores", "RANKRAW")
        tv_ = option_value(tau, "tau", box)
        if tv_ is not None:
            kwargs["tau"] = tv_
        lv = option_value(limit_sigma, "limit_sigma", box)
        if lv is not None:
            kwargs["limit_sigma"] = lv
    if n is not None:
        case["n"] = str(n)
    if msize is not None:
        case["m"] = str(msize)
    w.I.events.clear()  # construction events are not part of the operation
    w.I.raises.clear()
    res = w.call(m, op, [tv], kwargs)
    returned = not w.state.bottom
    return Outcome(roles.short, op, case, w, res, returned, list(w.I.raises), list(w.I.undecided))


def where(ev) -> Tuple[str, str, int]:
    """(module, qualified function, line) of an event."""
    f = ev.func
    mod, _, qn = f.partition("::")
    return mod, qn, getattr(ev.node, "lineno", 0) if ev.node is not None else 0


def parallel_map(fn, jobs: List[Any], workers: Optional[int] = None) -> List[Any]:
    """Run picklable jobs on a process pool (falls back to sequential for small inputs)."""
    workers = workers or min(16, os.cpu_count() or 1)
    if len(jobs) <= 1 or workers <= 1 or os.environ.get("OSV_SEQUENTIAL"):
        results = [fn(j) for j in jobs]
    else:
        with ProcessPoolExecutor(max_workers=min(workers, len(jobs))) as ex:
            results = list(ex.map(fn, jobs))
    # instances are per model: tag them with the model index of their job so that code shared between models (helpers,
    # mixins, base classes) does not collapse five obligations into one
    for job, lst in zip(jobs, results):
        idx = job if isinstance(job, int) else (job[0] if isinstance(job, (tuple, list)) and job and isinstance(job[0], int) else None)
        if isinstance(lst, list):
            for d in lst:
                if isinstance(d, dict):
                    d.setdefault("model", idx)
    return results


def valeq_instances(oc, rule: str, what: str, kinds=("branch", "valeq-lookup")) -> List[Dict[str, Any]]:
    """Participants are positions, not values: a branch (or a list lookup) inside an operation that is decided by the value
    equality (`==`, `!=`, `in`, `.index`, `.remove`) of two rating / team objects treats two distinct participants with equal
    ratings as one. One VIOLATED instance per such construct, none when there is no such construct."""
    out: List[Dict[str, Any]] = []
    seen = set()
    for ev in oc.I.events:
        if ev.kind in kinds and ((ev.kind == "branch" and "VALEQ" in ev.data.get("prov", ())) or ev.kind == "valeq-lookup"):
            if ev.node is None or id(ev.node) in seen:
                continue
            seen.add(id(ev.node))
            m, fn, ln = where(ev)
            how = "branch on" if ev.kind == "branch" else f"list.{ev.data.get('how')} by"
            out.append(dict(rule=rule, verdict="VIOLATED", module=m, function=fn, construct=norm_text(ev.node, 100), line=ln,
                            message=f"{how} the value equality of rating/team objects: two distinct participants with equal ratings are treated as one and the same, {what}", detail={}))
    return out
