"""Named relational lemmas supplied to the non-relational interval domain (DESIGN §5 group D).

Each lemma is applied at an arithmetic node only when its structural premise is discharged on the current
tree; a use is recorded so that the evidence lists which obligations rest on which lemma.

L-SHARE  a member's share  x_j / sum_k x_k  with x >= 0 lies in [0, 1]: the divisor is the additive fold, over all
         members of one team, of the very expression whose instance at one member is the dividend.
L-PL     the Plackett-Luce stage probability  exp(z_i) / SQ_q  lies in (0, 1] wherever it is consumed: SQ_q is filled
         with the same exponential over exactly the set of teams the normaliser is applied to (C07 R7.7, R7.9) and
         the quotient is read only under that guard.
"""

from __future__ import annotations

import ast
from dataclasses import replace
from typing import Any, Dict, Optional

from ..ai.values import INF, Interval, Num, ivar, subst_sym, sym_index_vars

_PL_PREMISE: Dict[str, Optional[str]] = {}


def _fold_of(sym):
    if sym is None:
        return None
    if sym[0] == "fold":
        return sym
    if sym[0] == "call" and sym[1] == "float" and len(sym) == 3 and sym[2] is not None and sym[2][0] == "fold":
        return sym[2]
    return None


def _nonneg_shape(sym) -> bool:
    if sym is None:
        return False
    if sym[0] == "pow" and sym[2] in (("const", 2), ("const", 2.0)):
        return True
    if sym[0] == "mul" and sym[1] == sym[2]:
        return True
    return False


def _pl_premise(prog, roles) -> Optional[str]:
    """None when R7.7 and R7.9 hold for this model, else the reason."""
    key = roles.model.fq
    if key not in _PL_PREMISE:
        from .c07 import _job as c07_job

        idx = [r.model for r in prog.roles()].index(roles.model)
        res = c07_job(idx)
        bad = [d for d in res if d["rule"] in ("R7.7", "R7.9") and d["verdict"] != "HOLDS"]
        have = {d["rule"] for d in res if d["verdict"] == "HOLDS"}
        if bad:
            _PL_PREMISE[key] = f"{bad[0]['rule']} is {bad[0]['verdict']}"
        elif not {"R7.7", "R7.9"} <= have:
            _PL_PREMISE[key] = "R7.7/R7.9 were not established"
        else:
            _PL_PREMISE[key] = None
    return _PL_PREMISE[key]


def _in_kernel(I) -> bool:
    return any(f.label.endswith("._compute") or "._compute.<locals>" in f.label for f in I.stack)


def _parents(fn_node):
    m = {}
    for n in ast.walk(fn_node):
        for c in ast.iter_child_nodes(n):
            m[c] = n
    return m


def _read_only_under_rank_guard(I, node) -> bool:
    """The quotient at `node` is assigned to a local that is read only inside an `if` whose test compares two
    `.rank`-like attribute reads (the use guard)."""
    fn = next((f.node for f in reversed(I.stack) if isinstance(f.node, (ast.FunctionDef, ast.AsyncFunctionDef))), I.stack[-1].node)  # comprehensions have frames of their own
    par = getattr(I, "_parents_cache", {}).get(id(fn))
    if par is None:
        par = _parents(fn)
        I._parents_cache = getattr(I, "_parents_cache", {})
        I._parents_cache[id(fn)] = par
    st = node
    while st in par and not isinstance(st, ast.stmt):
        st = par[st]
    # the quotient itself, or a list of it per normaliser (`[e / s for s in sum_q]`, read by position under the guard)
    direct = isinstance(st, ast.Assign) and st.value is node
    per_position = isinstance(st, ast.Assign) and isinstance(st.value, ast.ListComp) and st.value.elt is node and len(st.value.generators) == 1 and not st.value.generators[0].ifs
    if not isinstance(st, ast.Assign) or len(st.targets) != 1 or not isinstance(st.targets[0], ast.Name) or not (direct or per_position):
        return False
    name = st.targets[0].id
    loop = st
    while loop in par and not isinstance(loop, (ast.For, ast.While, ast.FunctionDef)):
        loop = par[loop]
    for n in ast.walk(loop):
        if isinstance(n, ast.Name) and n.id == name and isinstance(n.ctx, ast.Load):
            g = n
            guarded = False
            if per_position and not (isinstance(par.get(n), ast.Subscript) and par[n].value is n and isinstance(par[n].ctx, ast.Load)):
                return False  # the list escapes or is read other than element by element

            def rank_guard(test):
                # a comparison of the same per-team quantity at two teams: x.rank <op> y.rank, or ranks[q] <op> ranks[i]
                if not (isinstance(test, ast.Compare) and len(test.ops) == 1):
                    return False
                l_, r_ = test.left, test.comparators[0]
                if isinstance(l_, ast.Attribute) and isinstance(r_, ast.Attribute):
                    return l_.attr == r_.attr
                if isinstance(l_, ast.Subscript) and isinstance(r_, ast.Subscript):
                    return ast.dump(l_.value) == ast.dump(r_.value)
                return False

            while g in par and g is not loop:
                p = par[g]
                if isinstance(p, ast.If) and g in p.body and rank_guard(p.test):
                    guarded = True
                    break
                # guard-clause style: an earlier statement of the same block is `if <rank comparison>: continue`
                body = getattr(p, "body", None)
                if isinstance(body, list) and g in body:
                    for prev in body[: body.index(g)]:
                        if isinstance(prev, ast.If) and rank_guard(prev.test) and len(prev.body) == 1 and isinstance(prev.body[0], ast.Continue) and not prev.orelse:
                            guarded = True
                    if guarded:
                        break
                g = p
            if not guarded:
                return False
    return True


def install_lemmas(w, prog, roles, lemmas: Dict[str, str]) -> None:
    I = w.I
    I.number_locals = True  # value numbering of sym-less locals, so that dividend and divisor can be recognised

    def _unbounded_quotient(I, node, a, b, res) -> None:
        # a softmax-shaped quotient (an exponential of rating data over a positive rating-dependent normaliser) that the intervals
        # cannot bound and no lemma matched: the interval results of this run downstream of it are inconclusive (reshaped code,
        # e.g. a running-sum normaliser). Other unbounded quotients (sigma^2 / c, 1 / c) are bounded by nothing and expected.
        if (a.sym is not None and a.sym[0] == "call" and a.sym[1] == "math.exp" and _in_kernel(I) and res.rng is not None and res.rng.hi > 1e9 and a.rng is not None and b.rng is not None and a.rng.ge0() and b.rng.ge0()
                and ({"MU", "SIGMA"} & set(a.prov)) and ({"MU", "SIGMA"} & set(b.prov))):
            I.event("lemma-failed", node, name="L-QUOT", why="a quotient of two positive rating-dependent quantities could not be bounded (no relational lemma matches its shape)")

    def hook(I, node, opname, a: Num, b: Num, res: Num):
        if opname == "div" and (a.sym is None or b.sym is None or b.rng is None or not b.rng.gt0()):
            _unbounded_quotient(I, node, a, b, res)
        if opname != "div" or res.rng is None or a.sym is None or b.sym is None:
            return None
        if b.rng is None or not (b.rng.gt0()):
            return None
        # ---- L-SHARE
        f = _fold_of(b.sym)
        if f is not None and f[1] == ("const", "+") and _nonneg_shape(a.sym) and _nonneg_shape(f[3]):
            var = f[2][1]
            toks: set = set()
            sym_index_vars(a.sym, toks)
            for t in toks:
                if subst_sym(f[3], {var: ivar(t)}) == a.sym:
                    lemmas["L-SHARE"] = ("member share x_j / sum_k x_k in [0, 1]: the divisor is the additive fold over all members of the team of the dividend's own "
                                         f"non-negative expression (applied at {I.cur_func().split('::')[-1]}:{getattr(node, 'lineno', 0)})")
                    I.event("lemma", node, name="L-SHARE", why=lemmas["L-SHARE"])
                    return replace(res, rng=res.rng.meet(Interval(0.0, 1.0, False, False)))
        # ---- L-PL
        if a.sym[0] == "call" and a.sym[1] == "math.exp" and b.sym[0] == "elem" and _in_kernel(I):
            why = _pl_premise(prog, roles)
            if why is None and _read_only_under_rank_guard(I, node):
                lemmas["L-PL"] = ("stage probability exp(z_i)/SQ_q in (0, 1] where consumed: the normaliser is filled with the same exponential over exactly the set it is applied "
                                  "to (C07 R7.7, R7.9) and the quotient is read only under that guard "
                                  f"(applied at {I.cur_func().split('::')[-1]}:{getattr(node, 'lineno', 0)})")
                I.event("lemma", node, name="L-PL", why=lemmas["L-PL"])
                return replace(res, rng=res.rng.meet(Interval(0.0, 1.0, True, False)))
            if why is not None:
                I.event("lemma-failed", node, name="L-PL", why=why)
        # a quotient of two positive rating-dependent quantities that the intervals cannot bound and no lemma matched: the
        # interval results of this run downstream of it are inconclusive (reshaped code, e.g. a running-sum normaliser)
        _unbounded_quotient(I, node, a, b, res)
        return None

    I.hooks["arith-result"] = hook

    # ---- A-W: the variance corrections W, W~ lie in [0, 1] (numeric fact about the correction functions, C17; its
    # static necessary condition R17.1 is a premise checked by the rules that use it)
    common = f"{prog.package}.models.weng_lin.common"

    def call_result(I, fv, args, rv, node):
        fi = fv.fi
        if fi is None or fi.module.name != common or fi.name not in ("w", "wt") or not isinstance(rv, Num) or rv.rng is None:
            return None
        if not _in_kernel(I):
            return None
        lemmas["A-W"] = ("assumption A-W: the variance corrections w and wt lie in [0, 1] (numeric fact not provable by intervals: v*(v + x - t) has no interval sign); "
                         "premise R17.1 (non-cancelling CDF) is checked")
        return replace(rv, rng=rv.rng.meet(Interval(0.0, 1.0, False, False)))

    I.hooks["call-result"] = call_result
