"""Monotonicity typing of value-numbered terms (C09 R9.7).

mono(term, target) in {'0', '+', '-', '?'}: how the term's value moves when the mu of a member of the target team is raised and
everything else is kept — constant, never down, never up, unknown. Decided by structural recursion over the term with the sign
of the mu-independent factors taken from the interval analysis (side table term -> interval of the run). Functions are
monotone by name for the stdlib (exp, sqrt, log, erf increasing; erfc decreasing) and by role for the Gaussian CDF and its inverse.
"""

from __future__ import annotations

from typing import Callable, Dict, Optional

INCREASING = {"fn:phi_major", "NormalDist.cdf", "fn:phi_major_inverse", "NormalDist.inv_cdf", "math.exp", "math.sqrt", "math.log", "math.erf", "float", "math.atan", "math.tanh", "math.expm1", "math.log1p"}
DECREASING = {"math.erfc"}


def flip(m: str) -> str:
    return {"+": "-", "-": "+"}.get(m, m)


def combine(a: str, b: str) -> str:
    if a == "0":
        return b
    if b == "0":
        return a
    return a if a == b else "?"


def mentions(sym, is_target, depth=0) -> bool:
    if not isinstance(sym, tuple) or not sym or depth > 90:
        return False
    if sym[0] == "in":
        return is_target(sym)
    if sym[0] in ("const", "param", "lenterm", "len", "idx"):
        return False
    return any(mentions(a, is_target, depth + 1) for a in sym[1:] if isinstance(a, tuple))


def _has_opaque(sym, depth: int = 0) -> bool:
    if not isinstance(sym, tuple) or not sym or depth > 90:
        return False
    if sym[0] in ("rd", "elem", "opq"):
        return True
    if sym[0] in ("const", "param", "lenterm", "len", "idx", "in"):
        return False
    return any(_has_opaque(a, depth + 1) for a in sym[1:] if isinstance(a, tuple))


def mono(sym, is_target: Callable, sign_of: Callable, depth: int = 0) -> str:
    if sym is None or not isinstance(sym, tuple) or not sym or depth > 90:
        return "?"
    k = sym[0]
    if k == "in":
        return "+" if is_target(sym) else "0"
    if k in ("const", "param", "lenterm", "len", "idx"):
        return "0"
    if not mentions(sym, is_target):
        # no target atom in sight: constant unless the term contains a heap read / list element / numbered local, which may hide a dependence
        return "?" if _has_opaque(sym) else "0"
    rec = lambda s: mono(s, is_target, sign_of, depth + 1)
    if k == "add":
        return combine(rec(sym[1]), rec(sym[2]))
    if k == "sub":
        return combine(rec(sym[1]), flip(rec(sym[2])))
    if k == "neg":
        return flip(rec(sym[1]))
    if k == "mul":
        a, b = rec(sym[1]), rec(sym[2])
        if b == "0":
            s = sign_of(sym[2])
            return a if s == "pos" else flip(a) if s == "neg" else "?"
        if a == "0":
            s = sign_of(sym[1])
            return b if s == "pos" else flip(b) if s == "neg" else "?"
        return "?"
    if k == "div":
        a, b = rec(sym[1]), rec(sym[2])
        if b == "0":
            s = sign_of(sym[2])
            return a if s == "pos" else flip(a) if s == "neg" else "?"
        if a == "0":
            sa, sb = sign_of(sym[1]), sign_of(sym[2])
            if sb in ("pos", "neg"):  # c / g: moves against g when c > 0
                return flip(b) if sa == "pos" else b if sa == "neg" else "?"
        return "?"
    if k == "pow":
        a = rec(sym[1])
        e = sym[2]
        if e[0] == "const" and isinstance(e[1], (int, float)):
            if e[1] == 1:
                return a
            if isinstance(e[1], int) and e[1] > 0 and e[1] % 2 == 1:
                return a
            if e[1] > 0:
                s = sign_of(sym[1])
                return a if s == "pos" else flip(a) if s == "neg" and isinstance(e[1], int) and e[1] % 2 == 0 else "?"
            if e[1] < 0:
                s = sign_of(sym[1])
                return flip(a) if s == "pos" else "?"
        return "?"
    if k == "call":
        name = sym[1]
        args = [x for x in sym[2:] if isinstance(x, tuple)]
        if len(args) == 1:
            a = rec(args[0])
            if name in INCREASING:
                return a
            if name in DECREASING:
                return flip(a)
        return "?"
    if k == "fold":
        # an additive fold of monotone terms over a domain that does not depend on mu
        return rec(sym[3]) if sym[1] == ("const", "+") else "?"
    if k in ("max", "min"):
        out = "0"
        for x in sym[1:]:
            if isinstance(x, tuple):
                out = combine(out, rec(x))
        return out
    if k == "abs":
        a = rec(sym[1])
        s = sign_of(sym[1])
        return a if s == "pos" else flip(a) if s == "neg" else "?"
    return "?"


def sign_table(I) -> Callable:
    """sign of a term from the intervals recorded during the run ('pos' > 0, 'neg' < 0, None otherwise)."""
    tbl: Dict = I.sym_rng

    def from_table(sym) -> Optional[str]:
        r = tbl.get(sym)
        if r is None:
            return None
        if r.lo > 0 or (r.lo == 0 and r.lo_open):
            return "pos"
        if r.hi < 0 or (r.hi == 0 and r.hi_open):
            return "neg"
        if r.lo >= 0:
            return "nonneg"
        if r.hi <= 0:
            return "nonpos"
        return None

    def wide(sym, depth=0) -> Optional[str]:
        """'pos' | 'neg' | 'nonneg' | 'nonpos' | None: the recorded interval of the very term, else structure (the recorded
        intervals are keyed by the terms as they were computed; after renaming of positions only the structure is left)."""
        if not isinstance(sym, tuple) or not sym or depth > 60:
            return None
        if sym[0] == "const" and isinstance(sym[1], (int, float)) and not isinstance(sym[1], bool):
            return "pos" if sym[1] > 0 else "neg" if sym[1] < 0 else "nonneg"
        t = from_table(sym)
        if t is not None:
            return t
        k = sym[0]
        if k == "lenterm":
            return "pos"  # numbers of teams / of members: at least 1 on every class the harness builds
        if k == "call" and sym[1] == "math.sqrt" and len(sym) == 3:
            a = wide(sym[2], depth + 1)
            return "pos" if a == "pos" else "nonneg"
        if k == "call" and sym[1] == "math.exp":
            return "pos"
        if k == "pow" and sym[2][0] == "const" and sym[2][1] in (2, 2.0, 4):
            return "pos" if wide(sym[1], depth + 1) in ("pos", "neg") else "nonneg"
        if k in ("add", "mul", "div"):
            a, b = wide(sym[1], depth + 1), wide(sym[2], depth + 1)
            if a is None or b is None:
                return None
            if k == "add":
                if a in ("pos", "nonneg") and b in ("pos", "nonneg"):
                    return "pos" if "pos" in (a, b) else "nonneg"
                if a in ("neg", "nonpos") and b in ("neg", "nonpos"):
                    return "neg" if "neg" in (a, b) else "nonpos"
                return None
            if k == "div" and b not in ("pos", "neg"):
                return None
            strict = a in ("pos", "neg") and b in ("pos", "neg")
            positive = (a in ("pos", "nonneg")) == (b in ("pos", "nonneg"))
            return ("pos" if positive else "neg") if strict else ("nonneg" if positive else "nonpos")
        if k == "fold" and sym[1] == ("const", "+"):
            e = wide(sym[3], depth + 1)
            return e  # a sum over at least one element keeps strictness; over none it is 0 (kept as given: lengths are >= 1)
        if k == "neg":
            return {"pos": "neg", "neg": "pos", "nonneg": "nonpos", "nonpos": "nonneg"}.get(wide(sym[1], depth + 1))
        if k == "abs":
            return "pos" if wide(sym[1], depth + 1) in ("pos", "neg") else "nonneg"
        return None

    def sign_of(sym) -> Optional[str]:
        w = wide(sym)
        return w if w in ("pos", "neg") else None

    return sign_of
