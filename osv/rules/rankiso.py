"""Order isomorphism of the rank computation, decided on the finite set of orderings (C04 R4.5, C05 R5.3).

The kernels never see the ranks/scores a caller passes: they see the integers `_calculate_rankings` derives from the
(sorted) values, and those integers depend on the values only through comparisons. For n = 2 and n = 3 every
non-decreasing weak ordering of the n values is assumed in turn (3-point order domain on the values' terms), the function is
evaluated abstractly on explicit lists — every branch is decided, the arithmetic runs on constants — and the resulting
integers must be order isomorphic to the values: equal values <=> equal rank numbers, smaller value <=> smaller rank number.
"""

from __future__ import annotations

from typing import Any, Dict, List, Tuple

from ..ai.values import Interval, Num, Ptr, short
from ..ai.world import World
from ..frontend import Program

ANCHOR = "_calculate_rankings"


def sorted_weak_orderings(n: int):
    """Non-decreasing weak orderings of n values: one relation ('LT' or 'EQ') per adjacent pair."""
    import itertools

    return list(itertools.product(("LT", "EQ"), repeat=n - 1))


def rank_isomorphism(prog: Program, roles, n: int) -> List[Tuple[str, str, str, Any]]:
    """[(ordering description, verdict, message, ranks)]"""
    out: List[Tuple[str, str, str, Any]] = []
    if roles.model.lookup(ANCHOR) is None:
        return [(f"n={n}", "UNDECIDED", f"vanished anchor: {roles.model.name} has no method {ANCHOR}", None)]
    for adj in sorted_weak_orderings(n):
        desc = "v0" + "".join((" < " if r == "LT" else " = ") + f"v{i + 1}" for i, r in enumerate(adj))
        try:
            w = World(prog, roles)
            m = w.make_model()
            teams = w.make_teams(n=(n, n))
            I = w.I
            tseq = I.bi.concretise(I.list_seq(w.state, teams), n)
            if tseq is None:
                out.append((desc, "UNDECIDED", "the abstract game cannot be spelled out position by position", None))
                continue
            game = I.new_list(w.state, list(tseq.fixed), roles.model.node, "game")
            vals = [Num(kinds=frozenset({"int", "float"}), rng=None, sym=("param", f"rankiso.v{i}"), prov=frozenset({"RANKRAW"})) for i in range(n)]
            # relations between all pairs, from the adjacent ones (transitive closure of a non-decreasing chain)
            level = [0]
            for r in adj:
                level.append(level[-1] + (1 if r == "LT" else 0))
            for i in range(n):
                for j in range(i + 1, n):
                    w.state.rel_set(vals[i].sym, vals[j].sym, frozenset({"LT" if level[i] < level[j] else "EQ"}))
            ranks = I.new_list(w.state, vals, roles.model.node, "ranksarg")
            I.events.clear()
            I.raises.clear()
            res = w.call(m, ANCHOR, [game, ranks])
        except Exception as e:
            out.append((desc, "UNDECIDED", f"abstract evaluation failed: {type(e).__name__}: {e}", None))
            continue
        if I.undecided or w.state.bottom or I.raises:
            out.append((desc, "UNDECIDED" if I.undecided or not I.raises else "VIOLATED", "; ".join(I.undecided[:2]) or f"{ANCHOR} does not return (raises {[e.data['exc'] for e in I.raises]})", None))
            continue
        sq = I.list_seq(w.state, res) if isinstance(res, Ptr) else None
        rs = [x.const for x in sq.fixed] if sq is not None and sq.fixed is not None and len(sq.fixed) == n and all(isinstance(x, Num) for x in sq.fixed) else None
        if rs is None or any(not isinstance(r, (int, float)) or isinstance(r, bool) for r in rs):
            out.append((desc, "UNDECIDED", f"the rank numbers are not constants under this ordering ({short(sq) if sq is not None else short(res)})", None))
            continue
        problems = []
        for i in range(n):
            for j in range(i + 1, n):
                if level[i] == level[j] and rs[i] != rs[j]:
                    problems.append(f"v{i} = v{j} but the rank numbers are {rs[i]} and {rs[j]}: a tie is lost (the result then depends on the order in which tied teams are listed)")
                if level[i] < level[j] and not rs[i] < rs[j]:
                    problems.append(f"v{i} < v{j} but the rank numbers are {rs[i]} and {rs[j]}: a strict order is lost (the better placed team is not treated as such)")
        out.append((desc, "VIOLATED" if problems else "HOLDS", "; ".join(problems[:2]), rs))
    return out


def iso_job(job) -> List[Dict[str, Any]]:
    """Instances for one (model index, rule id): one per non-decreasing weak ordering of 2 and of 3 values."""
    idx, rule = job
    prog = Program()
    roles = prog.roles()[idx]
    fi = roles.model.lookup(ANCHOR)
    out = []
    for n in (2, 3):
        for desc, verdict, msg, rs in rank_isomorphism(prog, roles, n):
            out.append(dict(rule=rule, verdict=verdict, module=(fi.module.name if fi else roles.model.module.name), function=(fi.qualname if fi else roles.model.name),
                            construct=f"rank numbers are order isomorphic to the values: {desc}", line=(fi.node.lineno if fi else 0), message=msg, detail={"rank_numbers": rs}))
    return out
