"""The Plackett-Luce helpers on the finite set of orderings (C07 R7.7f).

`_sum_q` and `_a` look at the ranks only through comparisons, so for n teams they are functions of the weak ordering of the n
ranks. For n = 2 and 3 and every non-decreasing weak ordering (the kernel hands them rank-sorted teams) the helpers are
evaluated abstractly on explicit lists of team ratings — every comparison is decided, dictionaries and lists stay explicit —
and the results are compared, in polynomial normal form, with their definitions:

    sum_q[q] = sum of exp(mu_i / c) over exactly the teams i with rank(i) >= rank(q)      (each once, coefficient 1)
    a[q]     = number of teams with rank(s) == rank(q)

whatever way the code computes them (all-pairs scan, running sums, counting comprehension ...).
"""

from __future__ import annotations

from typing import Any, Dict, List, Optional, Tuple

from ..ai.values import Interval, Num, Ptr, short
from ..ai.world import World
from ..frontend import Program
from ..poly import to_poly
from .rankiso import sorted_weak_orderings


def _mentions(frozen, target) -> bool:
    if frozen == target:
        return True
    if isinstance(frozen, tuple):
        return any(_mentions(x, target) for x in frozen)
    return False


def _teams(w: World, roles, n: int, level: List[int]):
    I = w.I
    TR = roles.team_rating
    init = TR.lookup("__init__")
    params = [a.arg for a in init.node.args.args[1:]]
    objs = []
    mus = []
    for i in range(n):
        mu = Num(kinds=frozenset({"float"}), rng=Interval(-20.0, 20.0, False, False), sym=("param", f"sq.mu{i}"), prov=frozenset({"MU"}))
        var = Num(kinds=frozenset({"float"}), rng=Interval(1e-8, 1600.0, False, False), sym=("param", f"sq.var{i}"), prov=frozenset({"SIGMA"}))
        rank = Num(kinds=frozenset({"int"}), rng=Interval(0.0, float(n), False, False), sym=("param", f"sq.rank{i}"), prov=frozenset({"RANKRAW"}))
        kw = {}
        for p in params:
            lp = p.lower()
            if "rank" in lp:
                kw[p] = rank
            elif "sigma" in lp or "var" in lp:
                kw[p] = var
            elif "mu" in lp:
                kw[p] = mu
            else:
                kw[p] = I.new_list(w.state, [], TR.node)
        I.unroll_idx.append(i)  # one abstract object per team (allocation sites are named by their unrolling index)
        try:
            ptr = I.instantiate(TR, [], kw, TR.node, w.state)
        finally:
            I.unroll_idx.pop()
        objs.append(ptr)
        mus.append(mu)
    for i in range(n):
        for j in range(i + 1, n):
            w.state.rel_set(("param", f"sq.rank{i}"), ("param", f"sq.rank{j}"), frozenset({"LT" if level[i] < level[j] else "EQ"}))
    return I.new_list(w.state, objs, TR.node), mus


def helper_instances(prog: Program, roles, n: int) -> List[Tuple[str, str, str, str]]:
    """[(helper, ordering, verdict, message)] — empty when the model has neither helper (nothing to check)."""
    out: List[Tuple[str, str, str, str]] = []
    M = roles.model
    have = [h for h in ("_sum_q", "_a") if M.lookup(h) is not None]
    for adj in sorted_weak_orderings(n):
        level = [0]
        for r in adj:
            level.append(level[-1] + (1 if r == "LT" else 0))
        desc = "r0" + "".join((" < " if r == "LT" else " = ") + f"r{i + 1}" for i, r in enumerate(adj))
        for h in have:
            try:
                w = World(prog, roles)
                m = w.make_model()
                lst, mus = _teams(w, roles, n, level)
                I = w.I
                I.events.clear()
                I.raises.clear()
                args = [lst]
                if h == "_sum_q":
                    args.append(Num(kinds=frozenset({"float"}), rng=Interval(1.0, 100.0, False, False), sym=("param", "sq.c")))
                res = w.call(m, h, args)
            except Exception as e:
                out.append((h, desc, "UNDECIDED", f"abstract evaluation failed: {type(e).__name__}: {e}"))
                continue
            if I.undecided or w.state.bottom or I.raises:
                out.append((h, desc, "UNDECIDED" if I.undecided or not I.raises else "VIOLATED", "; ".join(I.undecided[:2]) or f"{h} does not return (raises {[e.data['exc'] for e in I.raises]})"))
                continue
            sq = I.to_seq(res, w.state, M.node) if isinstance(res, Ptr) else None
            if sq is None or sq.fixed is None or len(sq.fixed) != n or not all(isinstance(x, Num) for x in sq.fixed):
                out.append((h, desc, "UNDECIDED", f"the result is not an explicit list of {n} numbers under this ordering ({short(sq) if sq is not None else short(res)})"))
                continue
            problems = []
            unknown: List[str] = []
            for q in range(n):
                x = sq.fixed[q]
                if h == "_a":
                    want = sum(1 for s in range(n) if level[s] == level[q])
                    if x.const is None:
                        unknown.append(f"a[{q}] is not a constant under this ordering ({short(x)})")
                    elif x.const != want:
                        problems.append(f"a[{q}] = {x.const}, but {want} team(s) share the rank of team {q}")
                    continue
                want_set = {i for i in range(n) if level[i] >= level[q]}
                p = to_poly(x.sym) if x.sym is not None else None
                if p is None:
                    unknown.append(f"sum_q[{q}] has no normal form ({short(x)})")
                    continue
                got: Dict[int, Any] = {}
                bad = False
                for mono_, coef in p.items():
                    atoms = [a for a, e_ in mono_]
                    exps = [e_ for a, e_ in mono_]
                    if len(atoms) != 1 or exps[0] != 1 or not (isinstance(atoms[0], tuple) and atoms[0][0] == "call" and atoms[0][1] == "math.exp"):
                        bad = True
                        break
                    who = [i for i in range(n) if _mentions(atoms[0], ("param", f"sq.mu{i}"))]
                    if len(who) != 1:
                        bad = True
                        break
                    got[who[0]] = got.get(who[0], 0) + coef
                if bad:
                    problems.append(f"sum_q[{q}] is not a plain sum of one exponential per team")
                    continue
                if set(got) != want_set or any(c != 1 for c in got.values()):
                    extra, missing = sorted(set(got) - want_set), sorted(want_set - set(got))
                    dup = sorted(i for i, c in got.items() if c != 1 and i in want_set)
                    problems.append(f"sum_q[{q}] sums the teams {sorted(got)}" + (f" (team(s) {dup} not exactly once)" if dup else "") + f", but the teams ranked level with or below team {q} are {sorted(want_set)}"
                                    + (f": {missing} missing" if missing else "") + (f", {extra} too many" if extra else ""))
            out.append((h, desc, "VIOLATED" if problems else ("UNDECIDED" if unknown else "HOLDS"), "; ".join((problems or unknown)[:2])))
    return out
