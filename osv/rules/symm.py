"""Role-swap helpers on value-numbered terms (DESIGN §4.4)."""

from __future__ import annotations

from typing import Any, Callable, Dict, Optional

from ..ai.values import ivar, map_sym_indices
from ..poly import Poly, p_add, p_const, show, to_poly


def swap_pair_roles(sym):
    """Exchange the two roles of an ordered pair: ('pa', X) <-> ('pb', X), constant positions 0 <-> 1."""

    def fn(t):
        if t[0] == "pa":
            return ("pb", t[1])
        if t[0] == "pb":
            return ("pa", t[1])
        if t == ("c", 0):
            return ("c", 1)
        if t == ("c", 1):
            return ("c", 0)
        return None

    return map_sym_indices(sym, fn)


def swap_tokens(sym, a: str, b: str):
    def fn(t):
        if t == ivar(a):
            return ivar(b)
        if t == ivar(b):
            return ivar(a)
        return None

    return map_sym_indices(sym, fn)


def normalise_pair_vars(sym):
    """Rename the bound variable of a pair enumeration to a fixed name so that terms from two runs compare."""

    def fn(t):
        if t[0] in ("pa", "pb") and t[1][0] == "v":
            return (t[0], ivar("$pair"))
        if t[0] == "oth" and t[1][0] == "v":
            return ("oth", ivar("$oth"))
        if t[0] == "v" and (t[1].startswith("kc") or t[1].startswith("k")) and not t[1].startswith("$"):
            return None
        return None

    return map_sym_indices(sym, fn)


def find_calls(sym, name_pred: Callable[[str], bool], out: list, depth: int = 0) -> None:
    """Collect ('call', name, args...) sub-terms whose name satisfies the predicate (outermost first)."""
    if sym is None or not isinstance(sym, tuple) or not sym or depth > 80:
        return
    if sym and sym[0] == "call" and isinstance(sym[1], str) and name_pred(sym[1]):
        out.append(sym)
        return
    if sym and sym[0] in ("in", "rd", "elem", "const", "param", "lenterm", "len", "idx", "opq"):
        return
    for a in sym[1:]:
        if isinstance(a, tuple):
            find_calls(a, name_pred, out, depth + 1)


def is_cdf(name: str) -> bool:
    return name in ("fn:phi_major", "NormalDist.cdf")


def poly_sum_is(a, b, value) -> bool:
    pa, pb = to_poly(a), to_poly(b)
    if pa is None or pb is None:
        return False
    return p_add(pa, pb) == p_const(value)
