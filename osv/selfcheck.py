"""Embedded positive examples: tiny sources on which zero-expected-count rules must fire.

Run by MANIFEST.setup_cmd and by every check that relies on such a rule.
"""

from __future__ import annotations

import importlib
import pkgutil


def main() -> int:
    from . import rules

    failures = 0
    ran = 0
    for m in pkgutil.iter_modules(rules.__path__):
        mod = importlib.import_module(f"osv.rules.{m.name}")
        fn = getattr(mod, "positive_examples", None)
        if fn is None:
            continue
        for name, ok, msg in fn():
            ran += 1
            if not ok:
                failures += 1
                print(f"SELFCHECK-FAIL {m.name}:{name}: {msg}")
    print(f"selfcheck: {ran} embedded examples, {failures} failures")
    return 0 if failures == 0 else 2
