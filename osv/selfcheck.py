"""Embedded positive examples: tiny sources on which the detectors behind zero-expected-count rules must fire.

Several rules are expected to match nothing on a correct tree (no write to the model, no mutation of a global, no branch on
the value equality of participants, no id flowing into a number, ...). A rule that matches nothing passes vacuously for ever,
so the detectors they rely on are exercised here, on a ten-line synthetic package, by MANIFEST.setup_cmd before any check runs:
each example must produce the event / tag / verdict the rules look for.
"""

from __future__ import annotations

import os
import shutil
import tempfile
from dataclasses import replace

SRC = '''
import copy

REGISTRY = []


class R:
    def __init__(self, mu, ident):
        self.mu = mu
        self.id = ident

    def __eq__(self, other):
        return self.mu == other.mu


class M:
    def __init__(self):
        self.tau = 1.0

    def writes_model(self, a):
        self.tau = 2.0
        return a.mu

    def mutates_global(self, a):
        REGISTRY.append(a)
        return a.mu

    def branches_on_value_equality(self, a, b):
        if a == b:
            return 1
        return 0

    def looks_up_by_value(self, a, xs):
        return xs.index(a)

    def id_into_number(self, a):
        if a.id == "x":
            a.mu = a.mu + 1.0
        return a.mu

    def sorts(self, x, y):
        return sorted([y, x])

    def unknown_positions(self, xs):
        return xs[0] - xs[0]
'''


def _world():
    from .ai.engine import Interp
    from .ai.expr import Frame
    from .ai.state import State
    from .frontend import Program

    d = tempfile.mkdtemp(prefix="osv_posex_", dir="/dev/shm" if os.path.isdir("/dev/shm") else None)
    os.makedirs(os.path.join(d, "posex"))
    with open(os.path.join(d, "posex", "__init__.py"), "w") as fh:
        fh.write(SRC)
    prog = Program(root=d, package="posex")
    mi = prog.modules["posex"]
    I = Interp(prog)
    st = State()
    I._fid += 1
    top = Frame(I._fid, None, None, mi, mi.tree, "<selfcheck>")
    I.frames[top.fid] = top
    I.stack.append(top)
    return d, prog, mi, I, st


def _examples():
    from .ai.values import Bool, Num, Ptr, Str

    d, prog, mi, I, st = _world()
    try:
        M, R = mi.classes["M"], mi.classes["R"]
        m = I.instantiate(M, [], {}, M.node, st)
        st.heap[m.loc] = replace(st.heap[m.loc], origin="input:model")

        def rating(tag):
            p = I.instantiate(R, [Num(kinds=frozenset({"float"}), prov=frozenset({"MU"}), sym=("param", tag)), Str(None, frozenset({"ID"}))], {}, R.node, st)
            st.heap[p.loc] = replace(st.heap[p.loc], origin="input:player")
            return p

        a, b = rating("a"), rating("b")

        def call(name, args):
            I.events.clear()
            s2 = st.copy()
            fv = I.load_attr(m, name, M.node, s2)
            r = I.call_value(fv, args, {}, M.node, s2)
            return r, s2, list(I.events)

        _, _, ev = call("writes_model", [a])
        yield "write to the model object is an effect event (C14 R14.1, C15 R15.4)", any(e.kind == "write" and e.data["origin"] == "input:model" and e.data["field"] == "tau" for e in ev), str([e.kind for e in ev])
        _, _, ev = call("mutates_global", [a])
        yield "mutation of a module-level container is an effect event (C14 R14.2)", any(e.kind == "mutate" and str(e.data["origin"]).startswith("global:") for e in ev), str([(e.kind, e.data.get("origin")) for e in ev if e.kind == "mutate"])
        _, _, ev = call("branches_on_value_equality", [a, b])
        yield "branch on the value equality of two objects carries VALEQ (R7.10, R9.6, R10.4, R11.5)", any(e.kind == "branch" and "VALEQ" in e.data["prov"] for e in ev), str([sorted(e.data["prov"]) for e in ev if e.kind == "branch"])
        xs = I.new_list(st, [a, b], M.node)
        _, _, ev = call("looks_up_by_value", [a, xs])
        yield "list.index on rating objects is a value-equality lookup (C02 R2.8)", any(e.kind == "valeq-lookup" for e in ev), str([e.kind for e in ev])
        _, _, ev = call("id_into_number", [a])
        yield "a number stored under a test of the id carries ID (C14 R14.3, C20 R20.5)", any(e.kind == "write" and e.data["field"] == "mu" and "ID" in getattr(e.data.get("val"), "prov", ()) for e in ev), str([(e.kind, sorted(getattr(e.data.get("val"), "prov", ()))) for e in ev if e.kind == "write"])
        x = Num(kinds=frozenset({"float"}), sym=("param", "x"))
        y = Num(kinds=frozenset({"float"}), sym=("param", "y"))
        st.rel_set(x.sym, y.sym, frozenset({"LT"}))
        r, s2, _ = call("sorts", [x, y])
        sq = I.to_seq(r, s2, M.node)
        yield "a short explicit list is sorted concretely under assumed relations (R11.4, R4.5)", sq is not None and sq.fixed is not None and [v.sym for v in sq.fixed] == [x.sym, y.sym], str(sq)
        from .ai.values import STAR, Seq, Length
        from .poly import to_poly

        star_elem = Num(kinds=frozenset({"float"}), sym=("in", "IN.player", "mu", (STAR, STAR)))
        zs = I.new_list_from_seq(st, Seq(Length(None, 2, 8), star_elem, "k"), M.node)
        r, _, _ = call("unknown_positions", [zs])
        p = to_poly(r.sym) if isinstance(r, Num) and r.sym is not None else None
        yield "terms at unknown positions do not cancel (soundness of every normal-form rule)", p is None or p != {}, str(p)
    finally:
        shutil.rmtree(d, ignore_errors=True)


def _determinism():
    """Two abstract evaluations of the same operation must assign identical value numbers and tokens (regression guard: a
    temporary AST node per `x += y` once made site ids depend on recycled object addresses)."""
    import gc

    from .ai.world import Box
    from .frontend import Program
    from .rules.harness import run_op

    prints = []
    for k in range(2):
        prog = Program()
        roles = prog.roles()[-1]

        def setup(w):
            w.I.number_locals = True

        junk = [object() for _ in range(1000 * k)]  # perturb the allocator between the two evaluations
        oc = run_op(prog, roles, "rate", ranks="list-of-int", tau="any", limit_sigma="any", box=Box(ranges=True), setup=setup)
        sig = []
        for ev in oc.I.events:
            if ev.kind == "write" and ev.data.get("origin") == "input:player":
                sig.append((ev.data["field"], getattr(ev.node, "lineno", 0), repr(getattr(ev.data.get("val"), "sym", None))[:2000]))
        prints.append((len(oc.I._site_ids), tuple(sig)))
        del junk
        gc.collect()
    yield "two evaluations assign identical value numbers (determinism)", prints[0] == prints[1] and prints[0][0] > 10, f"site counts {prints[0][0]} vs {prints[1][0]}"


def _term_domain():
    """The zero test behind the explicit-game rules must tell a true identity from a false one."""
    from .poly import to_poly, p_add, p_const
    from .rules import game

    x, y, z = ("param", "x"), ("param", "y"), ("param", "z")
    s = ("add", x, y)
    share = ("add", ("div", x, s), ("div", y, s))
    yield "x/(x+y) + y/(x+y) == 1 as a rational function (R7.11, R1.1)", game.is_zero(p_add(to_poly(share), p_const(1), -1)) is True, ""
    yield "x/(x+y) + y/(x+y) != 2 (a rule that cannot fail proves nothing)", game.is_zero(p_add(to_poly(share), p_const(2), -1)) is False, ""
    root = ("call", "math.sqrt", s)
    yield "sqrt(S) * sqrt(S) == S and S / sqrt(S) == sqrt(S)", game.same(to_poly(("mul", root, root)), to_poly(s)) is True and game.same(to_poly(("div", s, root)), to_poly(root)) is True, ""
    phi = lambda a: ("call", "fn:phi_major", a)  # noqa: E731
    yield "Phi(z) + Phi(-z) == 1 and Phi(z) + Phi(z) != 1", (game.is_zero(p_add(to_poly(("add", phi(z), phi(("neg", z)))), p_const(1), -1)) is True
                                                             and game.is_zero(p_add(to_poly(("add", phi(z), phi(z))), p_const(1), -1)) is False), ""
    m1 = ("max", ("sub", ("const", 1), ("div", x, s)), z)
    m2 = ("max", z, ("div", y, s))
    yield "max(1 - x/(x+y), z) == max(z, y/(x+y)): atoms are compared by the values of their arguments", game.same(to_poly(m1), to_poly(m2)) is True, ""
    yield "|x - y| - (y - x) is zero for one choice of sign, |x - y| - x is not", (game.zero_up_to_abs(p_add(to_poly(("abs", ("sub", x, y))), to_poly(("sub", y, x)), -1)) is True
                                                                                 and game.zero_up_to_abs(p_add(to_poly(("abs", ("sub", x, y))), to_poly(x), -1)) is False), ""
    yield "a term with a value the run could not express proves no difference", game.is_zero(p_add(to_poly(("opq", "f", "v", (), 1)), to_poly(x), -1)) is None, ""


def main() -> int:
    failures = 0
    ran = 0
    try:
        import itertools

        for name, ok, msg in itertools.chain(_examples(), _determinism(), _term_domain()):
            ran += 1
            if not ok:
                failures += 1
                print(f"SELFCHECK-FAIL {name}: {msg[:300]}")
    except Exception as e:  # an example that cannot even be evaluated is a failure of the machinery
        import traceback

        traceback.print_exc()
        print(f"SELFCHECK-FAIL exception {type(e).__name__}: {e}")
        return 2
    print(f"selfcheck: {ran} embedded examples, {failures} failures")
    return 0 if failures == 0 and ran >= 15 else 2
