"""Testing the checker both ways (DESIGN §7): firing and silent variants on scratch copies of the analysed tree.

Used by the thorough tier of every check (``run_selftest``) and as a command:
    python -m osv.selftest [PROP ...]        run the catalogue (and the seeded changes) for the given properties (default all)
Scratch copies live under a temporary directory outside /repo and /verif and are removed immediately.
"""

from __future__ import annotations

import json
import os
import shutil
import subprocess
import sys
import tempfile
from concurrent.futures import ThreadPoolExecutor
from typing import Any, Dict, List, Optional, Tuple

from ..frontend import repo_root
from .catalog import BTF, BTP, PL, TMF, TMP, VARIANTS

VERIF = os.path.dirname(os.path.dirname(os.path.dirname(os.path.abspath(__file__))))
SEEDED = os.path.join(VERIF, "seeded")
ALL5 = [PL, BTF, BTP, TMF, TMP]


_DIGEST: List[Optional[str]] = [None]


def _current_digest() -> str:
    if _DIGEST[0] is None:
        from ..rules.game import _checker_digest

        _DIGEST[0] = _checker_digest()
    return _DIGEST[0]


def seeded_variants() -> List[Dict[str, Any]]:
    out = []
    if not os.path.isdir(SEEDED):
        return out
    for d in sorted(os.listdir(SEEDED)):
        meta_p = os.path.join(SEEDED, d, "meta.json")
        patch_p = os.path.join(SEEDED, d, "patch.diff")
        if not (os.path.exists(meta_p) and os.path.exists(patch_p)):
            continue
        with open(meta_p) as fh:
            meta = json.load(fh)
        if meta.get("checker_digest") != _current_digest():
            # the recorded outcomes are those of another version of the checks: kept as documentation (DESIGN tables), not as
            # expectations of the self-test (tools/reeval_seeded.py refreshes a meta and stamps it with the analyser's digest)
            continue
        out.append(dict(id=f"seeded/{d}", patch=patch_p, fire=list(meta.get("detected_by", [])), silent=list(meta.get("silent_for", [])), missed=list(meta.get("missed_by", []))))
    return out


def _scratch_base() -> str:
    for cand in ("/dev/shm", tempfile.gettempdir()):
        if os.path.isdir(cand) and os.access(cand, os.W_OK):
            return cand
    return tempfile.gettempdir()


def make_scratch(variant: Dict[str, Any]) -> Tuple[Optional[str], str]:
    """Scratch copy of the analysed package with the variant applied. Returns (dir, '') or (None, reason)."""
    d = tempfile.mkdtemp(prefix="osv_st_", dir=_scratch_base())
    try:
        shutil.copytree(os.path.join(repo_root(), "openskill"), os.path.join(d, "openskill"))
        if "patch" in variant:
            r = subprocess.run(["patch", "-p1", "-s", "--no-backup-if-mismatch", "-i", variant["patch"]], cwd=d, capture_output=True, text=True)
            if r.returncode != 0:
                shutil.rmtree(d, ignore_errors=True)
                return None, f"patch does not apply: {r.stdout.strip()[:200]} {r.stderr.strip()[:200]}"
        else:
            files = ALL5 if variant.get("all5") else [variant["file"]]
            for f in files:
                p = os.path.join(d, f)
                with open(p) as fh:
                    s = fh.read()
                old, new = variant["old"], variant["new"]
                if variant.get("all5") and f != variant["file"]:
                    pass
                if old not in s:
                    shutil.rmtree(d, ignore_errors=True)
                    return None, f"stale variant: old text not found in {f}"
                s = s.replace(old, new, 1)
                compile(s, p, "exec")
                with open(p, "w") as fh:
                    fh.write(s)
        return d, ""
    except SyntaxError as e:
        shutil.rmtree(d, ignore_errors=True)
        return None, f"variant does not compile: {e}"
    except Exception as e:  # pragma: no cover
        shutil.rmtree(d, ignore_errors=True)
        return None, f"{type(e).__name__}: {e}"


def run_variant(variant: Dict[str, Any], props: List[str]) -> Dict[str, Any]:
    d, why = make_scratch(variant)
    res: Dict[str, Any] = {"id": variant["id"], "results": {}}
    if d is None:
        res["error"] = why
        return res
    try:
        env = dict(os.environ, VERIF_REPO=d, VERIF_EVIDENCE_DIR=os.path.join(d, "ev"), VERIF_REPLAY_DIR=os.path.join(d, "replay"), VERIF_TIER="quick", OSV_SEQUENTIAL="1")
        for p in props:
            r = subprocess.run([sys.executable, "-m", "osv", "check", p, "--tier", "quick"], cwd=VERIF, env=env, capture_output=True, text=True)
            lines = [l for l in r.stdout.splitlines() if " VIOLATED at " in l or l.startswith("ANALYSIS-ERROR")]
            res["results"][p] = {"exit": r.returncode, "first": lines[0][:300] if lines else ""}
    finally:
        shutil.rmtree(d, ignore_errors=True)
    return res


def plan(props: Optional[List[str]] = None) -> List[Tuple[Dict[str, Any], List[str]]]:
    jobs = []
    for v in list(VARIANTS) + seeded_variants():
        want = sorted(set(v.get("fire", [])) | set(v.get("silent", [])))
        if props is not None:
            want = [p for p in want if p in props]
        if want:
            jobs.append((v, want))
    return jobs


def evaluate(jobs, workers: int = 16) -> Dict[str, Any]:
    with ThreadPoolExecutor(max_workers=workers) as ex:
        results = list(ex.map(lambda j: run_variant(j[0], j[1]), jobs))
    summary = {"firing": {"generated": 0, "fired": 0}, "silent": {"generated": 0, "silent": 0}, "failures": [], "stale": [], "variants": []}
    for (v, want), r in zip(jobs, results):
        if "error" in r:
            summary["stale"].append(f"{v['id']}: {r['error']}")
            continue
        for p in want:
            ex_ = r["results"][p]["exit"]
            if p in v.get("fire", []):
                summary["firing"]["generated"] += 1
                if ex_ == 1:
                    summary["firing"]["fired"] += 1
                else:
                    summary["failures"].append(f"{v['id']}: {p} must fire but exited {ex_} {r['results'][p]['first'][:160]}")
            else:
                summary["silent"]["generated"] += 1
                if ex_ == 0:
                    summary["silent"]["silent"] += 1
                else:
                    summary["failures"].append(f"{v['id']}: {p} must stay silent but exited {ex_}: {r['results'][p]['first'][:200]}")
            summary["variants"].append({"id": v["id"], "property": p, "expect": "fire" if p in v.get("fire", []) else "silent", "exit": ex_})
    return summary


def run_selftest(prop: str, mod, rep, seed: int) -> Dict[str, Any]:
    """Thorough tier: the property's own firing and silent variants must behave as catalogued."""
    if os.environ.get("VERIF_REPO") and os.environ.get("VERIF_REPO") != "/repo":
        return {"skipped": "self-test runs only against the real tree"}
    jobs = plan([prop])
    s = evaluate(jobs)
    for f in s["failures"]:
        rep.error("self-test: " + f)
    for f in s["stale"]:
        rep.error("self-test: " + f)
    s["variants"] = s["variants"][:80]
    return s


def main(argv=None) -> int:
    argv = list(sys.argv[1:] if argv is None else argv)
    props = [a.upper() for a in argv] or None
    jobs = plan(props)
    s = evaluate(jobs)
    print(json.dumps({k: s[k] for k in ("firing", "silent", "failures", "stale")}, indent=1))
    return 0 if not s["failures"] and not s["stale"] else 2


if __name__ == "__main__":
    sys.exit(main())
