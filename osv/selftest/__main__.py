import sys

from . import main

sys.exit(main())
